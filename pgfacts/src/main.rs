//! pgfacts: rustc_private driver that dumps `mir_built` bodies, ADT tables and
//! constants of the workspace crates as JSON facts for `pgcheck`.
//!
//! Used as `RUSTC_WORKSPACE_WRAPPER`: argv[1] is the real rustc path and is dropped.
#![feature(rustc_private)]
#![allow(clippy::all)]

extern crate rustc_abi;
extern crate rustc_data_structures;
extern crate rustc_driver;
extern crate rustc_hir;
extern crate rustc_interface;
extern crate rustc_middle;
extern crate rustc_session;
extern crate rustc_span;

use rustc_driver::Compilation;
use rustc_hir::def::DefKind;
use rustc_hir::def_id::{DefId, LocalDefId, LOCAL_CRATE};
use rustc_interface::interface;
use rustc_middle::mir::{
    AggregateKind, BasicBlockData, Body, Const, Operand, Place, PlaceTy, ProjectionElem, Rvalue,
    StatementKind, TerminatorKind, UnwindAction,
};
use rustc_middle::ty::print::{with_no_trimmed_paths, PrintTraitRefExt};
use rustc_middle::ty::{self, GenericArgsRef, Instance, Ty, TyCtxt, TypingEnv};
use rustc_middle::util::Providers;
use rustc_session::Session;
use rustc_span::{ExpnKind, Span};
use std::collections::BTreeSet;
use std::fmt::Write as _;
use std::sync::Mutex;

static BODIES: Mutex<Vec<String>> = Mutex::new(Vec::new());
static ADTS_SEEN: Mutex<BTreeSet<(u32, u32)>> = Mutex::new(BTreeSet::new());
static ORIG_MIR_BUILT: Mutex<
    Option<
        for<'tcx> fn(
            TyCtxt<'tcx>,
            LocalDefId,
        ) -> &'tcx rustc_data_structures::steal::Steal<Body<'tcx>>,
    >,
> = Mutex::new(None);

fn esc(s: &str) -> String {
    let mut o = String::with_capacity(s.len() + 2);
    o.push('"');
    for c in s.chars() {
        match c {
            '"' => o.push_str("\\\""),
            '\\' => o.push_str("\\\\"),
            '\n' => o.push_str("\\n"),
            '\r' => o.push_str("\\r"),
            '\t' => o.push_str("\\t"),
            c if (c as u32) < 0x20 => {
                let _ = write!(o, "\\u{:04x}", c as u32);
            }
            c => o.push(c),
        }
    }
    o.push('"');
    o
}

fn canon_path(tcx: TyCtxt<'_>, def_id: DefId) -> String {
    let krate = tcx.crate_name(def_id.krate);
    format!("{}{}", krate, tcx.def_path(def_id).to_string_no_crate_verbose())
}

fn ty_str<'tcx>(ty: Ty<'tcx>) -> String {
    with_no_trimmed_paths!(ty.to_string())
}

fn note_adt(def_id: DefId) {
    ADTS_SEEN
        .lock()
        .unwrap()
        .insert((def_id.krate.as_u32(), def_id.index.as_u32()));
}

fn ty_json<'tcx>(tcx: TyCtxt<'tcx>, ty: Ty<'tcx>) -> String {
    // {"s": "...", "adt": "canon path"?}
    let mut o = format!("{{\"s\":{}", esc(&ty_str(ty)));
    let mut peeled = ty;
    loop {
        match peeled.kind() {
            ty::Ref(_, inner, _) => peeled = *inner,
            ty::RawPtr(inner, _) => peeled = *inner,
            _ => break,
        }
    }
    match peeled.kind() {
        ty::Adt(def, args) => {
            note_adt(def.did());
            let _ = write!(o, ",\"adt\":{}", esc(&canon_path(tcx, def.did())));
            let a: Vec<String> = args.iter().map(|a| esc(&with_no_trimmed_paths!(a.to_string()))).collect();
            let _ = write!(o, ",\"targs\":[{}]", a.join(","));
        }
        ty::Closure(d, _) | ty::Coroutine(d, _) | ty::CoroutineClosure(d, _) => {
            let _ = write!(o, ",\"closure\":{}", esc(&canon_path(tcx, *d)));
        }
        ty::FnDef(d, args) => {
            let _ = write!(o, ",\"fndef\":{}", fn_json(tcx, None, *d, args));
        }
        _ => {}
    }
    o.push('}');
    o
}

fn loc_json(tcx: TyCtxt<'_>, span: Span) -> String {
    let sm = tcx.sess.source_map();
    let cs = span.source_callsite();
    let lo = sm.lookup_char_pos(cs.lo());
    let fname = format!("{}", lo.file.name.prefer_local_unconditionally());
    let mut o = format!("{{\"f\":{},\"l\":{},\"c\":{}", esc(&fname), lo.line, lo.col.0 + 1);
    if span.from_expansion() {
        let mut exps = Vec::new();
        for ed in span.macro_backtrace() {
            let s = match ed.kind {
                ExpnKind::Macro(_, name) => {
                    let dp = ed
                        .macro_def_id
                        .map(|d| with_no_trimmed_paths!(tcx.def_path_str(d)))
                        .unwrap_or_default();
                    format!("m:{}:{}", name, dp)
                }
                ExpnKind::Desugaring(k) => format!("d:{}", k.descr()),
                ExpnKind::AstPass(_) => "astpass".to_string(),
                ExpnKind::Root => "root".to_string(),
            };
            exps.push(esc(&s));
        }
        // innermost raw span position too
        let ilo = sm.lookup_char_pos(span.lo());
        let _ = write!(
            o,
            ",\"exp\":[{}],\"il\":{}",
            exps.join(","),
            ilo.line
        );
    }
    o.push('}');
    o
}

fn place_json<'tcx>(tcx: TyCtxt<'tcx>, body: &Body<'tcx>, place: Place<'tcx>) -> String {
    let mut o = format!("{{\"l\":{}", place.local.as_u32());
    if !place.projection.is_empty() {
        let mut pty = PlaceTy::from_ty(body.local_decls[place.local].ty);
        let mut projs: Vec<String> = Vec::new();
        for elem in place.projection.iter() {
            let s = match elem {
                ProjectionElem::Deref => "\"*\"".to_string(),
                ProjectionElem::Field(f, _fty) => {
                    let (name, owner) = match pty.ty.kind() {
                        ty::Adt(def, _) => {
                            let v = if def.is_enum() { pty.variant_index } else { Some(rustc_abi::FIRST_VARIANT) };
                            (
                                v.map(|v| def.variant(v).fields[f].name.to_string()),
                                Some(canon_path(tcx, def.did())),
                            )
                        }
                        _ => (None, None),
                    };
                    match (name, owner) {
                        (Some(n), Some(ow)) => format!(
                            "{{\"f\":{},\"i\":{},\"o\":{}}}",
                            esc(&n),
                            f.as_u32(),
                            esc(&ow)
                        ),
                        _ => format!("{{\"f\":\"{}\",\"i\":{}}}", f.as_u32(), f.as_u32()),
                    }
                }
                ProjectionElem::Index(l) => format!("{{\"idx\":{}}}", l.as_u32()),
                ProjectionElem::ConstantIndex { offset, min_length, from_end } => {
                    format!("{{\"cidx\":{},\"min\":{},\"end\":{}}}", offset, min_length, from_end)
                }
                ProjectionElem::Subslice { from, to, from_end } => {
                    format!("{{\"sub\":[{},{}],\"end\":{}}}", from, to, from_end)
                }
                ProjectionElem::Downcast(name, vidx) => {
                    let n = match name {
                        Some(s) => s.to_string(),
                        None => match pty.ty.kind() {
                            ty::Adt(def, _) => def.variant(vidx).name.to_string(),
                            _ => format!("{}", vidx.as_u32()),
                        },
                    };
                    format!("{{\"as\":{},\"v\":{}}}", esc(&n), vidx.as_u32())
                }
                ProjectionElem::OpaqueCast(_) => "\"opaque\"".to_string(),
                ProjectionElem::UnwrapUnsafeBinder(_) => "\"unbind\"".to_string(),
            };
            projs.push(s);
            pty = pty.projection_ty(tcx, elem);
        }
        let _ = write!(o, ",\"p\":[{}],\"ty\":{}", projs.join(","), ty_json(tcx, pty.ty));
    }
    o.push('}');
    o
}

fn fn_json<'tcx>(
    tcx: TyCtxt<'tcx>,
    env: Option<TypingEnv<'tcx>>,
    def_id: DefId,
    args: GenericArgsRef<'tcx>,
) -> String {
    let mut o = String::from("{");
    let _ = write!(o, "\"dp\":{}", esc(&canon_path(tcx, def_id)));
    let _ = write!(o, ",\"path\":{}", esc(&with_no_trimmed_paths!(tcx.def_path_str_with_args(def_id, args))));
    let _ = write!(o, ",\"def\":{}", esc(&with_no_trimmed_paths!(tcx.def_path_str(def_id))));
    let name = tcx.opt_item_name(def_id).map(|s| s.to_string()).unwrap_or_default();
    let _ = write!(o, ",\"name\":{}", esc(&name));
    let a: Vec<String> = args.iter().map(|a| esc(&with_no_trimmed_paths!(a.to_string()))).collect();
    let _ = write!(o, ",\"args\":[{}]", a.join(","));
    let kind = tcx.def_kind(def_id);
    if matches!(kind, DefKind::AssocFn) {
        if let Some(tr) = tcx.trait_of_assoc(def_id) {
            let _ = write!(o, ",\"trait\":{}", esc(&with_no_trimmed_paths!(tcx.def_path_str(tr))));
            if args.len() > 0 {
                if let Some(t) = args.get(0).and_then(|a| a.as_type()) {
                    let _ = write!(o, ",\"self_ty\":{}", ty_json(tcx, t));
                }
            }
        } else if let Some(im) = tcx.impl_of_assoc(def_id) {
            let st = tcx.type_of(im).instantiate_identity().skip_norm_wip();
            let _ = write!(o, ",\"impl_self\":{}", esc(&ty_str(st)));
            if let Some(tr) = tcx.impl_opt_trait_ref(im) {
                let tr = tr.instantiate_identity().skip_norm_wip();
                let _ = write!(o, ",\"impl_trait\":{}", esc(&with_no_trimmed_paths!(tr.print_only_trait_path().to_string())));
            }
        }
    }
    if let Some(env) = env {
        if matches!(kind, DefKind::Fn | DefKind::AssocFn) {
            // do not attempt resolution when args still have escaping/infer stuff
            let ok = std::panic::catch_unwind(std::panic::AssertUnwindSafe(|| {
                Instance::try_resolve(tcx, env, def_id, args)
            }));
            if let Ok(Ok(Some(inst))) = ok {
                let rd = inst.def_id();
                if rd != def_id {
                    let _ = write!(o, ",\"res\":{}", esc(&canon_path(tcx, rd)));
                    let _ = write!(
                        o,
                        ",\"res_path\":{}",
                        esc(&with_no_trimmed_paths!(tcx.def_path_str_with_args(rd, inst.args)))
                    );
                }
            }
        }
    }
    o.push('}');
    o
}

fn const_json<'tcx>(tcx: TyCtxt<'tcx>, env: TypingEnv<'tcx>, c: &Const<'tcx>) -> String {
    let ty = c.ty();
    let mut o = format!("{{\"k\":\"const\",\"ty\":{}", esc(&ty_str(ty)));
    let pretty = with_no_trimmed_paths!(format!("{}", c));
    let _ = write!(o, ",\"s\":{}", esc(&pretty));
    match ty.kind() {
        ty::FnDef(d, args) => {
            let _ = write!(o, ",\"fn\":{}", fn_json(tcx, Some(env), *d, args));
        }
        ty::Closure(d, _) | ty::Coroutine(d, _) => {
            let _ = write!(o, ",\"closure\":{}", esc(&canon_path(tcx, *d)));
        }
        _ => {}
    }
    if let Const::Val(rustc_middle::mir::ConstValue::Scalar(rustc_middle::mir::interpret::Scalar::Ptr(ptr, _)), _) = c {
        let aid = ptr.provenance.alloc_id();
        if let Some(ga) = tcx.try_get_global_alloc(aid) {
            if let rustc_middle::mir::interpret::GlobalAlloc::Static(did) = ga {
                let _ = write!(o, ",\"static\":{}", esc(&canon_path(tcx, did)));
                let _ = write!(o, ",\"static_path\":{}", esc(&with_no_trimmed_paths!(tcx.def_path_str(did))));
            }
        }
    }
    if let Const::Unevaluated(uv, _) = c {
        let _ = write!(o, ",\"item\":{}", esc(&canon_path(tcx, uv.def)));
        if uv.promoted.is_some() {
            let _ = write!(o, ",\"promoted\":true");
        }
    }
    if ty.is_integral() || ty.is_bool() || ty.is_char() {
        let r = std::panic::catch_unwind(std::panic::AssertUnwindSafe(|| c.try_eval_scalar_int(tcx, env)));
        if let Ok(Some(si)) = r {
            let bits = si.to_bits_unchecked();
            let v: i128 = if ty.is_signed() {
                let size = si.size();
                size.sign_extend(bits) as i128
            } else {
                bits as i128
            };
            let _ = write!(o, ",\"v\":{}", v);
        }
    }
    o.push('}');
    o
}

fn operand_json<'tcx>(
    tcx: TyCtxt<'tcx>,
    env: TypingEnv<'tcx>,
    body: &Body<'tcx>,
    op: &Operand<'tcx>,
) -> String {
    match op {
        Operand::Copy(p) => format!("{{\"k\":\"copy\",\"p\":{}}}", place_json(tcx, body, *p)),
        Operand::Move(p) => format!("{{\"k\":\"move\",\"p\":{}}}", place_json(tcx, body, *p)),
        Operand::Constant(c) => const_json(tcx, env, &c.const_),
        Operand::RuntimeChecks(_) => "{\"k\":\"rtcheck\"}".to_string(),
    }
}

fn rvalue_json<'tcx>(
    tcx: TyCtxt<'tcx>,
    env: TypingEnv<'tcx>,
    body: &Body<'tcx>,
    rv: &Rvalue<'tcx>,
) -> String {
    let op = |o: &Operand<'tcx>| operand_json(tcx, env, body, o);
    match rv {
        Rvalue::Use(o, _) => format!("{{\"k\":\"Use\",\"ops\":[{}]}}", op(o)),
        Rvalue::Repeat(o, n) => format!(
            "{{\"k\":\"Repeat\",\"ops\":[{}],\"n\":{}}}",
            op(o),
            esc(&with_no_trimmed_paths!(n.to_string()))
        ),
        Rvalue::Ref(_, bk, p) => format!(
            "{{\"k\":\"Ref\",\"mut\":{},\"place\":{}}}",
            matches!(bk, rustc_middle::mir::BorrowKind::Mut { .. }),
            place_json(tcx, body, *p)
        ),
        Rvalue::ThreadLocalRef(d) => format!("{{\"k\":\"TlsRef\",\"item\":{}}}", esc(&canon_path(tcx, *d))),
        Rvalue::RawPtr(_, p) => format!("{{\"k\":\"RawPtr\",\"place\":{}}}", place_json(tcx, body, *p)),
        Rvalue::Cast(ck, o, ty) => format!(
            "{{\"k\":\"Cast\",\"ck\":{},\"ops\":[{}],\"ty\":{}}}",
            esc(&format!("{:?}", ck)),
            op(o),
            ty_json(tcx, *ty)
        ),
        Rvalue::BinaryOp(b, ops) => format!(
            "{{\"k\":\"BinaryOp\",\"op\":{},\"ops\":[{},{}]}}",
            esc(&format!("{:?}", b)),
            op(&ops.0),
            op(&ops.1)
        ),
        Rvalue::UnaryOp(u, o) => format!(
            "{{\"k\":\"UnaryOp\",\"op\":{},\"ops\":[{}]}}",
            esc(&format!("{:?}", u)),
            op(o)
        ),
        Rvalue::Discriminant(p) => {
            format!("{{\"k\":\"Discriminant\",\"place\":{}}}", place_json(tcx, body, *p))
        }
        Rvalue::Aggregate(kind, ops) => {
            let opsj: Vec<String> = ops.iter().map(|o| op(o)).collect();
            let kj = match &**kind {
                AggregateKind::Array(t) => format!("{{\"a\":\"Array\",\"ty\":{}}}", esc(&ty_str(*t))),
                AggregateKind::Tuple => "{\"a\":\"Tuple\"}".to_string(),
                AggregateKind::Adt(d, v, args, _, active) => {
                    note_adt(*d);
                    let def = tcx.adt_def(*d);
                    let var = def.variant(*v);
                    let fields: Vec<String> = match active {
                        Some(f) => vec![esc(&var.fields[*f].name.to_string())],
                        None => var.fields.iter().map(|f| esc(&f.name.to_string())).collect(),
                    };
                    let a: Vec<String> = args.iter().map(|a| esc(&with_no_trimmed_paths!(a.to_string()))).collect();
                    format!(
                        "{{\"a\":\"Adt\",\"adt\":{},\"variant\":{},\"vi\":{},\"fields\":[{}],\"targs\":[{}]}}",
                        esc(&canon_path(tcx, *d)),
                        esc(&var.name.to_string()),
                        v.as_u32(),
                        fields.join(","),
                        a.join(",")
                    )
                }
                AggregateKind::Closure(d, _) => format!("{{\"a\":\"Closure\",\"def\":{}}}", esc(&canon_path(tcx, *d))),
                AggregateKind::Coroutine(d, _) => format!("{{\"a\":\"Coroutine\",\"def\":{}}}", esc(&canon_path(tcx, *d))),
                AggregateKind::CoroutineClosure(d, _) => {
                    format!("{{\"a\":\"CoroutineClosure\",\"def\":{}}}", esc(&canon_path(tcx, *d)))
                }
                AggregateKind::RawPtr(..) => "{\"a\":\"RawPtr\"}".to_string(),
            };
            format!("{{\"k\":\"Aggregate\",\"agg\":{},\"ops\":[{}]}}", kj, opsj.join(","))
        }
        Rvalue::CopyForDeref(p) => format!(
            "{{\"k\":\"Use\",\"ops\":[{{\"k\":\"copy\",\"p\":{}}}]}}",
            place_json(tcx, body, *p)
        ),
        Rvalue::WrapUnsafeBinder(o, _) => format!("{{\"k\":\"Use\",\"ops\":[{}]}}", op(o)),
    }
}

fn unwind_json(u: &UnwindAction) -> String {
    match u {
        UnwindAction::Cleanup(bb) => format!("{}", bb.as_u32()),
        _ => "null".to_string(),
    }
}

fn block_json<'tcx>(
    tcx: TyCtxt<'tcx>,
    env: TypingEnv<'tcx>,
    body: &Body<'tcx>,
    bbd: &BasicBlockData<'tcx>,
) -> String {
    let mut stmts: Vec<String> = Vec::new();
    for st in &bbd.statements {
        let loc = loc_json(tcx, st.source_info.span);
        match &st.kind {
            StatementKind::Assign(b) => {
                let (p, rv) = &**b;
                stmts.push(format!(
                    "{{\"k\":\"Assign\",\"lhs\":{},\"rv\":{},\"loc\":{}}}",
                    place_json(tcx, body, *p),
                    rvalue_json(tcx, env, body, rv),
                    loc
                ));
            }
            StatementKind::SetDiscriminant { place, variant_index } => {
                stmts.push(format!(
                    "{{\"k\":\"SetDiscriminant\",\"lhs\":{},\"v\":{},\"loc\":{}}}",
                    place_json(tcx, body, **place),
                    variant_index.as_u32(),
                    loc
                ));
            }
            _ => {}
        }
    }
    let term = bbd.terminator();
    let tloc = loc_json(tcx, term.source_info.span);
    let op = |o: &Operand<'tcx>| operand_json(tcx, env, body, o);
    let tj = match &term.kind {
        TerminatorKind::Goto { target } => format!("{{\"k\":\"Goto\",\"t\":{}", target.as_u32()),
        TerminatorKind::SwitchInt { discr, targets } => {
            let mut ts: Vec<String> = Vec::new();
            for (v, bb) in targets.iter() {
                ts.push(format!("[{},{}]", v, bb.as_u32()));
            }
            format!(
                "{{\"k\":\"SwitchInt\",\"discr\":{},\"targets\":[{}],\"otherwise\":{}",
                op(discr),
                ts.join(","),
                targets.otherwise().as_u32()
            )
        }
        TerminatorKind::UnwindResume => "{\"k\":\"UnwindResume\"".to_string(),
        TerminatorKind::UnwindTerminate(_) => "{\"k\":\"UnwindTerminate\"".to_string(),
        TerminatorKind::Return => "{\"k\":\"Return\"".to_string(),
        TerminatorKind::Unreachable => "{\"k\":\"Unreachable\"".to_string(),
        TerminatorKind::Drop { place, target, unwind, .. } => format!(
            "{{\"k\":\"Drop\",\"place\":{},\"t\":{},\"unwind\":{}",
            place_json(tcx, body, *place),
            target.as_u32(),
            unwind_json(unwind)
        ),
        TerminatorKind::Call { func, args, destination, target, unwind, fn_span, .. } => {
            let a: Vec<String> = args.iter().map(|a| op(&a.node)).collect();
            format!(
                "{{\"k\":\"Call\",\"func\":{},\"args\":[{}],\"dest\":{},\"t\":{},\"unwind\":{},\"fnloc\":{}",
                op(func),
                a.join(","),
                place_json(tcx, body, *destination),
                target.map(|t| t.as_u32().to_string()).unwrap_or("null".to_string()),
                unwind_json(unwind),
                loc_json(tcx, *fn_span)
            )
        }
        TerminatorKind::TailCall { func, args, .. } => {
            let a: Vec<String> = args.iter().map(|a| op(&a.node)).collect();
            format!("{{\"k\":\"TailCall\",\"func\":{},\"args\":[{}]", op(func), a.join(","))
        }
        TerminatorKind::Assert { cond, expected, msg, target, unwind } => format!(
            "{{\"k\":\"Assert\",\"cond\":{},\"expected\":{},\"msg\":{},\"t\":{},\"unwind\":{}",
            op(cond),
            expected,
            esc(&format!("{:?}", msg)),
            target.as_u32(),
            unwind_json(unwind)
        ),
        TerminatorKind::Yield { value, resume, resume_arg, drop } => format!(
            "{{\"k\":\"Yield\",\"value\":{},\"t\":{},\"resume_arg\":{},\"drop\":{}",
            op(value),
            resume.as_u32(),
            place_json(tcx, body, *resume_arg),
            drop.map(|t| t.as_u32().to_string()).unwrap_or("null".to_string())
        ),
        TerminatorKind::CoroutineDrop => "{\"k\":\"CoroutineDrop\"".to_string(),
        TerminatorKind::FalseEdge { real_target, imaginary_target } => format!(
            "{{\"k\":\"FalseEdge\",\"t\":{},\"imag\":{}",
            real_target.as_u32(),
            imaginary_target.as_u32()
        ),
        TerminatorKind::FalseUnwind { real_target, .. } => {
            format!("{{\"k\":\"FalseUnwind\",\"t\":{}", real_target.as_u32())
        }
        TerminatorKind::InlineAsm { .. } => "{\"k\":\"InlineAsm\"".to_string(),
    };
    format!(
        "{{\"cleanup\":{},\"stmts\":[{}],\"term\":{},\"loc\":{}}}}}",
        bbd.is_cleanup,
        stmts.join(","),
        tj,
        tloc
    )
}

fn body_json<'tcx>(tcx: TyCtxt<'tcx>, def: LocalDefId, body: &Body<'tcx>) -> String {
    let did = def.to_def_id();
    let env = TypingEnv::post_analysis(tcx, did);
    let mut o = String::from("{");
    let _ = write!(o, "\"dp\":{}", esc(&canon_path(tcx, did)));
    let _ = write!(o, ",\"path\":{}", esc(&with_no_trimmed_paths!(tcx.def_path_str(did))));
    let _ = write!(o, ",\"kind\":{}", esc(&format!("{:?}", tcx.def_kind(did))));
    let name = tcx.opt_item_name(did).map(|s| s.to_string()).unwrap_or_default();
    let _ = write!(o, ",\"name\":{}", esc(&name));
    if let Some(parent) = tcx.opt_local_parent(def) {
        let _ = write!(o, ",\"parent\":{}", esc(&canon_path(tcx, parent.to_def_id())));
    }
    if matches!(tcx.def_kind(did), DefKind::AssocFn) {
        if let Some(im) = tcx.impl_of_assoc(did) {
            let st = tcx.type_of(im).instantiate_identity().skip_norm_wip();
            let _ = write!(o, ",\"impl_self\":{}", ty_json(tcx, st));
            if let Some(tr) = tcx.impl_opt_trait_ref(im) {
                let tr = tr.instantiate_identity().skip_norm_wip();
                let _ = write!(
                    o,
                    ",\"impl_trait\":{}",
                    esc(&with_no_trimmed_paths!(tr.print_only_trait_path().to_string()))
                );
                let _ = write!(
                    o,
                    ",\"impl_trait_def\":{}",
                    esc(&with_no_trimmed_paths!(tcx.def_path_str(tr.def_id)))
                );
            }
        }
    }
    if matches!(tcx.def_kind(did), DefKind::Fn | DefKind::AssocFn) {
        let vis = tcx.visibility(did);
        let _ = write!(o, ",\"pub\":{}", vis.is_public());
    }
    let _ = write!(o, ",\"loc\":{}", loc_json(tcx, body.span));
    let _ = write!(o, ",\"argc\":{}", body.arg_count);
    if let Some(ck) = body.coroutine_kind() {
        let _ = write!(o, ",\"coroutine\":{}", esc(&format!("{:?}", ck)));
    }
    // locals
    let mut locals: Vec<String> = Vec::new();
    for (_l, decl) in body.local_decls.iter_enumerated() {
        locals.push(ty_json(tcx, decl.ty));
    }
    let _ = write!(o, ",\"locals\":[{}]", locals.join(","));
    // debug info
    let mut dbg: Vec<String> = Vec::new();
    for vdi in &body.var_debug_info {
        if let rustc_middle::mir::VarDebugInfoContents::Place(p) = vdi.value {
            dbg.push(format!(
                "{{\"name\":{},\"p\":{}}}",
                esc(&vdi.name.to_string()),
                place_json(tcx, body, p)
            ));
        }
    }
    let _ = write!(o, ",\"dbg\":[{}]", dbg.join(","));
    let mut blocks: Vec<String> = Vec::new();
    for (_bb, bbd) in body.basic_blocks.iter_enumerated() {
        blocks.push(block_json(tcx, env, body, bbd));
    }
    let _ = write!(o, ",\"blocks\":[{}]", blocks.join(",\n"));
    o.push('}');
    o
}

fn my_mir_built<'tcx>(
    tcx: TyCtxt<'tcx>,
    def: LocalDefId,
) -> &'tcx rustc_data_structures::steal::Steal<Body<'tcx>> {
    let orig = ORIG_MIR_BUILT.lock().unwrap().expect("orig mir_built");
    let steal = orig(tcx, def);
    if std::env::var_os("PGFACTS_OUT").is_some() {
        let body = steal.borrow();
        let s = body_json(tcx, def, &body);
        drop(body);
        BODIES.lock().unwrap().push(s);
    }
    steal
}

fn override_queries(_sess: &Session, providers: &mut Providers) {
    *ORIG_MIR_BUILT.lock().unwrap() = Some(providers.queries.mir_built);
    providers.queries.mir_built = my_mir_built;
}

struct Cb;

fn adt_json(tcx: TyCtxt<'_>, did: DefId) -> String {
    let def = tcx.adt_def(did);
    let mut o = format!(
        "{{\"dp\":{},\"path\":{},\"kind\":{},\"local\":{}",
        esc(&canon_path(tcx, did)),
        esc(&with_no_trimmed_paths!(tcx.def_path_str(did))),
        esc(if def.is_enum() { "enum" } else if def.is_union() { "union" } else { "struct" }),
        did.is_local()
    );
    let mut vars: Vec<String> = Vec::new();
    let discrs: Vec<(rustc_abi::VariantIdx, u128)> = if def.is_enum() {
        def.discriminants(tcx).map(|(i, d)| (i, d.val)).collect()
    } else {
        vec![]
    };
    for (vi, v) in def.variants().iter_enumerated() {
        let d = discrs.iter().find(|(i, _)| *i == vi).map(|(_, d)| *d);
        let mut fields: Vec<String> = Vec::new();
        for f in v.fields.iter() {
            let fty = tcx.type_of(f.did).instantiate_identity().skip_norm_wip();
            fields.push(format!(
                "{{\"name\":{},\"ty\":{},\"pub\":{}}}",
                esc(&f.name.to_string()),
                esc(&ty_str(fty)),
                f.vis.is_public()
            ));
        }
        vars.push(format!(
            "{{\"name\":{},\"idx\":{},\"discr\":{},\"fields\":[{}]}}",
            esc(&v.name.to_string()),
            vi.as_u32(),
            d.map(|d| d.to_string()).unwrap_or("null".to_string()),
            fields.join(",")
        ));
    }
    let _ = write!(o, ",\"variants\":[{}]}}", vars.join(","));
    o
}

impl rustc_driver::Callbacks for Cb {
    fn config(&mut self, config: &mut interface::Config) {
        config.override_queries = Some(override_queries);
    }

    fn after_analysis<'tcx>(
        &mut self,
        _compiler: &interface::Compiler,
        tcx: TyCtxt<'tcx>,
    ) -> Compilation {
        let Some(out) = std::env::var_os("PGFACTS_OUT") else {
            return Compilation::Continue;
        };
        let crate_name = tcx.crate_name(LOCAL_CRATE).to_string();
        if crate_name.starts_with("build_script") {
            return Compilation::Continue;
        }
        // force every body
        let owners: Vec<LocalDefId> = tcx.hir_body_owners().collect();
        for def in &owners {
            let _ = tcx.mir_built(*def);
        }
        // consts & statics
        let mut consts: Vec<String> = Vec::new();
        for def in &owners {
            let did = def.to_def_id();
            let kind = tcx.def_kind(did);
            if matches!(kind, DefKind::Const { .. } | DefKind::AssocConst { .. } | DefKind::Static { .. }) {
                let ty = tcx.type_of(did).instantiate_identity().skip_norm_wip();
                let mut s = format!(
                    "{{\"dp\":{},\"path\":{},\"ty\":{}",
                    esc(&canon_path(tcx, did)),
                    esc(&with_no_trimmed_paths!(tcx.def_path_str(did))),
                    esc(&ty_str(ty))
                );
                if ty.is_integral() || ty.is_bool() || ty.is_char() {
                    if !tcx.generics_of(did).requires_monomorphization(tcx) {
                        if let Ok(cv) = tcx.const_eval_poly(did) {
                            if let Some(si) = cv.try_to_scalar_int() {
                                let bits = si.to_bits_unchecked();
                                let v: i128 = if ty.is_signed() {
                                    si.size().sign_extend(bits) as i128
                                } else {
                                    bits as i128
                                };
                                let _ = write!(s, ",\"v\":{}", v);
                            }
                        }
                    }
                }
                s.push('}');
                consts.push(s);
            }
        }
        // ADTs: all local + seen
        let mut adts: Vec<String> = Vec::new();
        let mut done: BTreeSet<(u32, u32)> = BTreeSet::new();
        for id in tcx.hir_crate_items(()).definitions() {
            let did = id.to_def_id();
            if matches!(tcx.def_kind(did), DefKind::Struct | DefKind::Enum | DefKind::Union) {
                done.insert((did.krate.as_u32(), did.index.as_u32()));
                adts.push(adt_json(tcx, did));
            }
        }
        let seen: Vec<(u32, u32)> = ADTS_SEEN.lock().unwrap().iter().cloned().collect();
        for (k, i) in seen {
            if done.contains(&(k, i)) {
                continue;
            }
            let did = DefId {
                krate: rustc_hir::def_id::CrateNum::from_u32(k),
                index: rustc_hir::def_id::DefIndex::from_u32(i),
            };
            adts.push(adt_json(tcx, did));
        }
        let bodies = std::mem::take(&mut *BODIES.lock().unwrap());
        let mut cfgs: Vec<String> = Vec::new();
        for (name, val) in tcx.sess.config.iter() {
            if name.as_str() == "feature" {
                if let Some(v) = val {
                    cfgs.push(esc(v.as_str()));
                }
            }
        }
        cfgs.sort();
        let tree = std::env::var("PGFACTS_TREE_HASH").unwrap_or_default();
        let doc = format!(
            "{{\"crate\":{},\"tree_hash\":{},\"features\":[{}],\"debug_assertions\":{},\"n_owners\":{},\"adts\":[{}],\n\"consts\":[{}],\n\"bodies\":[\n{}\n]}}\n",
            esc(&crate_name),
            esc(&tree),
            cfgs.join(","),
            tcx.sess.opts.debug_assertions,
            owners.len(),
            adts.join(",\n"),
            consts.join(",\n"),
            bodies.join(",\n")
        );
        let dir = std::path::PathBuf::from(out);
        let _ = std::fs::create_dir_all(&dir);
        let path = dir.join(format!("{}.json", crate_name));
        let tmp = dir.join(format!("{}.json.tmp{}", crate_name, std::process::id()));
        std::fs::write(&tmp, doc).expect("write facts");
        std::fs::rename(&tmp, &path).expect("rename facts");
        Compilation::Continue
    }
}

fn main() {
    let mut args: Vec<String> = std::env::args().collect();
    // RUSTC_WORKSPACE_WRAPPER: argv[1] is the path of the real rustc
    if args.len() > 1 && (args[1].ends_with("rustc") || args[1].contains("/rustc")) {
        args.remove(1);
    }
    rustc_driver::run_compiler(&args, &mut Cb);
}
