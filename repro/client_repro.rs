// C19 / C01 reproducers; appended to penguin/src/tests.rs in a scratch copy.
#[cfg(feature = "client")]
#[tokio::test]
async fn repro_c19_orderly_server_close_triggers_reconnect() {
    use tokio_tungstenite::tungstenite::handshake::server::{Request, Response};
    static CLIENT_ARGS: OnceLock<arg::ClientArgs> = OnceLock::new();
    static HANDLER_RESOURCES: OnceLock<crate::client::HandlerResources> = OnceLock::new();
    setup_logging();
    let listener = TcpListener::bind("127.0.0.1:0").await.unwrap();
    let addr = listener.local_addr().unwrap();
    let attempts = std::sync::Arc::new(std::sync::atomic::AtomicUsize::new(0));
    let attempts2 = attempts.clone();
    // fake server: complete the WebSocket handshake, then close the WebSocket in an orderly way
    tokio::spawn(async move {
        loop {
            let (tcp, _) = listener.accept().await.unwrap();
            attempts2.fetch_add(1, std::sync::atomic::Ordering::SeqCst);
            tokio::spawn(async move {
                let cb = |_req: &Request, mut resp: Response| {
                    resp.headers_mut().insert("sec-websocket-protocol", "penguin-v7".parse().unwrap());
                    Ok(resp)
                };
                if let Ok(mut ws) = tokio_tungstenite::accept_hdr_async(tcp, cb).await {
                    tokio::time::sleep(Duration::from_millis(100)).await;
                    ws.close(None).await.ok();
                    // drain until the client answers the close
                    while let Some(Ok(_)) = futures_util::StreamExt::next(&mut ws).await {}
                }
            });
        }
    });
    let client_args = arg::ClientArgs {
        server: ServerUrl::from_str(&format!("ws://{addr}/ws")).unwrap(),
        remote: vec![Remote::from_str("127.0.0.1:0:socks").unwrap()],
        keepalive: OptionalDuration::NONE,
        max_retry_count: 0,
        ..Default::default()
    };
    CLIENT_ARGS.set(client_args).unwrap();
    let (hr, stream_command_rx, datagram_rx) = crate::client::HandlerResources::create();
    HANDLER_RESOURCES.set(hr).unwrap();
    let client = tokio::spawn(crate::client::client_main_inner(
        CLIENT_ARGS.get().unwrap(),
        HANDLER_RESOURCES.get().unwrap(),
        stream_command_rx,
        datagram_rx,
    ));
    tokio::time::sleep(Duration::from_secs(3)).await;
    let n = attempts.load(std::sync::atomic::Ordering::SeqCst);
    client.abort();
    assert!(n >= 2, "server closed the WebSocket but the client never reconnected ({n} connection attempt(s) in 3 s)");
}

#[cfg(feature = "client")]
#[test]
fn repro_c01_udp_client_ids_never_zero() {
    // id 0 means stdio in send_datagram_reply; the allocator used for UDP clients must never return it.
    use penguin_mux::HashMapLike;
    struct Zero;
    impl rand::TryRng for Zero {
        type Error = core::convert::Infallible;
        fn try_next_u32(&mut self) -> Result<u32, Self::Error> { Ok(0) }
        fn try_next_u64(&mut self) -> Result<u64, Self::Error> { Ok(0) }
        fn try_fill_bytes(&mut self, dst: &mut [u8]) -> Result<(), Self::Error> { dst.fill(0); Ok(()) }
    }
    let m: std::collections::HashMap<u32, ()> = std::collections::HashMap::new();
    // what add_udp_client calls today:
    let id = m.next_available_key(&mut Zero);
    assert_ne!(id, 0, "allocator used for UDP client ids can return the reserved stdio id 0");
}
