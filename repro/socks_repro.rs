// C18 reproducers; appended to penguin-socks/src/v5.rs resp. v4.rs in a scratch copy.
#[cfg(test)]
mod repro_c18_v5 {
    use super::*;
    #[test]
    fn c18_udp_header_roundtrip() {
        for target in ["1.2.3.4:5678".parse::<SocketAddr>().unwrap(), "[2001:db8::1]:443".parse().unwrap()] {
            let pkt = udp_relay_response(target, b"payload");
            let (dst, port, data) = parse_udp_relay_header(Bytes::from(pkt)).expect("own header must parse");
            assert_eq!(String::from_utf8(dst.to_vec()).unwrap(), target.ip().to_string());
            assert_eq!(port, target.port());
            assert_eq!(&data[..], b"payload");
        }
    }
}
