//! Reproducers for the findings of the static rules (run in a scratch copy only; never committed to /repo).
//! Placed at penguin-mux/src/repro.rs with `#[cfg(test)] mod repro;` in lib.rs.
#![cfg(all(not(loom), feature = "tungstenite", feature = "tokio-rt", feature = "std", feature = "tokio-io-util"))]
use alloc::vec;
use alloc::vec::Vec;
use crate::config::Options;
use crate::frame::Frame;
use crate::timing::OptionalDuration;
use crate::ws::{Message, WebSocket};
use crate::*;
use core::task::{Context, Poll};
use core::time::Duration;
use tokio::io::{AsyncReadExt, AsyncWriteExt};
use tokio_tungstenite::{WebSocketStream, tungstenite::protocol::Role};

async fn pair() -> (WebSocketStream<tokio::io::DuplexStream>, WebSocketStream<tokio::io::DuplexStream>) {
    let (c, s) = tokio::io::duplex(1 << 16);
    (
        WebSocketStream::from_raw_socket(c, Role::Client, None).await,
        WebSocketStream::from_raw_socket(s, Role::Server, None).await,
    )
}

/// C04: local rwnd 4 / threshold 8 against peer rwnd 16: the transfer must complete.
#[tokio::test]
async fn c04_asymmetric_window_makes_progress() {
    let (c, s) = pair().await;
    let a = Multiplexor::new_with_opt(c, Options::new().rwnd(4).default_rwnd_threshold(8), None);
    let b = Multiplexor::new_with_opt(s, Options::new().rwnd(16).default_rwnd_threshold(16), None);
    let reader = tokio::spawn(async move {
        let mut st = a.accept_stream_channel().await.unwrap();
        let mut buf = vec![0u8; 40];
        st.read_exact(&mut buf).await.unwrap();
        buf
    });
    let mut w = b.new_stream_channel(b"x", 1).await.unwrap();
    let res = tokio::time::timeout(Duration::from_secs(3), async {
        for i in 0..40u8 {
            w.write_all(&[i]).await.unwrap();
        }
        reader.await.unwrap()
    })
    .await;
    assert!(res.is_ok(), "transfer stalled: both sides blocked (threshold > own window)");
    assert_eq!(res.unwrap(), (0..40u8).collect::<Vec<_>>());
}

/// C05: a zero-length write must not be seen as EOF by the peer.
#[tokio::test]
async fn c05_empty_write_is_not_eof() {
    let (c, s) = pair().await;
    let a = Multiplexor::new(c);
    let b = Multiplexor::new(s);
    let reader = tokio::spawn(async move {
        let mut st = a.accept_stream_channel().await.unwrap();
        let mut v = Vec::new();
        st.read_to_end(&mut v).await.unwrap();
        v
    });
    let mut w = b.new_stream_channel(b"x", 1).await.unwrap();
    w.write_all(b"ab").await.unwrap();
    assert_eq!(w.write(b"").await.unwrap(), 0);
    let n = w.write_vectored(&[std::io::IoSlice::new(b""), std::io::IoSlice::new(b"")]).await.unwrap();
    assert_eq!(n, 0);
    w.write_all(b"cd").await.unwrap();
    w.shutdown().await.unwrap();
    let got = tokio::time::timeout(Duration::from_secs(3), reader).await.unwrap().unwrap();
    assert_eq!(got, b"abcd");
}

/// C09/C11: datagrams with a payload shorter than 4 bytes are valid frames.
#[test]
fn c09_short_datagram_decodes() {
    for plen in 0..6usize {
        for hlen in [0usize, 1, 3, 255] {
            let host = vec![b'h'; hlen];
            let data = vec![b'd'; plen];
            let f = Frame::new_datagram(7, &host, 53, &data);
            let bytes = bytes::Bytes::from(&f);
            let d = Frame::try_from(bytes).expect("valid datagram frame rejected");
            assert_eq!(d, f);
        }
    }
}

#[tokio::test]
async fn c11_one_byte_datagram_does_not_kill_connection() {
    let (c, s) = pair().await;
    let a = Multiplexor::new(c);
    let b = Multiplexor::new(s);
    b.send_datagram(Datagram { flow_id: 1, target_host: bytes::Bytes::from_static(b"h"), target_port: 1, data: bytes::Bytes::from_static(b"x") })
        .await
        .unwrap();
    let d = tokio::time::timeout(Duration::from_secs(3), a.get_datagram()).await.expect("hang").expect("connection torn down by a 1-byte datagram");
    assert_eq!(&d.data[..], b"x");
}

/// A transport that accepts everything and never delivers anything (silent peer).
struct Silent;
impl WebSocket for Silent {
    fn poll_ready_unpin(&mut self, _cx: &mut Context<'_>) -> Poll<Result<()>> {
        Poll::Ready(Ok(()))
    }
    fn start_send_unpin(&mut self, _item: Message) -> Result<()> {
        Ok(())
    }
    fn poll_flush_unpin(&mut self, _cx: &mut Context<'_>) -> Poll<Result<()>> {
        Poll::Ready(Ok(()))
    }
    fn poll_close_unpin(&mut self, _cx: &mut Context<'_>) -> Poll<Result<()>> {
        Poll::Ready(Ok(()))
    }
    fn poll_next_unpin(&mut self, _cx: &mut Context<'_>) -> Poll<Option<Result<Message>>> {
        Poll::Pending
    }
}

/// C08/C16: after a keepalive timeout on a silent transport pending calls must fail.
#[tokio::test]
async fn c16_keepalive_timeout_fails_pending_calls_on_silent_transport() {
    let opts = Options::new()
        .keepalive_interval(OptionalDuration::from(Duration::from_millis(100)))
        .keepalive_timeout(OptionalDuration::from(Duration::from_millis(200)));
    let mux = Multiplexor::new_with_opt(Silent, opts, None);
    let r = tokio::time::timeout(Duration::from_secs(3), mux.get_datagram()).await;
    assert!(r.is_ok(), "get_datagram still pending 3 s after the keepalive expired");
    assert!(matches!(r.unwrap(), Err(Error::Closed)));
}

/// C15: an accepted bind must produce exactly one reply frame.
#[tokio::test]
async fn c15_accepted_bind_sends_exactly_one_reply() {
    let (c, mut s) = pair().await;
    let a = Multiplexor::new_with_opt(c, Options::new().bind_buffer_size(4), None);
    // raw peer: send a Bind frame for id 0x11
    let bind = Frame::new_bind(0x11, crate::frame::BindType::Stream, b"h", 1);
    core::future::poll_fn(|cx| s.poll_ready_unpin(cx)).await.unwrap();
    s.start_send_unpin(Message::Binary(bytes::Bytes::from(&bind))).unwrap();
    core::future::poll_fn(|cx| s.poll_flush_unpin(cx)).await.unwrap();
    let req = a.next_bind_request().await.unwrap();
    req.reply(true).unwrap();
    drop(req);
    // collect what the peer sees for a short while
    let mut replies = Vec::new();
    while let Ok(Some(Ok(m))) =
        tokio::time::timeout(Duration::from_millis(300), core::future::poll_fn(|cx| s.poll_next_unpin(cx))).await
    {
        if let Message::Binary(b) = m {
            let f = Frame::try_from(b).unwrap();
            replies.push(f.opcode());
        }
    }
    assert_eq!(replies, vec![crate::frame::OpCode::Finish], "accepted bind must be answered by exactly one Finish");
}

/// A transport whose source yields a fixed script of messages and then stays silent; the sink accepts everything.
struct Scripted(alloc::collections::VecDeque<Message>);
impl WebSocket for Scripted {
    fn poll_ready_unpin(&mut self, _cx: &mut Context<'_>) -> Poll<Result<()>> {
        Poll::Ready(Ok(()))
    }
    fn start_send_unpin(&mut self, _item: Message) -> Result<()> {
        Ok(())
    }
    fn poll_flush_unpin(&mut self, _cx: &mut Context<'_>) -> Poll<Result<()>> {
        Poll::Ready(Ok(()))
    }
    fn poll_close_unpin(&mut self, _cx: &mut Context<'_>) -> Poll<Result<()>> {
        Poll::Ready(Ok(()))
    }
    fn poll_next_unpin(&mut self, _cx: &mut Context<'_>) -> Poll<Option<Result<Message>>> {
        match self.0.pop_front() {
            Some(m) => Poll::Ready(Some(Ok(m))),
            None => Poll::Pending,
        }
    }
}

/// C08 (not a defect; passes on the pinned tree): a Connect still buffered in the source when the keepalive
/// expires does not make the teardown wait on the full accept queue, because the handshake Acknowledge is queued
/// first and the outbound queue is already closed in the wind-down. Kept to document why C08.R6 does not list
/// the accept queue.
#[tokio::test]
async fn c08_buffered_connect_does_not_block_teardown() {
    let opts = Options::new()
        .stream_buffer_size(2)
        .keepalive_interval(OptionalDuration::from(Duration::from_millis(100)))
        .keepalive_timeout(OptionalDuration::from(Duration::from_millis(200)));
    let script = (1..=6u32)
        .map(|id| Message::Binary(bytes::Bytes::from(&Frame::new_connect(b"h", 1, id, 8))))
        .collect();
    let mux = Multiplexor::new_with_opt(Scripted(script), opts, None);
    let r = tokio::time::timeout(Duration::from_secs(3), mux.get_datagram()).await;
    assert!(r.is_ok(), "get_datagram still pending 3 s after the keepalive expired");
    assert!(matches!(r.unwrap(), Err(Error::Closed)));
}
