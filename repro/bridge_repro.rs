// C13 reproducer: a read error right after data must complete the bridge with that error.
// Appended to penguin-mux/src/stream_tools/copy_bidirectional.rs tests in a scratch copy.
#[cfg(test)]
#[cfg(feature = "tokio-io-util")]
mod repro_c13 {
    use crate::loom::{Arc, AtomicBool, AtomicU32, AtomicWaker};
    use crate::stream::MuxStream;
    use bytes::Bytes;
    use core::pin::Pin;
    use core::task::{Context, Poll};
    use std::io;
    use tokio::io::{AsyncBufRead, AsyncRead, AsyncWrite, ReadBuf};

    /// Local side: first fill_buf gives data, the next one fails.
    struct DataThenError(u8);
    impl AsyncRead for DataThenError {
        fn poll_read(self: Pin<&mut Self>, _: &mut Context<'_>, _: &mut ReadBuf<'_>) -> Poll<io::Result<()>> {
            unreachable!()
        }
    }
    impl AsyncBufRead for DataThenError {
        fn poll_fill_buf(self: Pin<&mut Self>, _: &mut Context<'_>) -> Poll<io::Result<&[u8]>> {
            let me = self.get_mut();
            if me.0 == 0 {
                Poll::Ready(Ok(b"hello"))
            } else {
                Poll::Ready(Err(io::Error::new(io::ErrorKind::ConnectionReset, "boom")))
            }
        }
        fn consume(self: Pin<&mut Self>, _amt: usize) {
            self.get_mut().0 += 1;
        }
    }
    impl AsyncWrite for DataThenError {
        fn poll_write(self: Pin<&mut Self>, _: &mut Context<'_>, b: &[u8]) -> Poll<io::Result<usize>> {
            Poll::Ready(Ok(b.len()))
        }
        fn poll_flush(self: Pin<&mut Self>, _: &mut Context<'_>) -> Poll<io::Result<()>> {
            Poll::Ready(Ok(()))
        }
        fn poll_shutdown(self: Pin<&mut Self>, _: &mut Context<'_>) -> Poll<io::Result<()>> {
            Poll::Ready(Ok(()))
        }
    }

    #[tokio::test]
    async fn c13_read_error_after_data_completes_with_error() {
        let (_rx_frame_tx, rx_frame_rx) = tokio::sync::mpsc::channel::<Bytes>(4);
        let (tx_msg_tx, _tx_msg_rx) = tokio::sync::mpsc::unbounded_channel();
        let (dropped_flows_tx, _d) = tokio::sync::mpsc::unbounded_channel();
        let stream = MuxStream {
            rx_frame_rx,
            flow_id: 1,
            dest_host: Bytes::new(),
            dest_port: 0,
            finish_sent: Arc::new(AtomicBool::new(false)),
            psh_send_remaining: Arc::new(AtomicU32::new(8)),
            psh_recvd_since: 0,
            writer_waker: Arc::new(AtomicWaker::new()),
            buf: Bytes::new(),
            tx_msg_tx,
            dropped_flows_tx,
            rwnd_threshold: 4,
        };
        let mut fut = std::boxed::Box::pin(stream.into_copy_bidirectional_with_buf(DataThenError(0)));
        struct Count(std::sync::atomic::AtomicUsize);
        impl std::task::Wake for Count {
            fn wake(self: std::sync::Arc<Self>) {
                self.0.fetch_add(1, std::sync::atomic::Ordering::SeqCst);
            }
        }
        let cnt = std::sync::Arc::new(Count(std::sync::atomic::AtomicUsize::new(0)));
        let waker = std::task::Waker::from(cnt.clone());
        let mut cx = Context::from_waker(&waker);
        use core::future::Future;
        match fut.as_mut().poll(&mut cx) {
            Poll::Ready(r) => assert!(r.is_err()),
            Poll::Pending => {
                // the local read already failed: either we get the error now or a wake-up must be pending
                assert!(
                    cnt.0.load(std::sync::atomic::Ordering::SeqCst) > 0,
                    "bridge returned Pending after the local read failed and nothing will ever wake it"
                );
            }
        }
    }
}
