// C12 reproducer (loom): a credit grant racing with a writer that parks must not be lost.
// Placed at penguin-mux/src/repro_loom.rs with `#[cfg(all(test, loom))] mod repro_loom;` in lib.rs, run with
//   RUSTFLAGS="--cfg loom" cargo test --offline -p penguin-mux --lib repro_loom --release
use crate::loom::{Arc, AtomicBool, AtomicU32, AtomicWaker};
use crate::stream::MuxStream;
use crate::EstablishedStreamData;
use bytes::Bytes;
use core::task::{Context, Poll};

struct Count(std::sync::atomic::AtomicUsize);
impl std::task::Wake for Count {
    fn wake(self: std::sync::Arc<Self>) {
        self.0.fetch_add(1, std::sync::atomic::Ordering::SeqCst);
    }
}

#[test]
fn c12_grant_racing_with_parking_writer_is_not_lost() {
    loom::model(|| {
        let (_rx_frame_tx, rx_frame_rx) = tokio::sync::mpsc::channel::<Bytes>(4);
        let (tx_msg_tx, _tx_msg_rx) = tokio::sync::mpsc::unbounded_channel();
        let (dropped_flows_tx, _d) = tokio::sync::mpsc::unbounded_channel();
        let finish_sent = Arc::new(AtomicBool::new(false));
        let credit = Arc::new(AtomicU32::new(0));
        let waker_cell = Arc::new(AtomicWaker::new());
        let data = EstablishedStreamData {
            sender: None,
            finish_sent: finish_sent.clone(),
            psh_send_remaining: credit.clone(),
            writer_waker: waker_cell.clone(),
        };
        let stream = MuxStream {
            rx_frame_rx,
            flow_id: 1,
            dest_host: Bytes::new(),
            dest_port: 0,
            finish_sent,
            psh_send_remaining: credit,
            psh_recvd_since: 0,
            writer_waker: waker_cell,
            buf: Bytes::new(),
            tx_msg_tx,
            dropped_flows_tx,
            rwnd_threshold: 4,
        };
        let t = loom::thread::spawn(move || {
            data.acknowledge(1);
        });
        let cnt = std::sync::Arc::new(Count(std::sync::atomic::AtomicUsize::new(0)));
        let waker = std::task::Waker::from(cnt.clone());
        let cx = Context::from_waker(&waker);
        let r = stream.poll_obtain_write_permission(&cx);
        t.join().unwrap();
        if let Poll::Pending = r {
            assert!(
                cnt.0.load(std::sync::atomic::Ordering::SeqCst) > 0,
                "writer parked while credit is available and nobody will wake it (lost wake-up)"
            );
        }
    });
}
