// C20 reproducers; appended to cow-bytes/src/pbuf.rs in a scratch copy.
#[cfg(test)]
mod repro_c20 {
    use super::*;
    use bytes::Buf;

    fn concat(c: &LongChain<'_>) -> alloc::vec::Vec<u8> {
        let mut v = alloc::vec::Vec::new();
        for ch in c.as_ref() {
            v.extend_from_slice(ch.as_ref());
        }
        v
    }

    #[test]
    fn c20_truncate_past_end_keeps_length_consistent() {
        let mut c = LongChain::new();
        c.push(CowBytes::Temporary(b"abc"));
        c.push(CowBytes::Temporary(b"de"));
        let r = std::panic::catch_unwind(core::panic::AssertUnwindSafe(|| {
            c.truncate(9);
        }));
        if r.is_ok() {
            // either unchanged or panicked: never a length that disagrees with the contents
            let total: usize = c.as_ref().iter().map(|x| x.len()).sum();
            assert_eq!(c.remaining(), total, "reported length disagrees with contents");
            assert_eq!(concat(&c), b"abcde");
        }
    }

    #[test]
    fn c20_empty_segment_never_exposed_as_chunk() {
        let mut c = LongChain::new();
        let r = std::panic::catch_unwind(core::panic::AssertUnwindSafe(|| {
            c.push(CowBytes::Temporary(b""));
            c.push(CowBytes::Temporary(b"abc"));
            c.insert(0, CowBytes::Temporary(b""));
        }));
        if r.is_ok() {
            assert!(c.as_ref().iter().all(|x| !x.is_empty()), "empty chunk stored while bytes remain");
            assert_eq!(c.chunk(), b"abc");
        }
    }
}
