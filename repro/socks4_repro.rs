#[cfg(test)]
mod repro_c18_v4 {
    use super::*;
    use std::io::Cursor;
    #[tokio::test]
    async fn c18_socks4_plain_ip_with_zero_first_octet_is_not_4a() {
        // CONNECT 0.1.2.3:80, user "u": a well-formed SOCKS4 (not 4a) request, followed by payload bytes
        let mut r = Cursor::new(vec![1, 0, 80, 0, 1, 2, 3, b'u', 0, b'X', b'Y', 0]);
        let (cmd, host, port) = read_request(&mut r).await.unwrap();
        assert_eq!((cmd, port), (1, 80));
        assert_eq!(host, b"0.1.2.3", "treated as SOCKS4a although DSTIP is not 0.0.0.x");
        assert_eq!(r.position(), 9, "consumed bytes beyond the request");
    }
    #[tokio::test]
    async fn c18_socks4_truncated_userid_is_an_error() {
        // user id without NUL terminator (input ends)
        let mut r = Cursor::new(vec![1, 0, 80, 1, 2, 3, 4, b'u', b's', b'e', b'r']);
        assert!(read_request(&mut r).await.is_err(), "truncated request accepted");
        // 4a domain without terminator
        let mut r = Cursor::new(vec![1, 0, 80, 0, 0, 0, 1, b'u', 0, b'e', b'x']);
        assert!(read_request(&mut r).await.is_err(), "truncated 4a domain accepted");
    }
}
