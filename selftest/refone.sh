#!/bin/bash
# refone.sh <agent id> <n> [checks...] : apply /tmp/refac/<id>-out/r<n>.diff in /tmp/refac/<id> and run the checks (default all); prints fired keys
ID=$1; N=$2; shift 2; CH="$@"; [ -z "$CH" ] && CH="C01 C02 C03 C04 C05 C06 C07 C08 C09 C10 C11 C12 C13 C14 C15 C16 C17 C18 C19 C20"
WT=/tmp/refac/$ID
(cd $WT && git reset -q --hard HEAD && git clean -fdxq && (git apply /tmp/refac/$ID-out/r$N.diff || git apply --3way /tmp/refac/$ID-out/r$N.diff)) || { echo "DOES NOT APPLY"; exit 2; }
cd /verif && PGCHECK_REPO=$WT PGCHECK_EVID=/tmp/refac/$ID-evid PGCHECK_CACHE_KEEP=40 ./check $CH 2>&1 | grep -E "^C[0-9]+\.R|^C[0-9]+\.[a-z]|Traceback|^    " | cut -c1-${COLS:-230}
echo "== $ID r$N done"
