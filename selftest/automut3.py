#!/usr/bin/env python3
"""Third mutation sweep (development aid): VALUE mutations. Every use of an integer-valued protocol quantity (port, window, flow id,
count, length) in expression position is replaced by a value computed from it (`(x | 1)`), one site per mutant. A mutant that compiles
and is reported by no check of the properties anchored in the file is a candidate gap in the "value is passed on unchanged" rules.
Usage: python3 selftest/automut3.py <worker-index> <worker-count> [file-substring]"""
import json, os, re, subprocess, sys
K, N = int(sys.argv[1]), int(sys.argv[2])
ONLY = sys.argv[3] if len(sys.argv) > 3 else ""
WT = "/tmp/automut3-wt-%d" % K
EVID = "/tmp/automut3-evid-%d" % K
OUT = "/tmp/automut3-out-%d.jsonl" % K
FILES = ["penguin-mux/src/task.rs", "penguin-mux/src/stream.rs", "penguin-mux/src/lib.rs", "penguin-mux/src/frame.rs",
         "penguin-socks/src/v4.rs", "penguin-socks/src/v5.rs", "penguin/src/client/mod.rs", "penguin/src/client/handle_remote/udp.rs",
         "penguin/src/client/handle_remote/socks.rs", "penguin/src/client/handle_remote/tcp.rs", "penguin/src/client/handle_remote/common.rs",
         "penguin/src/client/handle_remote/http.rs", "penguin/src/server/websocket.rs", "penguin/src/server/forwarder.rs",
         "penguin-mux/src/stream_tools/copy_bidirectional.rs", "cow-bytes/src/pbuf.rs"]
props_of = {}
for l in open("/verif/properties.jsonl"):
    j = json.loads(l)
    for f in j["anchors"]["files"]:
        props_of.setdefault(f, []).append(j["id"])
EXTRA = {"penguin/src/client/handle_remote/common.rs": ["C01", "C19"], "penguin/src/client/handle_remote/http.rs": ["C01"],
         "penguin/src/client/handle_remote/tcp.rs": ["C01"], "penguin/src/client/handle_remote/udp.rs": ["C01"], "penguin/src/server/websocket.rs": ["C01", "C11"]}
NAMES = r"(rwnd_threshold|max_flow_id_retries|retries_left|processed|amt|read_amt|total_len|host_len|target_port|dest_port|rport|lport|port|peer_rwnd|rwnd|flow_id|client_id|id|psh_recvd_since|acknowledged|new|len|written|at|cnt|n)"
SKIP = re.compile(r"^\s*(//|#\[|///|debug_assert|assert|trace!|debug!|info!|warn!|error!|use |pub use |mod |\*|fn |pub fn |pub\(|pub |async fn |let Some|let Ok)")
USE = re.compile(r"(?<![\w.&:])" + NAMES + r"(?=\s*[,)\]};])")


def sh(cmd, **kw):
    return subprocess.run(cmd, shell=True, capture_output=True, text=True, **kw)


def main():
    head = sh("git -C /repo rev-parse HEAD").stdout.strip()
    if not os.path.isdir(WT):
        sh("git -C /repo worktree add --detach %s %s" % (WT, head))
    muts = []
    for f in FILES:
        if ONLY and ONLY not in f:
            continue
        lines = open(os.path.join("/repo", f)).read().split("\n")
        intest = False
        per_name = {}
        for i, ln in enumerate(lines):
            if re.match(r"\s*#\[cfg\(test\)\]", ln) or re.match(r"\s*mod tests?\b", ln):
                intest = True
            if intest or SKIP.match(ln) or "=>" in ln and "{" not in ln and False:
                continue
            for m in USE.finditer(ln):
                nm = m.group(1)
                if per_name.get(nm, 0) >= int(os.environ.get("AUTOMUT3_CAP", "4")):
                    continue
                per_name[nm] = per_name.get(nm, 0) + 1
                new = ln[:m.start()] + ("%s: (%s | 1)" % (nm, nm) if re.search(r"[{,]\s*$", ln[:m.start()]) and ln[m.end():m.end() + 1] in (",", "}") and "(" not in ln[:m.start()].split("{")[-1] else "(%s | 1)" % nm) + ln[m.end():]
                muts.append((f, i, ln, new))
    muts = [m for k, m in enumerate(muts) if k % N == K]
    out = open(OUT, "a")
    for f, i, old, new in muts:
        sh("git -C %s checkout -q -- . " % WT)
        p = os.path.join(WT, f)
        lines = open(p).read().split("\n")
        if lines[i] != old:
            continue
        lines[i] = new
        open(p, "w").write("\n".join(lines))
        props = sorted(set(props_of.get(f, []) + EXTRA.get(f, [])))
        env = dict(os.environ, PGCHECK_REPO=WT, PGCHECK_EVID=EVID, PGCHECK_CACHE_KEEP="60")
        r = subprocess.run([os.environ.get("PGCHECK_BIN", "/verif/check")] + props, env=env, cwd="/verif", capture_output=True, text=True)
        o = r.stdout
        if ".build/extract" in o:
            res = "nocompile"
        else:
            fired = sorted(set(l.split()[0] for l in o.splitlines() if re.match(r"^C\d\d\.", l) and "/" in l.split()[0]))
            res = "caught" if fired else "SURVIVED"
        rec = {"file": f, "line": i + 1, "old": old.strip(), "new": new.strip(), "result": res, "props": props,
               "fired": (fired[:3] if res == "caught" else [])}
        out.write(json.dumps(rec) + "\n")
        out.flush()
        print(res, f, i + 1, new.strip()[:90], flush=True)
    sh("git -C %s checkout -q -- ." % WT)


main()
