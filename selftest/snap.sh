#!/bin/bash
# snap.sh <dir> : frozen copy of the rule engine (shares /verif/.cache and the driver) so that long regress runs are not disturbed by edits
D=${1:-/tmp/verif-snap}; rm -rf $D; mkdir -p $D
cp -r /verif/pgcheck /verif/check /verif/KNOWN_FINDINGS.txt /verif/properties.jsonl $D/
echo "export PGCHECK_BIN=$D/check PGCHECK_CACHE=/verif/.cache PGCHECK_DRIVER=/verif/pgfacts"
