#!/usr/bin/env python3
"""Phase 2 of the mutation sweep: run the repository's own tests on every static survivor, so that only mutants which
ALSO pass the existing suite remain (those are the realistic ones).  Usage: automut_suite.py <worker> <count>"""
import glob, json, os, re, subprocess, sys
K, N = int(sys.argv[1]), int(sys.argv[2])
WT = "/tmp/automut2-wt-%d" % K
TGT = "/tmp/automut2-target-%d" % K
OUT = "/tmp/automut2-suite-%d.jsonl" % K
rows = [json.loads(l) for f in sorted(glob.glob("/tmp/automut2-out-*.jsonl")) for l in open(f)]
surv = [r for r in rows if r["status"] == "SURVIVED" and r["props"]]
# drop mutants that sit in test code
def in_test(r):
    src = open(os.path.join("/repo", r["file"])).read().split("\n")
    for i, l in enumerate(src[: r["line"]]):
        if l.strip() == "#[cfg(test)]" and i + 1 < len(src) and re.match(r"\s*(#\[.*\]\s*)?mod \w+ \{", src[i + 1] if not src[i + 1].strip().startswith("#[") else src[i + 2]):
            return True
    return False
surv = [r for r in surv if not in_test(r)]
mine = [r for i, r in enumerate(surv) if i % N == K]
done = set()
if os.path.exists(OUT):
    for l in open(OUT):
        j = json.loads(l); done.add((j["file"], j["line"], j["new"]))
fh = open(OUT, "a")
env = dict(os.environ, CARGO_NET_OFFLINE="true", CARGO_TARGET_DIR=TGT)
def run(cmd, **kw):
    return subprocess.run(cmd, capture_output=True, text=True, **kw)
for r in mine:
    if (r["file"], r["line"], r["new"]) in done:
        continue
    run(["git", "-C", WT, "checkout", "--", "."])
    p = os.path.join(WT, r["file"])
    lines = open(p).read().split("\n")
    if lines[r["line"] - 1].strip() != r["old"]:
        continue
    lines[r["line"] - 1] = lines[r["line"] - 1].replace(r["old"], r["new"]) if r["new"] != "// deleted" else "// deleted"
    open(p, "w").write("\n".join(lines))
    crate = r["file"].split("/")[0]
    pk = {"penguin-mux": ["-p", "penguin-mux", "-p", "rusty-penguin"], "cow-bytes": ["-p", "cow-bytes", "-p", "penguin-mux"],
          "penguin-socks": ["-p", "penguin-socks", "-p", "rusty-penguin"], "penguin": ["-p", "rusty-penguin"]}[crate]
    cmd = "ip link set lo up; cd %s; timeout 1500 cargo test %s --no-fail-fast --offline 2>&1" % (WT, " ".join(pk))
    t = run(["unshare", "-n", "bash", "-c", cmd], env=env)
    out = t.stdout
    failed = sorted(set(re.findall(r"^test (\S+) \.\.\. FAILED", out, re.M)) - {"server::service::tests::test_backend_tls", "tests::test_it_works_dns_v4"})
    compiled = "test result:" in out
    status = "TEST-KILLED" if failed else ("NO-COMPILE" if not compiled else "TRUE-SURVIVOR")
    if t.returncode == 124:
        status = "TIMEOUT-OR-HANG"
    r2 = dict(r, suite=status, failed=failed[:4])
    fh.write(json.dumps(r2) + "\n"); fh.flush()
run(["git", "-C", WT, "checkout", "--", "."])
