#!/usr/bin/env python3
"""Each `fixed:` entry of KNOWN_FINDINGS.txt: with the repair reverted (reverse patch of that commit applied to a scratch
worktree of the current tree) the property's check must report a violation again and print no KNOWN-FINDING line."""
import os, re, subprocess, sys
WT = "/tmp/pg-revert-wt"
EVID = "/tmp/pg-revert-evid"


def run(cmd, **kw):
    return subprocess.run(cmd, capture_output=True, text=True, **kw)


head = subprocess.check_output(["git", "-C", "/repo", "rev-parse", "HEAD"], text=True).strip()
if not os.path.isdir(WT):
    run(["git", "-C", "/repo", "worktree", "add", "--detach", WT, head])
env = dict(os.environ, PGCHECK_REPO=WT, PGCHECK_EVID=EVID, PGCHECK_CACHE_KEEP="40")
todo = {}
for l in open("/verif/KNOWN_FINDINGS.txt"):
    m = re.match(r"fixed:\s+property=(\S+)\s+([0-9a-f]{7,})\s", l)
    if m:
        todo.setdefault(m.group(2), set()).add(m.group(1))
bad = 0
for commit, props in todo.items():
    run(["git", "-C", WT, "reset", "-q", "--hard", head])
    diff = subprocess.check_output(["git", "-C", "/repo", "show", "--format=", commit], text=True)
    r = subprocess.run(["git", "-C", WT, "apply", "-R"], input=diff, capture_output=True, text=True)
    if r.returncode:
        r = subprocess.run(["git", "-C", WT, "apply", "-R", "--3way"], input=diff, capture_output=True, text=True)
    if r.returncode:
        # a later fix touched the same lines: revert the later commits on those files first, then this one
        run(["git", "-C", WT, "reset", "-q", "--hard", head])
        files = subprocess.check_output(["git", "-C", "/repo", "show", "--format=", "--name-only", commit], text=True).split()
        later = subprocess.check_output(["git", "-C", "/repo", "log", "--format=%h", "%s..HEAD" % commit, "--"] + files, text=True).split()
        for c in later + [commit]:
            d2 = subprocess.check_output(["git", "-C", "/repo", "show", "--format=", c], text=True)
            r = subprocess.run(["git", "-C", WT, "apply", "-R"], input=d2, capture_output=True, text=True)
            if r.returncode:
                break
    if r.returncode:
        print("REVERT DOES NOT APPLY %s: %s" % (commit, r.stderr.strip()[:200]))
        bad += 1
        continue
    out = run([os.environ.get("PGCHECK_BIN", "/verif/check")] + sorted(props), env=env, cwd="/verif").stdout
    for p in sorted(props):
        fired = [l.split()[0] for l in out.splitlines() if l.startswith(p + ".")]
        known = [l for l in out.splitlines() if l.startswith("KNOWN-FINDING") and ("property=%s " % p) in l]
        if fired and not known:
            print("REPORTED %s %s %s" % (commit, p, fired[:3]))
        else:
            bad += 1
            print("MISSED   %s %s fired=%s known=%s" % (commit, p, fired[:3], known[:1]))
run(["git", "-C", WT, "checkout", "--", "."])
run(["git", "-C", WT, "reset", "-q", "--hard", head])
print("%d problem(s)" % bad)
sys.exit(1 if bad else 0)
