#!/usr/bin/env python3
"""Behaviour-preserving refactorings (written by sub-agents that saw only the repository): every check must stay
silent on each of them.  Applies /verif/refactors/<agent>/rN.diff one at a time in a scratch worktree.
Usage: python3 selftest/refactors_regress.py [regex]   (PG_REFAC_WT=<scratch worktree> to run several in parallel)"""
import glob, os, re, subprocess, sys
WT = os.environ.get("PG_REFAC_WT", "/tmp/pg-refac-wt")
EVID = WT + "-evid"
ALL = ["C%02d" % i for i in range(1, 21)]
only = sys.argv[1] if len(sys.argv) > 1 else ""


def run(cmd, **kw):
    return subprocess.run(cmd, capture_output=True, text=True, **kw)


head = subprocess.check_output(["git", "-C", "/repo", "rev-parse", "HEAD"], text=True).strip()
if not os.path.isdir(WT):
    run(["git", "-C", "/repo", "worktree", "add", "--detach", WT, head])
env = dict(os.environ, PGCHECK_REPO=WT, PGCHECK_EVID=EVID, PGCHECK_CACHE_KEEP="40")
bad = 0
n = 0
for p in sorted(glob.glob("/verif/refactors/*/r*.diff")):
    if only and not re.search(only, p):
        continue
    n += 1
    run(["git", "-C", WT, "checkout", "--", "."])
    run(["git", "-C", WT, "clean", "-fdq"])
    r = run(["git", "-C", WT, "apply", p])
    if r.returncode:
        r = run(["git", "-C", WT, "apply", "--3way", p])
    if r.returncode:
        print("DOES NOT APPLY", p)
        bad += 1
        continue
    out = run([os.environ.get("PGCHECK_BIN", "/verif/check")] + ALL, env=env, cwd="/verif").stdout
    fired = [l.split()[0] for l in out.splitlines() if re.match(r"^C\d\d\.", l) and "/" in l.split()[0]]
    tb = "Traceback" in out
    tag = "/".join(p.split("/")[-2:])
    if fired or tb:
        bad += 1
        print("ALARM  %s: %s%s" % (tag, fired[:6], " (traceback)" if tb else ""))
    else:
        print("silent %s" % tag)
run(["git", "-C", WT, "checkout", "--", "."])
print("%d/%d refactorings leave every check silent" % (n - bad, n))
sys.exit(1 if bad else 0)
