#!/bin/bash
# Behaviour-preserving refactorings from sub-agents: every check must stay silent.
# refcheck.sh <agent id> : applies /tmp/refac/<id>-out/r*.diff one at a time in /tmp/refac/<id>, runs all 20 checks.
ID=$1; WT=/tmp/refac/$ID; OUT=/tmp/refac/$ID-out
ALL="C01 C02 C03 C04 C05 C06 C07 C08 C09 C10 C11 C12 C13 C14 C15 C16 C17 C18 C19 C20"
for p in $OUT/r*.diff; do
  (cd $WT && git reset -q --hard HEAD && git clean -fdxq && (git apply $p || git apply --3way $p)) || { echo "$ID $(basename $p): DOES NOT APPLY"; continue; }
  res=$(cd /verif && PGCHECK_REPO=$WT PGCHECK_EVID=/tmp/refac/$ID-evid PGCHECK_CACHE_KEEP=40 ./check $ALL 2>&1 | grep -E "^C[0-9]+\.R|^VIOLATION|error\[|Traceback" | cut -c1-260)
  if [ -z "$res" ]; then echo "$ID $(basename $p): silent"; else echo "$ID $(basename $p): ALARM"; echo "$res"; fi
done
(cd $WT && git reset -q --hard HEAD && git clean -fdxq)
