#!/usr/bin/env python3
"""mut1.py <file> <line> <new text> <checks...> : one-line mutant in a scratch worktree, run the checks, print what fired."""
import os, re, subprocess, sys
f, ln, new = sys.argv[1], int(sys.argv[2]), sys.argv[3]
checks = sys.argv[4:]
WT = "/tmp/mut1-wt"
head = subprocess.check_output(["git", "-C", "/repo", "rev-parse", "HEAD"], text=True).strip()
if not os.path.isdir(WT):
    subprocess.run(["git", "-C", "/repo", "worktree", "add", "--detach", WT, head], capture_output=True)
subprocess.run(["git", "-C", WT, "checkout", "-q", "--detach", head]); subprocess.run(["git", "-C", WT, "checkout", "--", "."])
p = os.path.join(WT, f)
L = open(p).read().split("\n")
ind = re.match(r"\s*", L[ln - 1]).group(0)
print("-", L[ln - 1].strip()); print("+", new)
L[ln - 1] = ind + new
open(p, "w").write("\n".join(L))
env = dict(os.environ, PGCHECK_REPO=WT, PGCHECK_EVID="/tmp/mut1-evid", PGCHECK_CACHE_KEEP="40")
r = subprocess.run(["/verif/check"] + checks, env=env, cwd="/verif", capture_output=True, text=True)
for l in r.stdout.splitlines():
    if re.match(r"^C\d\d[.:]", l):
        print(l[:220])
subprocess.run(["git", "-C", WT, "checkout", "--", "."])
