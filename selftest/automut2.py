#!/usr/bin/env python3
"""Second operator-level mutation sweep (development aid, not a registered check): statement / branch / argument-role /
memory-ordering / error-swallowing operators that the first sweep (automut.py) did not have.
Generates single-token mutants of the anchored non-test sources, applies each in a scratch worktree, runs the static
checks of every property anchored in that file and lists the mutants that compile but are reported by no check
("survivors") for manual triage (equivalent / irrelevant to the properties / genuine gap).
Usage: python3 selftest/automut.py <worker-index> <worker-count> [file-substring]"""
import json, os, re, subprocess, sys

K, N = int(sys.argv[1]), int(sys.argv[2])
ONLY = sys.argv[3] if len(sys.argv) > 3 else ""
WT = "/tmp/automut2-wt-%d" % K
EVID = "/tmp/automut2-evid-%d" % K
OUT = "/tmp/automut2-out-%d.jsonl" % K

FILES = ["penguin/src/client/handle_remote/mod.rs", "penguin/src/server/mod.rs", "penguin/src/client/handle_remote/tproxy.rs",
         "penguin-mux/src/task.rs", "penguin-mux/src/stream.rs", "penguin-mux/src/lib.rs", "penguin-mux/src/frame.rs",
         "penguin-mux/src/config.rs", "penguin-mux/src/timing.rs", "penguin-mux/src/hashmap.rs",
         "penguin-mux/src/stream_tools/copy_bidirectional.rs", "cow-bytes/src/pbuf.rs", "cow-bytes/src/lib.rs",
         "penguin-socks/src/v4.rs", "penguin-socks/src/v5.rs",
         "penguin/src/client/mod.rs", "penguin/src/client/ws_connect.rs", "penguin/src/client/maybe_retryable.rs",
         "penguin/src/client/handle_remote/udp.rs", "penguin/src/client/handle_remote/socks.rs", "penguin/src/client/handle_remote/tcp.rs",
         "penguin/src/client/handle_remote/common.rs", "penguin/src/client/handle_remote/http.rs",
         "penguin/src/server/websocket.rs", "penguin/src/server/forwarder.rs", "penguin/src/server/service.rs",
         "penguin/src/tls/rustls.rs", "penguin/src/tls/mod.rs"]

props_of = {}
for l in open("/verif/properties.jsonl"):
    j = json.loads(l)
    for f in j["anchors"]["files"]:
        props_of.setdefault(f, []).append(j["id"])
EXTRA = {"penguin/src/client/handle_remote/mod.rs": ["C01", "C19"], "penguin/src/server/mod.rs": ["C17", "C14", "C01"], "penguin/src/client/handle_remote/tproxy.rs": ["C01"],
         "penguin-mux/src/hashmap.rs": ["C07", "C01"], "penguin-mux/src/timing.rs": ["C16", "C19"], "cow-bytes/src/lib.rs": ["C20", "C09"],
         "penguin/src/client/maybe_retryable.rs": ["C19"], "penguin/src/client/handle_remote/common.rs": ["C01", "C19"],
         "penguin/src/tls/mod.rs": ["C17"], "penguin/src/client/ws_connect.rs": ["C17", "C19"]}

import hashlib
SKIP = re.compile(r"^\s*(//|#\[|///|debug_assert|assert|trace!|debug!|info!|warn!|error!|use |pub use |mod |\*)")
IDENT = r"[a-z_][A-Za-z0-9_]*(?:\.[a-z_][A-Za-z0-9_]*)*"
PER_OP_PER_FILE = int(os.environ.get("AUTOMUT2_CAP", "6"))


def gen(line, code):
    """yield (operator, new line)"""
    ind = re.match(r"\s*", line).group(0)
    # A: swap two simple arguments
    for m in re.finditer(r"\((%s), (%s)\)" % (IDENT, IDENT), code):
        if m.group(1) != m.group(2):
            yield "argswap", line[:m.start()] + "(%s, %s)" % (m.group(2), m.group(1)) + line[m.end():]
    # B: numeric literal + 1
    if '"' not in code:
        for m in re.finditer(r"(?<![\w\.])(\d+)(?![\w\.])", code):
            v = int(m.group(1))
            if v >= 2:
                yield "lit+1", line[:m.start()] + str(v + 1) + line[m.end():]
    # C: break <-> continue
    if re.match(r"^\s*break;\s*$", code):
        yield "break->continue", ind + "continue;"
    if re.match(r"^\s*continue;\s*$", code):
        yield "continue->break", ind + "break;"
    # D: delete an assignment / compound assignment / let _ statement
    if re.match(r"^\s*(\*?%s) (=|\+=|-=) [^;=]*;\s*$" % IDENT, code) or re.match(r"^\s*let _ = [^;]*;\s*$", code):
        yield "del-assign", ind + "// deleted"
    # E: memory ordering weakened
    for m in re.finditer(r"Ordering::(Acquire|Release|AcqRel|SeqCst)", code):
        yield "relaxed", line[:m.start()] + "Ordering::Relaxed" + line[m.end():]
    # F: swallow an error: `expr?;` -> `let _ = expr;`
    m = re.match(r"^(\s*)([a-z_].*)\?;\s*$", code)
    if m and not re.match(r"^\s*(let|return|break)\b", code) and " = " not in code:
        yield "swallow", m.group(1) + "let _ = " + m.group(2) + ";"
    # G: delete an early return
    if re.match(r"^\s*return\b[^;]*;\s*$", code):
        yield "del-return", ind + "// deleted"
    # K: force a branch
    m = re.match(r"^(\s*)(\} else )?if (?!let )(.*) \{\s*$", code)
    if m:
        yield "if-false", m.group(1) + (m.group(2) or "") + "if false && (%s) {" % m.group(3)
        yield "if-true", m.group(1) + (m.group(2) or "") + "if true || (%s) {" % m.group(3)
    # L: swap Some/None, Ok(())/Err shapes are type dependent: only Poll::Pending <-> Poll::Ready(Ok(())) style is skipped
    # M: delete a method-call statement (wider than sweep 1: also `x.y.z(...)?;` and `.await;` forms)
    if re.match(r"^\s*(self\.)?%s\([^;]*\)(\.await)?;\s*$" % IDENT, code) and not re.match(r"^\s*(return|break|let)\b", code):
        yield "del-call", ind + "// deleted"


def mutants():
    out = []
    for f in FILES:
        if ONLY and ONLY not in f:
            continue
        src = open(os.path.join("/repo", f)).read()
        mcut = re.search(r"#\[cfg\(test\)\]\n(#\[[^\n]*\]\n)*mod \w+ \{", src)
        cut = mcut.start() if mcut else -1
        body = src if cut < 0 else src[:cut]
        lines = body.split("\n")
        per = {}
        for ln, line in enumerate(lines):
            if SKIP.search(line) or "tracing::" in line or "#[cfg" in line:
                continue
            code = line.split("//")[0]
            for op, new in gen(line, code):
                if new != line:
                    per.setdefault(op, []).append((f, ln, line, new, op))
        for op, lst in per.items():
            # deterministic sample, spread over the file
            lst.sort(key=lambda t: hashlib.sha1(("%s:%d:%s" % (t[0], t[1], t[3])).encode()).hexdigest())
            out += lst[:PER_OP_PER_FILE]
    out.sort(key=lambda t: hashlib.sha1(("%s:%d:%s" % (t[0], t[1], t[3])).encode()).hexdigest())
    return out


def run(cmd, **kw):
    return subprocess.run(cmd, capture_output=True, text=True, **kw)


def main():
    ms = mutants()
    mine = [m for i, m in enumerate(ms) if i % N == K]
    head = subprocess.check_output(["git", "-C", "/repo", "rev-parse", "HEAD"], text=True).strip()
    if not os.path.isdir(WT):
        run(["git", "-C", "/repo", "worktree", "add", "--detach", WT, head])
    done = set()
    if os.path.exists(OUT):
        for l in open(OUT):
            j = json.loads(l)
            done.add((j["file"], j["line"], j["new"]))
    fh = open(OUT, "a")
    env = dict(os.environ, PGCHECK_REPO=WT, PGCHECK_EVID=EVID, PGCHECK_CACHE_KEEP="60")
    for f, ln, old, new, op in mine:
        if (f, ln + 1, new) in done:
            continue
        run(["git", "-C", WT, "checkout", "--", "."])
        p = os.path.join(WT, f)
        lines = open(p).read().split("\n")
        if lines[ln] != old:
            continue
        lines[ln] = new
        open(p, "w").write("\n".join(lines))
        props = sorted(set(props_of.get(f, []) + EXTRA.get(f, [])))
        r = run([os.environ.get("PGCHECK_BIN", "/verif/check")] + props, env=env, cwd="/verif")
        fired = sorted(set(l.split()[0] for l in r.stdout.splitlines() if re.match(r"^C\d\d\.", l) and "/" in l))
        status = "BUILD-FAILED" if any("extract/" in x for x in fired) else ("KILLED" if fired else "SURVIVED")
        fh.write(json.dumps({"file": f, "line": ln + 1, "old": old.strip(), "new": new.strip(), "props": props, "status": status, "op": op,
                             "fired": fired[:6]}) + "\n")
        fh.flush()
    run(["git", "-C", WT, "checkout", "--", "."])


if __name__ == "__main__":
    main()
