#!/bin/bash
# Verify a sub-agent's seeded change: seedcheck.sh <id> "<demo test command>" [checks...]
# Runs entirely in the scratch worktree /tmp/seed/<id>; never touches /repo.
ID=$1; DEMO_CMD=$2; shift 2; CHECKS="$@"
WT=/tmp/seed/$ID; OUT=/tmp/seed/$ID-out; LOG=$OUT/verify.log
export CARGO_NET_OFFLINE=true CARGO_TARGET_DIR=/tmp/seed/$ID-target
cd $WT || exit 2
git reset -q --hard HEAD; git clean -fdxq
: > $LOG
echo "== apply patch.diff" >> $LOG
git apply $OUT/patch.diff >> $LOG 2>&1 || { echo "PATCH DOES NOT APPLY" | tee -a $LOG; exit 2; }
git diff --stat >> $LOG
echo "== static checks against the patched worktree" >> $LOG
for c in $CHECKS; do
  (cd /verif && PGCHECK_REPO=$WT PGCHECK_EVID=/tmp/seed/$ID-evid ./check $c) 2>&1 | grep -E "^(C[0-9]+[.:]|VIOLATION)" | cut -c1-240 >> $LOG
done
echo "== existing suite with the patch" >> $LOG
unshare -n bash -c "ip link set lo up; cargo test --workspace --no-fail-fast --offline" 2>&1 | grep -E "^test result|FAILED|^test .* FAILED" >> $LOG
echo "== demo with the patch (must fail)" >> $LOG
git apply $OUT/demo.diff >> $LOG 2>&1 || echo "DEMO DOES NOT APPLY" >> $LOG
unshare -n bash -c "ip link set lo up; $DEMO_CMD" 2>&1 | grep -E "^test |test result|panicked" | head -12 >> $LOG
echo "== demo without the patch (must pass)" >> $LOG
git apply -R $OUT/patch.diff >> $LOG 2>&1
unshare -n bash -c "ip link set lo up; $DEMO_CMD" 2>&1 | grep -E "^test |test result|panicked" | head -12 >> $LOG
git reset -q --hard HEAD; git clean -fdxq
echo "== done" >> $LOG
cat $LOG
