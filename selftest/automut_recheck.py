#!/usr/bin/env python3
"""Re-run the static checks (current rules) on the mutants that survived both automut phases.
Usage: python3 selftest/automut_recheck.py <worker> <workers>  -> /tmp/automut-recheck-<k>.jsonl"""
import glob, json, os, re, subprocess, sys
K, N = int(sys.argv[1]), int(sys.argv[2])
WT = "/tmp/automut-wt-%d" % K
EVID = "/tmp/automut-evid-%d" % K
OUT = "/tmp/automut-recheck-%d.jsonl" % K
rows = []
for f in sorted(glob.glob("/tmp/automut-suite-*.jsonl")):
    for l in open(f):
        try:
            j = json.loads(l)
        except Exception:
            continue
        if j["suite"] in ("TRUE-SURVIVOR", "TIMEOUT-OR-HANG"):
            rows.append(j)
rows.sort(key=lambda j: (j["file"], j["line"], j["new"]))
def run(cmd, **kw):
    return subprocess.run(cmd, capture_output=True, text=True, **kw)
head = subprocess.check_output(["git", "-C", "/repo", "rev-parse", "HEAD"], text=True).strip()
if not os.path.isdir(WT):
    run(["git", "-C", "/repo", "worktree", "add", "--detach", WT, head])
env = dict(os.environ, PGCHECK_REPO=WT, PGCHECK_EVID=EVID, PGCHECK_CACHE_KEEP="60")
fh = open(OUT, "w")
for i, j in enumerate(rows):
    if i % N != K:
        continue
    run(["git", "-C", WT, "checkout", "--", "."])
    p = os.path.join(WT, j["file"])
    lines = open(p).read().split("\n")
    ln = j["line"] - 1
    if lines[ln].strip() != j["old"]:
        continue
    lines[ln] = lines[ln].replace(j["old"], j["new"])
    open(p, "w").write("\n".join(lines))
    r = run(["/verif/check"] + j["props"], env=env, cwd="/verif")
    fired = sorted(set(l.split()[0] for l in r.stdout.splitlines() if re.match(r"^C\d\d\.", l) and "/" in l))
    j["fired_now"] = fired[:6]
    j["status_now"] = "KILLED" if fired else "SURVIVED"
    fh.write(json.dumps(j) + "\n"); fh.flush()
run(["git", "-C", WT, "checkout", "--", "."])
