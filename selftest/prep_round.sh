#!/bin/bash
# prep_round.sh <id>... : one scratch worktree of /repo per id under /tmp/seed/<id> (+ -out, + warm -target copied from base-target)
for ID in "$@"; do
  git -C /repo worktree add --detach /tmp/seed/$ID HEAD >/dev/null 2>&1
  mkdir -p /tmp/seed/$ID-out
  [ -d /tmp/seed/base-target ] && cp -r /tmp/seed/base-target /tmp/seed/$ID-target
  python3 - "$ID" <<'P'
import json,sys
i=sys.argv[1]; pid=i[:3]
for l in open('/verif/properties.jsonl'):
    p=json.loads(l)
    if p['id']==pid:
        json.dump(p,open('/tmp/seed/%s-out/property.json'%i,'w'),indent=1)
P
done
