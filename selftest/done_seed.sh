#!/bin/bash
# done_seed.sh <id>... : remove scratch worktree, target dir and evidence of a seed
for ID in "$@"; do
  git -C /repo worktree remove --force /tmp/seed/$ID 2>/dev/null
  rm -rf /tmp/seed/$ID /tmp/seed/$ID-target /tmp/seed/$ID-evid
done
git -C /repo worktree prune
