#!/usr/bin/env python3
"""Keep a verified sub-agent seed under /verif/seeded/<name>/ : keep_seed.py <src id> <name> <property> "<demo cmd>" "<needs>" <caught rule keys...>"""
import json, os, shutil, sys
sid, name, prop, demo_cmd, needs = sys.argv[1:6]
caught = sys.argv[6:]
src = "/tmp/seed/%s-out" % sid
dst = "/verif/seeded/%s" % name
os.makedirs(dst, exist_ok=True)
for f in ("patch.diff", "demo.diff", "notes.md", "verify.log"):
    if os.path.exists(os.path.join(src, f)):
        shutil.copy(os.path.join(src, f), os.path.join(dst, f))
log = open(os.path.join(src, "verify.log")).read() if os.path.exists(os.path.join(src, "verify.log")) else ""
meta = {
    "property": prop,
    "origin": "independent sub-agent (given only the property text and a scratch worktree)",
    "needs_to_manifest": needs,
    "demo_cmd": demo_cmd,
    "verified_by": "selftest/seedcheck.sh in a scratch worktree: existing suite passes with the patch (except the two sandbox-known failures), demo fails with the patch and passes without it",
    "caught_by": caught,
    "detected": bool(caught),
}
json.dump(meta, open(os.path.join(dst, "meta.json"), "w"), indent=1)
print("kept", dst)
