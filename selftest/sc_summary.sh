#!/bin/bash
# one-screen summary of a seedcheck log: sc_summary.sh <id>
L=/tmp/seed/$1-out/verify.log
echo "--- $1"
grep -E "^C[0-9]+\.R|^C[0-9]+: " $L | cut -c1-150 | head -8
echo "suite: $(grep -c 'test result: ok' $L) ok-lines; failed tests: $(grep -E '^test .* FAILED' $L | sed -n '1,/demo with/p' | tr '\n' ' ' | cut -c1-300)"
sed -n '/demo with the patch/,$p' $L | grep -E "^==|test result" | cut -c1-120
