#!/usr/bin/env python3
"""Operator-level mutation sweep (development aid, not a registered check).
Generates single-token mutants of the anchored non-test sources, applies each in a scratch worktree, runs the static
checks of every property anchored in that file and lists the mutants that compile but are reported by no check
("survivors") for manual triage (equivalent / irrelevant to the properties / genuine gap).
Usage: python3 selftest/automut.py <worker-index> <worker-count> [file-substring]"""
import json, os, re, subprocess, sys

K, N = int(sys.argv[1]), int(sys.argv[2])
ONLY = sys.argv[3] if len(sys.argv) > 3 else ""
WT = "/tmp/automut-wt-%d" % K
EVID = "/tmp/automut-evid-%d" % K
OUT = "/tmp/automut-out-%d.jsonl" % K

FILES = ["penguin-mux/src/task.rs", "penguin-mux/src/stream.rs", "penguin-mux/src/lib.rs", "penguin-mux/src/frame.rs",
         "penguin-mux/src/config.rs", "penguin-mux/src/timing.rs", "penguin-mux/src/hashmap.rs",
         "penguin-mux/src/stream_tools/copy_bidirectional.rs", "cow-bytes/src/pbuf.rs", "cow-bytes/src/lib.rs",
         "penguin-socks/src/v4.rs", "penguin-socks/src/v5.rs",
         "penguin/src/client/mod.rs", "penguin/src/client/ws_connect.rs", "penguin/src/client/maybe_retryable.rs",
         "penguin/src/client/handle_remote/udp.rs", "penguin/src/client/handle_remote/socks.rs", "penguin/src/client/handle_remote/tcp.rs",
         "penguin/src/client/handle_remote/common.rs", "penguin/src/client/handle_remote/http.rs",
         "penguin/src/server/websocket.rs", "penguin/src/server/forwarder.rs", "penguin/src/server/service.rs",
         "penguin/src/tls/rustls.rs", "penguin/src/tls/mod.rs"]

props_of = {}
for l in open("/verif/properties.jsonl"):
    j = json.loads(l)
    for f in j["anchors"]["files"]:
        props_of.setdefault(f, []).append(j["id"])
EXTRA = {"penguin-mux/src/hashmap.rs": ["C07", "C01"], "penguin-mux/src/timing.rs": ["C16", "C19"], "cow-bytes/src/lib.rs": ["C20", "C09"],
         "penguin/src/client/maybe_retryable.rs": ["C19"], "penguin/src/client/handle_remote/common.rs": ["C01", "C19"],
         "penguin/src/tls/mod.rs": ["C17"], "penguin/src/client/ws_connect.rs": ["C17", "C19"]}

OPS = [
    (re.compile(r" == "), " != "), (re.compile(r" != "), " == "),
    (re.compile(r" < "), " <= "), (re.compile(r" <= "), " < "), (re.compile(r" > "), " >= "), (re.compile(r" >= "), " > "),
    (re.compile(r" && "), " || "), (re.compile(r" \|\| "), " && "),
    (re.compile(r"\btrue\b"), "false"), (re.compile(r"\bfalse\b"), "true"),
    (re.compile(r" \+ 1\b"), " + 0"), (re.compile(r" - 1\b"), " - 0"), (re.compile(r" \+= 1\b"), " += 2"),
    (re.compile(r"\.min\("), ".max("), (re.compile(r"\.max\("), ".min("),
    (re.compile(r"\.is_some\(\)"), ".is_none()"), (re.compile(r"\.is_none\(\)"), ".is_some()"),
    (re.compile(r"\.is_ok\(\)"), ".is_err()"), (re.compile(r"\.is_empty\(\)"), ".is_empty() == false"),
    (re.compile(r"if !"), "if "),
]
SKIP = re.compile(r"^\s*(//|#\[|///|debug_assert|assert|trace!|debug!|info!|warn!|error!|use |pub use |mod |\*)")
STMT = re.compile(r"^\s*(self\.[a-z_\.]+\([^;]*\)|[a-z_]+\.[a-z_]+\([^;]*\)|drop\([a-z_]+\));\s*$")


def mutants():
    out = []
    for f in FILES:
        if ONLY and ONLY not in f:
            continue
        src = open(os.path.join("/repo", f)).read()
        import re as _re
        mcut = _re.search(r"#\[cfg\(test\)\]\n(#\[[^\n]*\]\n)*mod \w+ \{", src)
        cut = mcut.start() if mcut else -1
        body = src if cut < 0 else src[:cut]
        lines = body.split("\n")
        for ln, line in enumerate(lines):
            if SKIP.search(line) or "tracing::" in line or "#[cfg" in line:
                continue
            code = line.split("//")[0]
            for rx, rep in OPS:
                for m in rx.finditer(code):
                    new = line[:m.start()] + rx.sub(rep, line[m.start():m.end()], 1) + line[m.end():]
                    if new != line:
                        out.append((f, ln, line, new))
            if STMT.match(code):
                out.append((f, ln, line, re.sub(r"\S.*$", "// deleted", line, 1)))
    return out


def run(cmd, **kw):
    return subprocess.run(cmd, capture_output=True, text=True, **kw)


def main():
    ms = mutants()
    mine = [m for i, m in enumerate(ms) if i % N == K]
    head = subprocess.check_output(["git", "-C", "/repo", "rev-parse", "HEAD"], text=True).strip()
    if not os.path.isdir(WT):
        run(["git", "-C", "/repo", "worktree", "add", "--detach", WT, head])
    done = set()
    if os.path.exists(OUT):
        for l in open(OUT):
            j = json.loads(l)
            done.add((j["file"], j["line"], j["new"]))
    fh = open(OUT, "a")
    env = dict(os.environ, PGCHECK_REPO=WT, PGCHECK_EVID=EVID, PGCHECK_CACHE_KEEP="60")
    for f, ln, old, new in mine:
        if (f, ln + 1, new) in done:
            continue
        run(["git", "-C", WT, "checkout", "--", "."])
        p = os.path.join(WT, f)
        lines = open(p).read().split("\n")
        if lines[ln] != old:
            continue
        lines[ln] = new
        open(p, "w").write("\n".join(lines))
        props = sorted(set(props_of.get(f, []) + EXTRA.get(f, [])))
        r = run([os.environ.get("PGCHECK_BIN", "/verif/check")] + props, env=env, cwd="/verif")
        fired = sorted(set(l.split()[0] for l in r.stdout.splitlines() if re.match(r"^C\d\d\.", l) and "/" in l))
        status = "BUILD-FAILED" if any("extract/" in x for x in fired) else ("KILLED" if fired else "SURVIVED")
        fh.write(json.dumps({"file": f, "line": ln + 1, "old": old.strip(), "new": new.strip(), "props": props, "status": status,
                             "fired": fired[:6]}) + "\n")
        fh.flush()
    run(["git", "-C", WT, "checkout", "--", "."])


if __name__ == "__main__":
    main()
