#!/usr/bin/env python3
"""Self-seeded mutations (DESIGN.md section 5): each edit must make the named rule fire.
Usage: python3 selftest/mutations.py [ids...]   (runs against a scratch worktree, never /repo)"""
import os, subprocess, sys, shutil, json

WT = "/tmp/pg-selftest-wt"
EVID = "/tmp/pg-selftest-evid"
MUT = [
    # id, file, old, new, checks to run, expected rule prefix(es)
    ("M01", "penguin-mux/src/task.rs", "Arc::new(AtomicU32::new(peer_rwnd))", "Arc::new(AtomicU32::new(self.rwnd))", ["C03"], ["C03.R3"]),
    ("M02", "penguin-mux/src/stream.rs", "if new >= self.rwnd_threshold {", "if new > self.rwnd_threshold {", ["C03"], ["C03.R5"]),
    ("M03", "penguin-mux/src/lib.rs", "            .fetch_add(acknowledged, Ordering::Relaxed);\n        // Wake up the writer if it is waiting for `Acknowledge`\n        self.writer_waker.wake();",
     "            .fetch_add(acknowledged, Ordering::Relaxed);", ["C12", "C04"], ["C12.R2", "C04.R4"]),
    ("M04", "penguin-mux/src/task.rs", "if !finish_sent && !inhibit_rst {", "if !finish_sent || !inhibit_rst {", ["C06", "C10"], ["C06.R3", "C10.R1"]),
    ("M05", "penguin/src/server/service.rs", "if self.ws_psk.is_some() && x_penguin_psk != self.ws_psk {", "if x_penguin_psk.is_some() && x_penguin_psk != self.ws_psk {", ["C14"], ["C14.R1"]),
    ("M06", "penguin/src/tls/rustls.rs", "        (false, None) => config.with_root_certificates(roots).with_no_client_auth(),", "        (false, None) => config\n            .dangerous()\n            .with_custom_certificate_verifier(Arc::new(EmptyVerifier(get_crypto_provider())))\n            .with_no_client_auth(),", ["C17"], ["C17.R1"]),
    ("M07", "penguin-mux/src/frame.rs", "                let rwnd = data.get_u32();\n                let target_port = data.get_u16();", "                let target_port = data.get_u16();\n                let rwnd = data.get_u32();", ["C09"], ["C09.R1"]),
    ("M08", "penguin/src/client/mod.rs", "        _ = channel_timeout.sleep() => {\n            failed_stream_request.replace(stream_command);", "        _ = channel_timeout.sleep() => {", ["C19"], ["C19.R2"]),
    ("M09", "penguin-mux/src/task.rs", "                        warn!(\"Peer does not respect `rwnd` limit, dropping stream\");\n                        self.close_flow(flow_id, false);", "                        warn!(\"Peer does not respect `rwnd` limit, dropping stream\");\n                        self.close_flow(flow_id, true);", ["C10", "C03"], ["C10.R1"]),
    ("M11", "penguin-mux/src/lib.rs", "if datagram.target_host.len() > 255 {", "if datagram.target_host.len() > 256 {", ["C11"], ["C11.R1"]),
    ("M12", "penguin-mux/src/stream.rs", "            self.consume(amt);", "            let all = got.len();\n            self.consume(all);", ["C02"], ["C02.R3"]),
    ("M13", "penguin-mux/src/task.rs", "if streams.contains_key(&flow_id) || flow_id == 0 {", "if streams.contains_key(&flow_id) {", ["C07", "C10"], ["C07.R3", "C10.R1"]),
    ("M14", "penguin-mux/src/config.rs", "self.keepalive_timeout = timeout.max(self.keepalive_interval);", "self.keepalive_timeout = timeout.min(self.keepalive_interval);", ["C16"], ["C16.R3"]),
    ("M16", "penguin-socks/src/v5.rs", "            buf[3] = magics::ATYP_IPV4;\n            buf[4..8]", "            buf[3] = magics::ATYP_IPV6;\n            buf[4..8]", ["C18"], ["C18.R2"]),
    ("M17", "penguin/src/client/mod.rs", "ClientIdMapEntry::new(addr, our_addr, socket, socks5),", "ClientIdMapEntry::new(our_addr, addr, socket, socks5),", ["C01"], ["C01.R2"]),
    ("M19", "penguin-mux/src/hashmap.rs", "if key != zero && !self.contains_key(&key) {", "if key != zero || !self.contains_key(&key) {", ["C07"], ["C07.R2"]),
    ("M20", "penguin-mux/src/lib.rs", "            retries_left -= 1;\n", "", ["C07"], ["C07.R4"]),
    ("M21", "penguin-mux/src/task.rs", "        tx_msg_rx.close();\n", "", ["C08"], ["C08.R1"]),
    ("M22", "penguin-mux/src/task.rs", "                        stream_data.acknowledge(payload);", "                        stream_data.acknowledge(payload + 1);", ["C03"], ["C03.R6"]),
    ("M23", "penguin-mux/src/lib.rs", ".send(Frame::new_connect(host, port, flow_id, self.rwnd).into())", ".send(Frame::new_connect(host, port, self.rwnd, flow_id).into())", ["C03", "C07"], ["C03.R4", "C07.R5"]),
    ("M24", "penguin-mux/src/stream.rs", "        if self.finish_sent.swap(true, Ordering::AcqRel) {\n            return Some(());\n        }", "        self.finish_sent.store(true, Ordering::Release);", ["C05"], ["C05.R4"]),
    ("M25", "penguin/src/server/service.rs", "if req.uri().path() == \"/health\" && !self.obfs {", "if req.uri().path() == \"/health\" {", ["C14"], ["C14.R3"]),
    ("M26", "penguin/src/tls/rustls.rs", "        config.with_client_cert_verifier(verifier)\n    } else {\n        config.with_no_client_auth()", "        let _ = verifier;\n        config.with_no_client_auth()\n    } else {\n        config.with_no_client_auth()", ["C17"], ["C17.R3"]),
    ("M27", "cow-bytes/src/lib.rs", "                *self = Self::Temporary(right);\n                Self::Temporary(left)", "                *self = Self::Temporary(left);\n                Self::Temporary(right)", ["C20"], ["C20.R3"]),
    ("M28", "penguin-mux/src/task.rs", "                    Some(FlowSlot::BindRequested(_)) => {\n                        warn!(\"Peer replied `Acknowledge` to a `Bind` request\");\n                        (false, true)", "                    Some(FlowSlot::BindRequested(_)) => {\n                        warn!(\"Peer replied `Acknowledge` to a `Bind` request\");\n                        (false, false)", ["C10", "C15"], ["C10.R1"]),
]


MUT += [
    ("M30", "penguin-mux/src/stream.rs", "            // Reset the counter\n            self.psh_recvd_since = 0;\n", "", ["C03", "C04"], ["C03"]),
    ("M31", "penguin-mux/src/stream.rs", ".send(Frame::new_acknowledge(self.flow_id, new).into())", ".send(Frame::new_acknowledge(self.flow_id, 1).into())", ["C03", "C04"], ["C0"]),
    ("M32", "penguin-mux/src/stream.rs", "            buf.put_slice(&got[..amt]);\n            self.consume(amt);", "            buf.put_slice(&got[..amt]);\n            let all = got.len();\n            self.consume(all);", ["C02"], ["C02"]),
    ("M33", "penguin-mux/src/stream.rs", "        let Some(()) = ready!(self.poll_obtain_write_permission(cx)) else {\n            return Poll::Ready(None);\n        };\n        let frame = Frame::new_push(self.flow_id, buf).into();\n        Poll::Ready(self.tx_msg_tx.send(frame).ok())", "        let frame = Frame::new_push(self.flow_id, buf).into();\n        let r = self.tx_msg_tx.send(frame).ok();\n        let Some(()) = ready!(self.poll_obtain_write_permission(cx)) else {\n            return Poll::Ready(None);\n        };\n        Poll::Ready(r)", ["C03"], ["C03"]),
    ("M34", "penguin-mux/src/stream.rs", "        self.buf = next;\n        self.increment_psh_recvd_since();", "        self.buf = next;", ["C03", "C04"], ["C0"]),
    ("M35", "penguin-mux/src/task.rs", "                    FlowSlot::Established(stream_data) => {\n                        if stream_data.disallow_read().is_none() {\n                            warn!(\"Duplicate `Finish` frame\");\n                        }\n                    }", "                    FlowSlot::Established(stream_data) => {\n                        if stream_data.disallow_read().is_none() {\n                            warn!(\"Duplicate `Finish` frame\");\n                        }\n                        stream_data.disallow_write();\n                    }", ["C05", "C10"], ["C05"]),
    ("M36", "penguin-mux/src/task.rs", "        self.tx_msg_tx\n            .send(Frame::new_acknowledge(flow_id, self.rwnd).into())\n            .or(Err(Error::Closed))?;\n        // At the con_recv side, we use `con_recv_stream_tx` to send the new stream to the\n        // user.\n        trace!(\"sending stream to user\");\n        // This goes to the user\n        self.con_recv_stream_tx\n            .send(stream)\n            .await\n            .or(Err(Error::SendStreamToClient))?;", "        self.con_recv_stream_tx\n            .send(stream)\n            .await\n            .or(Err(Error::SendStreamToClient))?;\n        self.tx_msg_tx\n            .send(Frame::new_acknowledge(flow_id, self.rwnd).into())\n            .or(Err(Error::Closed))?;", ["C07", "C08", "C10"], ["C"]),
    ("M37", "penguin-mux/src/task.rs", "            Payload::Reset => self.close_flow(flow_id, true),", "            Payload::Reset => self.close_flow(flow_id, false),", ["C06", "C10"], ["C06"]),
    ("M38", "penguin-mux/src/task.rs", "                        warn!(\"Peer does not respect `rwnd` limit, dropping stream\");\n                        self.close_flow(flow_id, false);", "                        warn!(\"Peer does not respect `rwnd` limit, dropping stream\");\n                        self.close_flow(flow_id, true);", ["C10", "C03"], ["C10"]),
    ("M39", "penguin-mux/src/task.rs", "                        TrySendError::Closed(_) => return Err(Error::Closed),", "                        TrySendError::Closed(_) => warn!(\"Dropped datagram: {e}\"),", ["C11", "C10", "C08"], ["C1"]),
    ("M40", "penguin-mux/src/frame.rs", "match value & 0x0F", "match value & 0x1F", ["C09"], ["C09"]),
    ("M41", "cow-bytes/src/pbuf.rs", "        let elem = self.data.remove(index);\n        self.total_remaining_len -= elem.len();", "        let elem = self.data.remove(index);", ["C20"], ["C20"]),
    ("M42", "cow-bytes/src/pbuf.rs", "            if next.remaining() == 0 {\n                self.data.remove(0);\n            }", "            if next.remaining() == 0 && cnt > 0 {\n                self.data.remove(0);\n            }", ["C20"], ["C20"]),
    ("M43", "cow-bytes/src/pbuf.rs", "            self.total_remaining_len -= advance_by;", "            self.total_remaining_len -= cnt;", ["C20"], ["C20"]),
    ("M44", "penguin-mux/src/task.rs", "                .cmp_duration(&elapsed_since_last_pong)\n                == core::cmp::Ordering::Less", "                .cmp_duration(&elapsed_since_last_pong)\n                != core::cmp::Ordering::Greater", ["C16"], ["C16"]),
    ("M45", "penguin-mux/src/stream_tools/copy_bidirectional.rs", "                    *this.write_state = WriteState::Transferring(written_amt);\n                    return Poll::Ready(Err(e));", "                    *this.write_state = WriteState::Done(written_amt);\n                    return Poll::Ready(Err(e));", ["C13"], ["C13"]),
    ("M46", "penguin-mux/src/stream_tools/copy_bidirectional.rs", "                            frame::append_push_data(&mut msg_payload, new_buf);\n                            cumulated_len += processed;\n                            other.as_mut().consume(processed);", "                            frame::append_push_data(&mut msg_payload, new_buf);\n                            other.as_mut().consume(processed);", ["C13"], ["C13"]),
    ("M47", "penguin-mux/src/lib.rs", "        let old = self.finish_sent.swap(true, Ordering::AcqRel);", "        let old = self.finish_sent.load(Ordering::Acquire);", ["C05", "C06", "C12", "C08"], ["C"]),
]


MUT += [
    ("M50", "penguin/src/client/mod.rs", "                entry.socket.clone(), // cheap\n                entry.peer_addr,", "                entry.socket.clone(), // cheap\n                entry.our_addr,", ["C01"], ["C01"]),
    ("M51", "penguin/src/server/forwarder.rs", "                    target_port: rport,\n                    flow_id,\n                    data: buf.into(),", "                    target_port: rport,\n                    flow_id: 0,\n                    data: buf.into(),", ["C01"], ["C01"]),
    ("M52", "penguin/src/client/handle_remote/socks.rs", "            (src, sport).into(),\n            socket.clone(), // cheap\n            true,", "            (src, sport).into(),\n            socket.clone(), // cheap\n            false,", ["C01", "C18"], ["C"]),
    ("M53", "penguin/src/client/mod.rs", "            client_addr_map.insert((addr, our_addr), client_id);", "            client_addr_map.insert((our_addr, addr), client_id);", ["C01"], ["C01"]),
    ("M54", "penguin/src/server/websocket.rs", "                    udp_clients.insert(flow_id, sender);", "                    udp_clients.insert(flow_id.wrapping_add(1), sender);", ["C01"], ["C01"]),
    ("M55", "penguin/src/client/handle_remote/udp.rs", "            flow_id: client_id,\n            data: Bytes::from(buf),", "            flow_id: client_id,\n            data: Bytes::from(buf.split_off(1)),", ["C01"], ["C01"]),
    ("M56", "penguin/src/server/forwarder.rs", "    let rstream = socket.connect(target).await?;", "    let rstream = socket.connect(local_addr).await?;", ["C01"], ["C01"]),
]


MUT += [
    ("M60", "penguin/src/server/service.rs", "            || !header_matches!(sec_websocket_protocol, WANTED_PROTOCOL)\n", "", ["C14"], ["C14"]),
    ("M61", "penguin/src/server/service.rs", "        if self.ws_psk.is_some() && x_penguin_psk != self.ws_psk {", "        if self.ws_psk.is_some() && x_penguin_psk.is_some() && x_penguin_psk != self.ws_psk {", ["C14"], ["C14"]),
    ("M62", "penguin/src/server/service.rs", "        if req.method() != Method::GET {\n            warn!(\"Invalid WebSocket request: not a GET request\");\n            return self.backend_or_404_handler(req).await;\n        }\n", "", ["C14"], ["C14"]),
    ("M63", "penguin/src/server/service.rs", "            .header(header::SEC_WEBSOCKET_ACCEPT, sec_websocket_accept)", "            .header(header::SEC_WEBSOCKET_ACCEPT, sec_websocket_key)", ["C14"], ["C14"]),
    ("M64", "penguin/src/server/service.rs", "        if !header_matches!(connection, UPGRADE)\n            || !header_matches!(upgrade, WEBSOCKET)", "        if !header_matches!(connection, UPGRADE)\n            && !header_matches!(upgrade, WEBSOCKET)", ["C14"], ["C14"]),
    ("M65", "penguin-socks/src/v4.rs", "ip != 0 && ip >> 8 == 0", "ip != 0 && ip >> 16 == 0", ["C18"], ["C18"]),
]


MUT += [
    ("M70", "penguin/src/tls/rustls.rs", "        (false, Some((cert_chain, key_der))) => config\n            .with_root_certificates(roots)\n            .with_client_auth_cert(cert_chain, key_der)?,", "        (false, Some((cert_chain, key_der))) => config\n            .dangerous()\n            .with_custom_certificate_verifier(Arc::new(EmptyVerifier(get_crypto_provider())))\n            .with_client_auth_cert(cert_chain, key_der)?,", ["C17"], ["C17"]),
    ("M71", "penguin/src/tls/rustls.rs", "    let mut config = match (tls_skip_verify, client_certificate) {", "    let mut config = match (!tls_skip_verify, client_certificate) {", ["C17"], ["C17"]),
    ("M72", "penguin/src/tls/rustls.rs", "        let store = generate_rustls_rootcertstore(Some(client_ca_path)).await?;", "        let store = generate_rustls_rootcertstore(None).await?;", ["C17"], ["C17"]),
    ("M73", "penguin/src/tls/rustls.rs", "        let verifier = WebPkiClientVerifier::builder(Arc::new(store)).build()?;", "        let verifier = WebPkiClientVerifier::builder(Arc::new(store)).allow_unauthenticated().build()?;", ["C17"], ["C17"]),
]


MUT += [
    ("M80", "penguin/src/client/mod.rs", "                Err(ref e) if !e.retryable() => return r,", "                Err(ref e) if e.retryable() => return r,", ["C19"], ["C19"]),
    ("M81", "penguin/src/client/maybe_retryable.rs", "            Self::HandshakeTimeout | Self::StreamRequestTimeout | Self::ServerDisconnected => true,", "            Self::HandshakeTimeout | Self::ServerDisconnected => true,", ["C19"], ["C19"]),
    ("M82", "penguin/src/client/maybe_retryable.rs", "            Self::KeepaliveTimeout | Self::SendStreamToClient | Self::Closed => true,", "            Self::SendStreamToClient | Self::Closed => true,", ["C19", "C16"], ["C1"]),
    ("M83", "penguin/src/client/mod.rs", "            // The multiplexor has closed for some reason\n            else => return Err(Error::ServerDisconnected),", "            // The multiplexor has closed for some reason\n            else => break,", ["C19"], ["C19"]),
    ("M84", "penguin/src/client/mod.rs", "    let options = penguin_mux::config::Options::new()\n        .keepalive_interval(args.keepalive)\n        .keepalive_timeout(args.keepalive_timeout);", "    let options = penguin_mux::config::Options::new()\n        .keepalive_timeout(args.keepalive_timeout)\n        .keepalive_interval(args.keepalive);", ["C16", "C19"], ["C16"]),
    ("M85", "penguin/src/client/mod.rs", "                    if time::timeout(current_retry_interval, tokio::signal::ctrl_c())\n                        .await\n                        .is_ok()", "                    if time::timeout(Duration::from_millis(args.max_retry_interval), tokio::signal::ctrl_c())\n                        .await\n                        .is_ok()", ["C19"], ["C19"]),
]


MUT += [
    ("M90", "penguin-socks/src/v5.rs", "            let mut addr = [0; 16];", "            let mut addr = [0; 4];\n            let _unused = [0u8; 16];", ["C18"], ["C18"]),
    ("M91", "penguin-socks/src/v5.rs", "    let _reserved = stream\n        .read_u8()\n        .await\n        .map_err(|e| Error::ProcessSocksRequest(\"read reserved\", e))?;\n", "", ["C18"], ["C18"]),
    ("M92", "penguin-socks/src/v5.rs", "    let address = read_address(stream).await?;\n    let port = stream\n        .read_u16()\n        .await\n        .map_err(|e| Error::ProcessSocksRequest(\"read port\", e))?;", "    let address = read_address(stream).await?;\n    let port = stream\n        .read_u16_le()\n        .await\n        .map_err(|e| Error::ProcessSocksRequest(\"read port\", e))?;", ["C18"], ["C18"]),
    ("M93", "penguin-socks/src/v5.rs", "    if version != magics::VER_5 {\n        return Err(Error::SocksVersion(version));\n    }\n    let command", "    let command", ["C18"], ["C18"]),
    ("M94", "penguin-socks/src/v5.rs", "    Ok((command, address, port))", "    Ok((version, address, port))", ["C18"], ["C18"]),
]


MUT += [
    ("M95", "penguin-mux/src/frame.rs", "                encoded.put_u8(len_u8);\n                encoded.put_u16(*target_port);\n                encoded.extend(target_host.as_ref());\n                encoded.extend(data.as_ref());", "                encoded.put_u8(len_u8);\n                encoded.put_u16(*target_port);\n                encoded.extend(data.as_ref());\n                encoded.extend(target_host.as_ref());", ["C09", "C11"], ["C09"]),
    ("M96", "penguin-mux/src/frame.rs", "                for data in vec {\n                    encoded.extend(data.as_ref());\n                }", "                for data in vec.iter().rev() {\n                    encoded.extend(data.as_ref());\n                }", ["C09", "C02"], ["C0"]),
    ("M97", "penguin-mux/src/frame.rs", "    frame.extend(data);\n}", "    let at = frame.len().min(5);\n    frame.splice(at..at, data.iter().copied());\n}", ["C09", "C13", "C02"], ["C"]),
    ("M98", "penguin-mux/src/frame.rs", "                encoded.put_u8(*bind_type as u8);\n                encoded.put_u16(*target_port);", "                encoded.put_u16(*target_port);\n                encoded.put_u8(*bind_type as u8);", ["C09", "C15"], ["C09"]),
]


MUT += [
    ("M100", "penguin/src/client/handle_remote/http.rs", "    let host = Bytes::copy_from_slice(target.host().as_bytes());", "    let host = Bytes::copy_from_slice(target.as_str().as_bytes());", ["C01"], ["C01"]),
]


# behaviour-preserving refactors: every listed check must stay silent
EQUIV = [
    ("E01", "penguin-mux/src/stream.rs", "if new >= self.rwnd_threshold {", "if !(new < self.rwnd_threshold) {", ["C03"]),
    ("E02", "penguin-mux/src/lib.rs", "        if datagram.target_host.len() > 255 {", "        let host_len = datagram.target_host.len();\n        if host_len >= 256 {", ["C11"]),
    ("E03", "penguin-mux/src/task.rs", "if !finish_sent && !inhibit_rst {", "if !(finish_sent || inhibit_rst) {", ["C06", "C10"]),
    ("E04", "cow-bytes/src/pbuf.rs", "        if cow.is_empty() {\n            // `Buf::chunk` must not be empty while bytes remain\n            return;\n        }\n        self.total_remaining_len += cow.len();\n        self.data.push(cow);", "        if cow.len() == 0 {\n            return;\n        }\n        self.total_remaining_len += cow.len();\n        self.data.push(cow);", ["C20"]),
    ("E05", "penguin-socks/src/v4.rs", "let rhost = if ip != 0 && ip >> 8 == 0 {", "let rhost = if ip & 0xffff_ff00 == 0 && ip != 0 {", ["C18"]),
    ("E06", "penguin-mux/src/frame.rs", "        check_remaining!(data, size_of::<u8>() + size_of::<u32>());", "        check_remaining!(data, 5);", ["C09"]),
    ("E07", "penguin/src/server/service.rs", "        if req.method() != Method::GET {\n            warn!(\"Invalid WebSocket request: not a GET request\");\n            return self.backend_or_404_handler(req).await;\n        }\n", "", ["C14"]),  # placeholder replaced below
    ("E08", "penguin-mux/src/stream.rs", "                if self.psh_send_remaining.load(Ordering::Acquire) != 0 {\n                    continue;\n                }", "                if self.psh_send_remaining.load(Ordering::Acquire) > 0 {\n                    continue;\n                }", ["C12", "C03", "C04"]),
    ("E09", "penguin-mux/src/task.rs", "            rwnd_threshold: self.default_rwnd_threshold.min(self.rwnd),", "            rwnd_threshold: core::cmp::min(self.rwnd, self.default_rwnd_threshold),", ["C04"]),
    ("E10", "penguin/src/client/mod.rs", "                return Err(Error::ServerDisconnected);\n            }\n            Some(sender) = stream_command_rx.recv()", "                break Err(Error::ServerDisconnected);\n            }\n            Some(sender) = stream_command_rx.recv()", ["C19"]),
]
EQUIV += [
    # new rules (C08.R6, C06.R3 necessity, C13.R4, C16.R2 fresh-samples, C20.R5, C11.R2, C08.R1 source-before-drain, C10.R5)
    ("E11", "penguin-mux/src/task.rs", "            self.process_message(msg, true).await.ok();", "            let ignore_bind = true;\n            self.process_message(msg, ignore_bind).await.ok();", ["C08", "C05"]),
    ("E12", "penguin-mux/src/task.rs", "                let finish_sent = stream_data.disallow_write();\n                if !finish_sent && !inhibit_rst {", "                let finish_sent = stream_data.disallow_write();\n                let sender = stream_data.disallow_read();\n                drop(sender);\n                if !finish_sent && !inhibit_rst {", ["C06", "C05", "C10"]),
    ("E13", "penguin-mux/src/stream_tools/copy_bidirectional.rs", "                ready!(this.us.poll_obtain_write_permission(cx)).ok_or(BrokenPipe)?;", "                match this.us.poll_obtain_write_permission(cx) {\n                    Poll::Pending => return Poll::Pending,\n                    Poll::Ready(None) => return Poll::Ready(Err(BrokenPipe.into())),\n                    Poll::Ready(Some(())) => {}\n                }", ["C13", "C01"]),
    ("E14", "penguin-mux/src/task.rs", "            let elapsed_since_last_pong = T::now().duration_since(last_pong_timestamp);", "            let now = T::now();\n            let elapsed_since_last_pong = now.duration_since(last_pong_timestamp);", ["C16"]),
    ("E15", "cow-bytes/src/pbuf.rs", "            let mut new_chain = Vec::with_capacity(1 + self.data.len() - split_index);\n            let split_elem = self.data[split_index].split_off(remaining);\n            new_chain.push(split_elem);\n            new_chain.extend(self.data.split_off(split_index + 1));\n            new_chain", "            let split_elem = self.data[split_index].split_off(remaining);\n            let mut new_chain = self.data.split_off(split_index + 1);\n            new_chain.insert(0, split_elem);\n            new_chain", ["C20"]),
    ("E16", "penguin-mux/src/stream_tools/copy_bidirectional.rs", "                    let processed = ready!(this.other.as_mut().poll_write(cx, new_buf))?;", "                    let written = ready!(this.other.as_mut().poll_write(cx, new_buf))?;\n                    let processed = written;", ["C13", "C01", "C02"]),
    ("E17", "penguin-mux/src/task.rs", "            while let Some(message) = tx_msg_rx.recv().await {", "            loop {\n                let Some(message) = tx_msg_rx.recv().await else { break };", ["C08"]),
]
EQUIV += [
    ("E18", "penguin/src/server/service.rs", "        if req.uri().path() == \"/ws\" {", "        let request_path = req.uri().path();\n        if request_path == \"/ws\" {", ["C14"]),
    ("E19", "penguin-mux/src/stream_tools/copy_bidirectional.rs", "        Poll::Ready(Ok((ready!(r), ready!(w))))", "        let r = ready!(r);\n        let w = ready!(w);\n        Poll::Ready(Ok((r, w)))", ["C13"]),
    ("E20", "penguin-mux/src/timing.rs", "        let old = self.current.min(self.max);", "        let old = core::cmp::min(self.current, self.max);", ["C19"]),
    ("E21", "cow-bytes/src/pbuf.rs", "            remaining -= this_len;\n            truncate_index += 1;", "            remaining = remaining - this_len;\n            truncate_index += 1;", ["C20"]),
    ("E22", "penguin/src/client/mod.rs", "    let options = penguin_mux::config::Options::new()\n        .keepalive_interval(args.keepalive)\n        .keepalive_timeout(args.keepalive_timeout);", "    let options = penguin_mux::config::Options::new();\n    let options = options.keepalive_interval(args.keepalive);\n    let options = options.keepalive_timeout(args.keepalive_timeout);", ["C16", "C19"]),
    ("E23", "penguin-mux/src/task.rs", "                if let Err(e) = self.datagram_tx.try_send(datagram) {\n                    match e {\n                        TrySendError::Full(_) => warn!(\"Dropped datagram: {e}\"),\n                        TrySendError::Closed(_) => return Err(Error::Closed),\n                    }\n                }", "                match self.datagram_tx.try_send(datagram) {\n                    Ok(()) => {}\n                    Err(TrySendError::Closed(_)) => return Err(Error::Closed),\n                    Err(e @ TrySendError::Full(_)) => warn!(\"Dropped datagram: {e}\"),\n                }", ["C11", "C10"]),
    ("E24", "penguin/src/client/maybe_retryable.rs", "            Self::Tungstenite(e) => e.retryable(),\n            Self::TcpConnect(e) => e.retryable(),\n            Self::Tls(e) => e.retryable(),\n            Self::Mux(e) => e.retryable(),\n            Self::HandshakeTimeout | Self::StreamRequestTimeout | Self::ServerDisconnected => true,", "            Self::HandshakeTimeout | Self::StreamRequestTimeout => true,\n            Self::ServerDisconnected => true,\n            Self::Mux(e) => e.retryable(),\n            Self::Tungstenite(e) => e.retryable(),\n            Self::TcpConnect(e) => e.retryable(),\n            Self::Tls(e) => e.retryable(),", ["C19"]),
    ("E25", "penguin/src/server/websocket.rs", "                            mpsc::error::TrySendError::Closed(_) => {\n                                // This client has been pruned, so we should\n                                // remove it from the map and hopefully\n                                // the client will try again.\n                                trace!(\"UDP client {flow_id} has been pruned\");\n                                udp_clients.remove(&flow_id);\n                            }", "                            mpsc::error::TrySendError::Closed(_) => {\n                                udp_clients.remove(&flow_id);\n                                trace!(\"UDP client {flow_id} has been pruned\");\n                            }", ["C01"]),
]
EQUIV += [
    ("E26", "penguin-mux/src/task.rs", "                let datagram = Datagram {\n                    flow_id,\n                    target_host: payload.target_host.into_static(),\n                    target_port: payload.target_port,\n                    data: payload.data.into_static(),\n                };\n                if let Err(e) = self.datagram_tx.try_send(datagram) {\n                    match e {\n                        TrySendError::Full(_) => warn!(\"Dropped datagram: {e}\"),\n                        TrySendError::Closed(_) => return Err(Error::Closed),\n                    }\n                }", "                self.deliver_datagram(flow_id, payload)?;", ["C11", "C10"]),
    ("E27", "penguin-mux/src/timing.rs", "        self.count += 1;\n\n        let old = self.current.min(self.max);\n        self.current = old * self.mult;\n        Some(old)", "        let old = self.current.min(self.max);\n        self.current = old * self.mult;\n        self.count += 1;\n        Some(old)", ["C19"]),
]
EQUIV = [e for e in EQUIV if e[0] not in ("E07", "E10")]


EXTRA = {
    "E26": ("    /// Shared code for new stream stuff\n", "    /// Hand a datagram to the application (never blocks).\n    fn deliver_datagram(&self, flow_id: u32, payload: crate::frame::DatagramPayload<'static>) -> Result<()> {\n        let datagram = Datagram {\n            flow_id,\n            target_host: payload.target_host.into_static(),\n            target_port: payload.target_port,\n            data: payload.data.into_static(),\n        };\n        if let Err(e) = self.datagram_tx.try_send(datagram) {\n            match e {\n                TrySendError::Full(_) => warn!(\"Dropped datagram: {e}\"),\n                TrySendError::Closed(_) => return Err(Error::Closed),\n            }\n        }\n        Ok(())\n    }\n\n    /// Shared code for new stream stuff\n"),
}


def run(cmd, **kw):
    return subprocess.run(cmd, capture_output=True, text=True, **kw)


def main():
    want = set(sys.argv[1:])
    if not os.path.isdir(WT):
        run(["git", "-C", "/repo", "worktree", "add", "--detach", WT, "HEAD"])
    results = []
    for (mid, f, old, new, checks, expect) in MUT:
        if want and mid not in want:
            continue
        run(["git", "-C", WT, "checkout", "--detach", "-q", subprocess.check_output(["git", "-C", "/repo", "rev-parse", "HEAD"], text=True).strip()])
        run(["git", "-C", WT, "checkout", "--", "."])
        p = os.path.join(WT, f)
        s = open(p).read()
        if old not in s:
            results.append((mid, "ANCHOR-MISSING", [], expect))
            print(mid, "anchor text not found in", f)
            continue
        open(p, "w").write(s.replace(old, new, 1))
        fired = []
        for c in checks:
            env = dict(os.environ, PGCHECK_REPO=WT, PGCHECK_EVID=EVID)
            r = run([os.environ.get("PGCHECK_BIN", "/verif/check"), c], env=env, cwd="/verif")
            for line in r.stdout.splitlines():
                if line.startswith(c + ".") and "/" in line:
                    fired.append(line.split()[0])
            if "extract/" in r.stdout:
                fired.append("BUILD-FAILED")
        ok = all(any(x.startswith(e) for x in fired) for e in expect)
        results.append((mid, "CAUGHT" if ok else "MISSED", fired, expect))
        print(mid, "CAUGHT" if ok else "MISSED", "expect", expect, "fired", sorted(set(fired))[:8], flush=True)
    for (eid, f, old, new, checks) in EQUIV:
        if want and eid not in want:
            continue
        run(["git", "-C", WT, "checkout", "--", "."])
        p = os.path.join(WT, f)
        s = open(p).read()
        if old not in s:
            print(eid, "anchor text not found in", f)
            results.append((eid, "ANCHOR-MISSING", [], []))
            continue
        s2 = s.replace(old, new, 1)
        if eid in EXTRA:
            a, b2 = EXTRA[eid]
            assert a in s2, eid
            s2 = s2.replace(a, b2, 1)
        open(p, "w").write(s2)
        fired = []
        for c in checks:
            env = dict(os.environ, PGCHECK_REPO=WT, PGCHECK_EVID=EVID)
            r = run([os.environ.get("PGCHECK_BIN", "/verif/check"), c], env=env, cwd="/verif")
            for line in r.stdout.splitlines():
                if line.startswith(c + ".") and "/" in line:
                    fired.append(line.split()[0])
        results.append((eid, "SILENT" if not fired else "FALSE-ALARM", fired, []))
        print(eid, "SILENT" if not fired else "FALSE-ALARM", sorted(set(fired))[:6], flush=True)
    run(["git", "-C", WT, "checkout", "--", "."])
    json.dump(results, open("/verif/selftest/last_mutation_run.json", "w"), indent=1)
    n = sum(1 for r in results if r[1] == "CAUGHT")
    print("%d/%d mutations caught; %d/%d refactors silent" % (n, sum(1 for r in results if r[0].startswith("M")),
                                                             sum(1 for r in results if r[1] == "SILENT"), sum(1 for r in results if r[0].startswith("E"))))


if __name__ == "__main__":
    main()
