#!/bin/bash
# statonly.sh <id> [checks...] : apply /tmp/seed/<id>-out/patch.diff in /tmp/seed/<id>, run the static checks only, reset.
ID=$1; shift; CH="$@"; [ -z "$CH" ] && CH=${ID:0:3}
WT=/tmp/seed/$ID
cd $WT && git reset -q --hard HEAD && git clean -fdq && git apply /tmp/seed/$ID-out/patch.diff || { echo "PATCH DOES NOT APPLY"; exit 2; }
for c in $CH; do
(cd /verif && PGCHECK_REPO=$WT PGCHECK_EVID=/tmp/seed/$ID-evid ./check $c) 2>&1 | grep -E "^(C[0-9]+[.:]|VIOLATION|Traceback|    )" | cut -c1-${COLS:-260}
done
cd $WT && git reset -q --hard HEAD
