#!/usr/bin/env python3
"""Regression over the kept sub-agent seeds: apply each seeded/<name>/patch.diff in a scratch worktree (never /repo) and
require that the seeded property's own check reports a violation (static checks only; the dynamic demos were verified
once by seedcheck.sh when the seed was kept).  Usage: python3 selftest/seeds_regress.py [name-prefix...]"""
import json, os, subprocess, sys

WT = os.environ.get("PG_SEEDS_WT", "/tmp/pg-selftest-wt")
EVID = WT + "-evid"
SEEDS = "/verif/seeded"


def run(cmd, **kw):
    return subprocess.run(cmd, capture_output=True, text=True, **kw)


def main():
    want = sys.argv[1:]
    head = subprocess.check_output(["git", "-C", "/repo", "rev-parse", "HEAD"], text=True).strip()
    if not os.path.isdir(WT):
        run(["git", "-C", "/repo", "worktree", "add", "--detach", WT, head])
    ok = bad = 0
    for name in sorted(os.listdir(SEEDS)):
        if want and not any(name.startswith(w) for w in want):
            continue
        meta = json.load(open(os.path.join(SEEDS, name, "meta.json")))
        prop = meta["property"]
        run(["git", "-C", WT, "checkout", "--detach", "-q", head])
        run(["git", "-C", WT, "reset", "-q", "--hard", head])
        run(["git", "-C", WT, "clean", "-fdq"])
        r = run(["git", "-C", WT, "apply", os.path.join(SEEDS, name, "patch.diff")])
        if r.returncode != 0:
            print(name, "PATCH-DOES-NOT-APPLY", r.stderr.strip()[:100])
            bad += 1
            continue
        env = dict(os.environ, PGCHECK_REPO=WT, PGCHECK_EVID=EVID)
        if meta.get("detected") is False:
            print(name, "UNDETECTED (recorded as a limitation in DESIGN.md)", flush=True)
            continue
        cmd = [os.environ.get("PGCHECK_BIN", "/verif/check"), prop] + (["--tier", "thorough"] if meta.get("tier") == "thorough" else [])
        r = run(cmd, env=env, cwd="/verif")
        fired = sorted(set(l.split()[0] for l in r.stdout.splitlines() if l.startswith(prop + ".") and "/" in l))
        if fired and "VIOLATION property=%s" % prop in r.stdout:
            ok += 1
            print(name, "CAUGHT", fired[:4], flush=True)
        else:
            bad += 1
            print(name, "MISSED", flush=True)
    run(["git", "-C", WT, "reset", "-q", "--hard", head])
    print("%d/%d seeds reported by their own property's check" % (ok, ok + bad))
    return 1 if bad else 0


if __name__ == "__main__":
    sys.exit(main())
