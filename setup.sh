#!/bin/sh
# Build the pgfacts driver and warm the dependency cache for the default configuration (offline).
set -e
cd "$(dirname "$0")"
export CARGO_NET_OFFLINE=true
(cd pgfacts && cargo +nightly build --offline --release)
python3 pgcheck/main.py setup
