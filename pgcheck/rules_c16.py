"""C16 Keepalive: structure of the ping loop, the timeout predicate, clamping and the disabled case."""
from an import (Tracer, guard_at, strip, strip_casts, walk, fmt, callee, const_eval)
from mir import loc_str
from muxcommon import *
import rules_c08

EXPLANATION = (
    "Structure, not time: (R1) the Pong arm of the message handler stores T::now() into the last-pong "
    "timestamp; (R2) in the ping loop, after the tick await, Err(KeepaliveTimeout) is returned exactly on the "
    "edge `keepalive_timeout < now - last_pong` (cmp_duration(..) == Less and equivalent spellings) and the Ping "
    "queue-send is dominated by the complementary edge; (R3) Options::keepalive_timeout stores "
    "max(argument, keepalive_interval); (R4) disabled means never: OptionalInterval::tick on None awaits "
    "pending(), cmp_duration on None is Greater and compares in the direction d.cmp(other), zero durations map to "
    "None; (R5) after a timeout the task must not wait for the peer (= C08.R3).")
EXPLANATION_ADDED = 'R2 also requires both samples of the timeout predicate to be taken after the last await; R3 also requires keepalive_interval to be applied before keepalive_timeout wherever both are set; (R6) the receive loop precedes the keepalive check in the biased select.'
EXPLANATION_ADDED2 = " R5 also takes the keepalive arm's teardown flag."
EXPLANATION = EXPLANATION + " Added while testing against seeded changes: " + EXPLANATION_ADDED + EXPLANATION_ADDED2
EXPLANATION = EXPLANATION + ' Round 10: R3 also requires the keepalive setters to store their argument.'
EXPLANATION = EXPLANATION + ' Rounds 14-15: R1 also requires every path of the Pong arm to pass the timestamp store (no filter on Pongs); (S8) adapter faithfulness.'
EXPLANATION = EXPLANATION + ' Round 19: (R6) the period of the ping timer is the configured interval itself.'
ASSUMPTIONS = ["tokio::time::Interval ticks every period; TimestampProvider::duration_since is monotone"]
NOT_DECIDED = "the numeric bounds T and T+I, late pongs (timing)"
THOROUGH_CONFIGS = ["mux-std-only"]


def _cmp_match_form(facts, b, tr):
    """(None arm yields Greater, Some arm yields own.cmp(other), description) for a match on the Option inside self."""
    for bb in range(len(b.blocks)):
        if b.term(bb)["k"] != "SwitchInt":
            continue
        g = guard_at(facts, b, tr, bb)
        if g is None or g.kind != "discr" or not (g.adt or "").endswith("option::Option"):
            continue
        if not any(x.kind == "param" and x[1] == 1 for x in walk(g.pred)):
            continue
        res = {}
        for succ, var in g.edges:
            if var not in ("Some", "None"):
                continue
            vals = []
            for x in sorted(b.reachable_from(succ, cut={bb})):
                for st in b.blocks[x]["stmts"]:
                    if st["k"] == "Assign" and st["lhs"]["l"] == 0 and not st["lhs"].get("p"):
                        vals.append(strip(tr.rvalue(st["rv"])))
                t = b.term(x)
                if t["k"] == "Call" and t["dest"]["l"] == 0 and not t["dest"].get("p"):
                    vals.append(strip(tr.call_node(x, t)))
            res[var] = vals
        nv, sv = res.get("None", []), res.get("Some", [])
        none_ok = len(nv) == 1 and nv[0].kind == "agg" and nv[0][2].endswith("Ordering::Greater")
        dir_ok = len(sv) == 1 and sv[0].kind == "call" and sv[0][6] == "cmp" and len(sv[0][3]) == 2 and \
            any(x.kind == "downcast" and x[2] == "Some" for x in walk(sv[0][3][0])) and \
            any(x.kind == "param" and x[1] == 2 for x in walk(sv[0][3][1])) and \
            not any(x.kind == "param" and x[1] == 2 for x in walk(sv[0][3][0]))
        return none_ok, dir_ok, "None -> %s; Some -> %s" % ([fmt(x)[:60] for x in nv], [fmt(x)[:80] for x in sv])
    return None


def check(facts, rep, tier, cfg):
    crate = facts.crate("penguin_mux")
    if crate is None:
        rep.bad("C16.R1", "crate", "", "penguin_mux facts missing")
        return
    # ---- R1
    rep.rule("C16.R1", "Pong arm stores T::now() into last_pong_timestamp")
    ok1 = False
    for b in crate.bodies:
        tr = None
        for bi, blk in enumerate(b.blocks):
            for s in blk["stmts"]:
                if s["k"] == "Assign" and s["lhs"].get("p") and s["lhs"]["p"][0] == "*":
                    tr = tr or Tracer(facts, b)
                    base = tr.local(s["lhs"]["l"])
                    if any(x.kind == "field" and x[2] == "last_pong_timestamp" for x in walk(base)) and \
                            any(x.kind == "call" and x[6] == "lock" for x in walk(base)):
                        v = strip(tr.rvalue(s["rv"]))
                        where = "%s (%s)" % (loc_str(s["loc"]), b.path)
                        dom = edge_literals_dominating(facts, b, tr, bi,
                                                       lambda g: {"Pong"} if g.kind == "discr" and g.adt == "penguin_mux::ws::Message" else None)
                        if v.kind == "call" and v[6] == "now" and dom:
                            ok1 = True
                            rep.analysed(b)
                            rep.ok("C16.R1", "pong-refreshes-timestamp", where, "on Message::Pong: last_pong <- T::now()")
                            # necessity: EVERY Pong refreshes the timestamp (no flag / counter / filter between the Pong arm and the store)
                            gbb = dom[0][0]
                            gpg = guard_at(facts, b, tr, gbb)
                            pong_succ = [s2 for s2, v2 in gpg.edges if v2 == "Pong"]
                            rets_ = [r for r in range(len(b.blocks)) if b.term(r)["k"] == "Return"]
                            skip = [r for ps in pong_succ for r in rets_ if r in b.reachable_from(ps, cut={bi})]
                            if skip:
                                rep.bad("C16.R1", "every-pong-refreshes", where,
                                        "a Pong can be handled without refreshing the last-pong timestamp (a path from the Pong arm to the return "
                                        "avoids the store): answers the filter rejects leave the timestamp stale, and a peer that answered every "
                                        "ping within the timeout is declared dead")
                            else:
                                rep.ok("C16.R1", "every-pong-refreshes", where, "every path of the Pong arm passes the store")
                        else:
                            rep.bad("C16.R1", "pong-refreshes-timestamp", where, "last_pong_timestamp is written with `%s` / not under the Pong arm" % fmt(v))
    if not ok1:
        rep.bad("C16.R1", "pong-refreshes-timestamp", "", "no store of T::now() into last_pong_timestamp on the Pong arm")
    # ---- R2
    rep.rule("C16.R2", "timeout predicate and ping emission in the keepalive loop")
    n2 = 0
    for b in crate.bodies:
        errs = []
        for bi, blk in enumerate(b.blocks):
            for s in blk["stmts"]:
                if s["k"] == "Assign" and s["rv"]["k"] == "Aggregate" and s["rv"]["agg"].get("variant") == "KeepaliveTimeout" and \
                        s["rv"]["agg"].get("adt") == "penguin_mux::Error":
                    errs.append(bi)
        if not errs:
            continue
        tr = Tracer(facts, b)
        rep.analysed(b)
        n2 += 1
        eb = errs[0]
        where = "%s (%s)" % (loc_str(b.term(eb)["loc"]), b.path)

        def less_vals(g):
            p = strip_casts(g.pred)
            cmpc = [x for x in walk(p) if x.kind == "call" and x[6] == "cmp_duration"]
            if not cmpc:
                return None
            c = cmpc[0]
            # receiver must be keepalive_timeout, argument the elapsed time since the last pong
            if not any(x.kind == "field" and x[2] == "keepalive_timeout" for x in walk(c[3][0])):
                return None
            el = c[3][1]
            ds = [x for x in walk(el) if x.kind == "call" and x[6] == "duration_since"]
            if not ds:
                return None
            d0 = ds[0]
            now_first = any(x.kind == "call" and x[6] == "now" for x in walk(d0[3][0]))
            pong_second = any(x.kind == "field" and x[2] == "last_pong_timestamp" for x in walk(d0[3][1]))
            if not (now_first and pong_second):
                return None
            if g.kind == "bool":
                sp = strip(p)
                if sp.kind == "call" and sp[6] in ("eq", "ne"):
                    other = [a for a in sp[3] if not any(y is c for y in walk(a))]
                    if other and any(x.kind == "agg" and x[2].endswith("Ordering::Less") for x in walk(other[0])):
                        return {True} if sp[6] == "eq" else {False}
                if sp.kind == "call" and sp[6] == "is_lt":
                    return {True}
                if sp.kind == "call" and sp[6] == "is_ge":
                    return {False}
            if g.kind == "discr" and g.adt and g.adt.endswith("cmp::Ordering"):
                return {"Less"}
            return None
        doms = edge_literals_dominating(facts, b, tr, eb, less_vals)
        if doms:
            rep.ok("C16.R2", "timeout-predicate", where, "Err(KeepaliveTimeout) on cmp_duration(keepalive_timeout, now - last_pong) == Less")
        else:
            rep.bad("C16.R2", "timeout-predicate", where,
                    "Err(KeepaliveTimeout) is not returned exactly on `keepalive_timeout < now - last_pong` "
                    "(cmp_duration(timeout, now.duration_since(last_pong)) == Less)")
            continue
        gb = doms[0][0]
        g = guard_at(facts, b, tr, gb)
        acc = less_vals(g)
        other = [s for s, v in g.edges if v not in acc]
        pings = [bi for bi, t in b.calls() if is_queue_send(t) and "Message::Ping" in ctors_in(tr.operand(t["args"][1]))]
        if pings and other and all(b.edge_dominates((gb, other[0]), p) for p in pings):
            rep.ok("C16.R2", "ping-on-other-edge", where, "Ping queued only when not timed out")
        else:
            rep.bad("C16.R2", "ping-on-other-edge", where, "the Ping emission is not dominated by the not-timed-out edge (or no Ping is sent)")
        ticks = [bi for bi, t in b.calls() if callee(t) and callee(t)["name"] == "tick"]
        if ticks and all(b.dominates(tk, gb) for tk in ticks) and gb in b.reachable_from(b.succ[pings[0]][0] if pings else gb):
            rep.ok("C16.R2", "after-tick-in-loop", where, "check performed after each tick, inside the loop")
        else:
            rep.bad("C16.R2", "after-tick-in-loop", where, "the timeout check is not performed after every interval tick inside the ping loop")
        # necessity: every interval tick is followed by a Ping (or by the timeout return): no way round the loop skips it
        if ticks and pings:
            skip = False
            for tk in ticks:
                # a cycle tick -> ... -> tick that avoids every Ping emission
                for s0 in b.succ[tk]:
                    if b.blocks[s0]["cleanup"]:
                        continue
                    if tk in b.reachable_from(s0, cut=set(pings)):
                        skip = True
            if skip:
                rep.bad("C16.R2", "ping-every-tick", where,
                        "the keepalive loop can go from one interval tick to the next without queueing a Ping: pings are no longer sent every interval, so "
                        "the last-pong timestamp goes stale and a live peer is timed out at the next check (or a dead one is noticed late)")
            else:
                rep.ok("C16.R2", "ping-every-tick", where, "every tick is followed by a Ping or the timeout return")
        # freshness: both samples of the predicate (last pong, now) are taken after the last suspension before the check
        yields = set(bi for bi in range(len(b.blocks)) if b.term(bi)["k"] == "Yield" and not b.blocks[bi]["cleanup"])
        samples = []
        pn = strip_casts(g.pred)
        for x in walk(pn):
            if x.kind == "call" and x[6] == "now":
                samples.append(("now", x[4]))
            if x.kind == "call" and x[6] == "lock" and any(y.kind == "field" and y[2] == "last_pong_timestamp" for y in walk(x[3][0])):
                samples.append(("last_pong_timestamp", x[4]))
        stale = []
        for what, sb in samples:
            for y in yields:
                if any(y in b.reachable_from(s0, cut={gb}) for s0 in b.succ[sb]) and gb in b.reachable_from(y, cut={sb}):
                    stale.append((what, sb, y))
        if len(set(w for w, _ in samples)) < 2:
            rep.bad("C16.R2", "fresh-samples", where, "could not locate both samples (now, last_pong_timestamp.lock()) of the timeout predicate")
        elif stale:
            what, sb, y = stale[0]
            rep.bad("C16.R2", "fresh-samples", "%s (%s)" % (loc_str(b.term(sb)["loc"]), b.path),
                    "`%s` is sampled before an await (%s) that precedes the timeout check: the check compares a value from before "
                    "the sleep, so a peer that answered during the interval is judged by its previous Pong (live peer cut off when "
                    "timeout < 2 x interval)" % (what, loc_str(b.term(y)["loc"])))
        else:
            rep.ok("C16.R2", "fresh-samples", where, "now and last_pong_timestamp are both read between the last await and the check")
        iv = [t for _, t in b.calls() if callee(t) and callee(t)["name"] == "from" and "OptionalInterval" in callee(t)["path"]]
        if iv and any(x.kind == "field" and x[2] == "keepalive_interval" for x in walk(tr.operand(iv[0]["args"][0]))):
            rep.ok("C16.R2", "interval-source", where, "interval <- keepalive_interval")
        else:
            rep.bad("C16.R2", "interval-source", where, "ping interval is not built from keepalive_interval")
    if "tokio-time" in crate.features:
        rep.floor("C16.R2", "keepalive loops", n2, 1)
    else:
        rep.info("tokio-time disabled in %s: keepalive is compiled out (schedule_ping_task awaits pending())" % cfg)
    # ---- R3
    rep.rule("C16.R3", "Options::keepalive_timeout stores max(arg, keepalive_interval)")
    n3 = 0
    for b, bi, si, s in field_stores(crate, "penguin_mux::config::Options", "keepalive_timeout"):
        tr = Tracer(facts, b)
        v = strip(tr.rvalue(s["rv"]))
        if v.kind == "agg" or v.kind == "constx" or v.kind == "const":
            continue
        n3 += 1
        rep.analysed(b)
        where = "%s (%s)" % (loc_str(s["loc"]), b.path)
        if v.kind == "call" and v[6] == "max" and any(strip(a).kind == "param" for a in v[3]) and \
                any(x.kind == "field" and x[2] == "keepalive_interval" for a in v[3] for x in walk(a)):
            rep.ok("C16.R3", "timeout-clamped", where, "max(timeout, keepalive_interval)")
        else:
            rep.bad("C16.R3", "timeout-clamped", where, "keepalive_timeout is stored as `%s`, not max(argument, keepalive_interval): a timeout shorter than the interval fires before the first ping can be answered" % fmt(v))
    rep.floor("C16.R3", "keepalive_timeout setters", n3, 1)
    # the clamp reads the interval stored at that moment: wherever both setters are applied the interval is set first
    for cr in facts.crates.values():
        for b in cr.bodies:
            if "::tests::" in b.path or "/tests" in b.file:
                continue
            tos = [(bi, t) for bi, t in b.calls() if callee(t) and callee(t)["name"] == "keepalive_timeout" and "config::Options" in callee(t)["path"]]
            ivs = [(bi, t) for bi, t in b.calls() if callee(t) and callee(t)["name"] == "keepalive_interval" and "config::Options" in callee(t)["path"]]
            if not tos or not ivs:
                continue
            tr = Tracer(facts, b)
            for bi, t in tos:
                where = "%s (%s)" % (loc_str(t["loc"]), b.path)
                recv = tr.operand(t["args"][0])
                if any(x.kind == "call" and x[6] == "keepalive_interval" for x in walk(recv)):
                    rep.ok("C16.R3", "interval-set-before-timeout/%s" % b.path.split("::{")[0], where, "keepalive_timeout applied to Options that already carry the interval")
                else:
                    rep.bad("C16.R3", "interval-set-before-timeout/%s" % b.path.split("::{")[0], where,
                            "keepalive_timeout() is applied before keepalive_interval(): the clamp max(timeout, interval) uses the default interval, "
                            "so a configured timeout shorter than the configured interval survives unclamped (T < I)")
    # ---- R4
    rep.rule("C16.R4", "disabled = never: tick(None) -> pending(); cmp_duration(None) = Greater, direction d.cmp(other); zero -> None")
    for b in crate.bodies:
        if b.path.endswith("OptionalDuration::cmp_duration"):
            tr = Tracer(facts, b)
            v = strip(tr.local(0))
            where = "%s (%s)" % (loc_str(b.loc), b.path)
            rep.analysed(b)
            if v.kind == "call" and v[6] == "map_or" and any(x.kind == "agg" and x[2].endswith("Ordering::Greater") for x in walk(v[3][1])):
                rep.ok("C16.R4", "cmp-none-greater", where, "None compares Greater (never less than any elapsed time)")
            elif _cmp_match_form(facts, b, tr) is not None:
                # the same function written as `match self.0 { Some(d) => d.cmp(other), None => Greater }`
                none_ok, dir_ok, desc = _cmp_match_form(facts, b, tr)
                if none_ok:
                    rep.ok("C16.R4", "cmp-none-greater", where, "None compares Greater (match form)")
                else:
                    rep.bad("C16.R4", "cmp-none-greater", where, "cmp_duration on a disabled duration is not Greater: %s" % desc)
                if dir_ok:
                    rep.ok("C16.R4", "cmp-direction", where, "d.cmp(other) (match form)")
                else:
                    rep.bad("C16.R4", "cmp-direction", where, "comparison direction is not `own.cmp(other)`: %s" % desc)
            else:
                rep.bad("C16.R4", "cmp-none-greater", where, "cmp_duration on a disabled duration is not Greater: `%s`" % fmt(v))
        if b.path.endswith("OptionalDuration::cmp_duration::{closure#0}"):
            tr = Tracer(facts, b)
            v = strip(tr.local(0))
            where = "%s (%s)" % (loc_str(b.loc), b.path)
            if v.kind == "call" and v[6] == "cmp" and strip(v[3][0]).kind == "param" and strip(v[3][0])[1] == 2 and \
                    any(x.kind == "param" and x[1] == 1 for x in walk(v[3][1])):
                rep.ok("C16.R4", "cmp-direction", where, "d.cmp(other)")
            else:
                rep.bad("C16.R4", "cmp-direction", where, "comparison direction is not `own.cmp(other)`: `%s`" % fmt(v))
        if b.path.endswith("OptionalInterval::tick::{closure#0}"):
            tr = Tracer(facts, b)
            where = "%s (%s)" % (loc_str(b.loc), b.path)
            rep.analysed(b)
            okp = False
            for bb in range(len(b.blocks)):
                if b.term(bb)["k"] == "SwitchInt":
                    g = guard_at(facts, b, tr, bb)
                    if g and g.kind == "discr" and g.adt and g.adt.endswith("option::Option"):
                        nones = [s for s, v in g.edges if v == "None"]
                        if nones:
                            reach = b.reachable_from(nones[0], cut={bb})
                            pend = [x for x in reach if callee(b.term(x)) and callee(b.term(x))["name"] == "pending"]
                            ticks = [x for x in reach if callee(b.term(x)) and callee(b.term(x))["name"] == "tick"]
                            if pend and not ticks:
                                okp = True
            if okp:
                rep.ok("C16.R4", "tick-none-pending", where, "no interval -> pending() forever")
            else:
                rep.bad("C16.R4", "tick-none-pending", where, "a disabled interval does not await pending() (keepalive would fire although disabled)")
        it = b.j.get("impl_trait", "")
        if b.name in ("from", "from_str") and b.j.get("impl_self", {}).get("s") == "timing::OptionalDuration" and \
                ("From<core::time::Duration>" in it or "FromStr" in it):
            tr = Tracer(facts, b)
            where = "%s (%s)" % (loc_str(b.loc), b.path)
            rep.analysed(b)
            okz = False
            for bb in range(len(b.blocks)):
                if b.term(bb)["k"] == "SwitchInt":
                    g = guard_at(facts, b, tr, bb)
                    if g and g.kind == "bool":
                        p = strip(g.pred)
                        zero_true = None
                        if p.kind == "call" and p[6] == "is_zero":
                            zero_true = True
                        elif p.kind == "bin" and p[1] in ("Eq", "Ne") and const_eval(p[3]) == 0:
                            zero_true = (p[1] == "Eq")
                        if zero_true is None:
                            continue
                        zs = [s for s, v in g.edges if v == zero_true][0]
                        for x in b.reachable_from(zs, cut={bb}):
                            for s in b.blocks[x]["stmts"]:
                                if s["k"] == "Assign" and s["rv"]["k"] == "Aggregate" and s["rv"]["agg"].get("variant") == "None" and b.edge_dominates((bb, zs), x):
                                    okz = True
                                # the disabled value spelled as the associated constant (whose initialiser builds `None`)
                                if s["k"] == "Assign" and s["rv"]["k"] == "Use" and b.edge_dominates((bb, zs), x):
                                    it_ = s["rv"]["ops"][0].get("item") if s["rv"]["ops"][0].get("k") == "const" else None
                                    cb = facts.by_dp.get(it_) if it_ else None
                                    if cb is not None and "OptionalDuration" in (s["rv"]["ops"][0].get("ty") or "") and any(
                                            s2["k"] == "Assign" and s2["rv"]["k"] == "Aggregate" and s2["rv"]["agg"].get("variant") == "None"
                                            for blk2 in cb.blocks for s2 in blk2["stmts"]):
                                        okz = True
            if okz:
                rep.ok("C16.R4", "zero-is-none/%s" % b.name, where, "0 -> disabled")
            else:
                rep.bad("C16.R4", "zero-is-none/%s" % b.name, where, "a zero duration is not mapped to the disabled value")
    # ---- R5
    rep.rule("C16.R5", "after a keepalive timeout the task does not wait for the peer before failing pending operations (= C08.R3)")
    sub = type(rep)(rep.prop, rep.tier, rep.config)
    rules_c08.check(facts, sub, tier, cfg)
    rep.paths += sub.paths
    hit = [v for v in sub.violations if v["rule"] == "C08.R3" or v["key"].endswith("arm-flag/keepalive")]
    for v in hit:
        rep.bad("C16.R5", "unbounded-peer-wait-after-timeout", v["where"], v["msg"])
    if not hit:
        rep.ok("C16.R5", "no-unbounded-wait-after-timeout", "", "C08.R3 holds and the keepalive arm selects the failure teardown (flag false)")
    # ---- R6 a Pong that is already in the socket is seen before the timeout is evaluated
    rep.rule("C16.R6", "in the connection task's biased select the receive loop (which records Pongs) is polled before the keepalive check, so an "
                       "answer that arrived in time is never judged by the previous Pong's timestamp")
    sub = type(rep)(rep.prop, rep.tier, rep.config)
    try:
        rules_c08.check(facts, sub, tier, cfg)
    except Exception:
        pass
    roles = rules_c08.LAST_ROLES
    order = sorted((int(k[1:]), v[0]) for k, v in roles.items() if k[1:].isdigit())
    names = [r for _, r in order]
    if "tokio-time" not in crate.features:
        rep.info("tokio-time disabled: no keepalive arm")
    elif "receive-loop" in names and "keepalive" in names:
        if names.index("receive-loop") < names.index("keepalive"):
            rep.ok("C16.R6", "receive-before-keepalive", "", "select arm order %s" % names)
        else:
            rep.bad("C16.R6", "receive-before-keepalive", "", "the keepalive arm is polled before the receive loop in the biased select (order %s): when a "
                    "due tick and an unread Pong are ready in the same poll, the timeout is evaluated against the stale timestamp and a live "
                    "peer is cut off" % names)
    else:
        rep.bad("C16.R6", "receive-before-keepalive", "", "could not identify the receive-loop and keepalive arms of the task's select (found %s)" % names)
    check_option_setters(facts, rep, crate, "C16.R3", ['keepalive_interval', 'keepalive_timeout'])
    rep.rule("C16.S1", "S1: every message taken off the outbound queue is handed to the WebSocket sink by the send loop (= C02.R2): the frames this property relies on are not dropped, deduplicated or reordered on the way out")
    import_outbound_queue_rule(facts, rep, tier, cfg, "C16.S1")
    import adapter
    adapter.check_adapter(facts, rep, "C16.S8")
    # ---- R6 the ping timer runs with the configured interval itself
    rep.rule("C16.R6", "a ping is sent every I: the period of the timer built from the configured keepalive interval is that duration itself "
                       "(conversion OptionalDuration -> OptionalInterval through moves only) - a clamped / rounded period makes pings rarer "
                       "than the interval the timeout was clamped against, and a live peer is declared dead")
    from an import inexact_steps as _ix6
    k6 = 0
    for b in crate.bodies:
        if "/timing.rs" not in b.file or "::tests::" in b.path:
            continue
        tr6 = None
        for bi, t in b.calls():
            c = callee(t)
            if c and c["name"] in ("map", "and_then") and len(t["args"]) > 1:
                tr6 = tr6 or Tracer(facts, b)
                if "time::interval" in fmt(tr6.operand(t["args"][1])) and not any(x.kind == "agg" for x in walk(tr6.operand(t["args"][1]))):
                    k6 += 1
                    rep.analysed(b)
                    rep.ok("C16.R6", "interval-period-exact", "%s (%s)" % (loc_str(t["loc"]), b.path), "period = configured duration (interval passed as the mapper)")
                continue
            if not (c and c["name"] in ("interval", "interval_at") and "time" in c["path"] and t["args"]):
                continue
            tr6 = tr6 or Tracer(facts, b)
            k6 += 1
            rep.analysed(b)
            w6 = "%s (%s)" % (loc_str(t["loc"]), b.path)
            arg = tr6.operand(t["args"][-1])
            st6 = _ix6(arg, lambda y: y.kind == "param" or (y.kind == "field" and y[2] == "0"), None)
            if st6:
                rep.bad("C16.R6", "interval-period-exact", w6,
                        "the ping timer's period is computed (`%s`), not the configured interval: for some settings (e.g. sub-second "
                        "intervals) pings are sent less often than every I while the timeout stays clamped against I" % st6[0])
            else:
                rep.ok("C16.R6", "interval-period-exact", w6, "period = configured duration")
    if "tokio-time" in crate.features:
        rep.floor("C16.R6", "timers built from the keepalive interval", k6, 1)
    rep.rule("C16.S7", "who-may: the functions that touch the critical resources behind this property are those of the reference tree (flow table, closed flag, per-stream / datagram / outbound queues, last-pong timestamp, client id maps, shared TLS identity)")
    import whomay
    whomay.check(facts, rep, "C16.S7", "C16")
    whomay.check_new_statics(facts, rep, "C16.S7", "C16")
    whomay.check_new_trait_methods(facts, rep, "C16.S7", "C16")
