#!/usr/bin/env python3
"""Regenerate pgcheck/inventory.json (the fn items of the pinned tree, all feature configurations). Run only on the
pinned tree: `python3 pgcheck/gen_inventory.py` with PGCHECK_REPO unset."""
import json, os, sys
sys.path.insert(0, os.path.dirname(os.path.abspath(__file__)))
import extract, normalize
from mir import Facts
CONFIGS = ["default", "mux-nodefault", "mux-std-only", "mux-nohash", "mux-yawc", "penguin-client-only", "penguin-server-only",
           "penguin-native-tls", "penguin-ring"]
th, _ = extract.tree_hash()
allf = []
for c in CONFIGS:
    allf.append(Facts(extract.ensure_facts(c, th)))
inv = normalize.gen_inventory(allf)
json.dump(inv, open(normalize.INV, "w"), indent=0, sort_keys=True)
print({k: len(v) for k, v in inv.items()})
