"""Normalisation of the extracted facts before any rule runs (robustness against behaviour-preserving refactorings).

The rules are anchored on the functions of the pinned tree (inventory.json: every fn item of the analysed crates, by
crate + path, with its signature).  Two refactorings change that inventory without changing behaviour:

  * extract-helper: a block moves into a NEW private function.  Every direct call of a function that is not in the
    inventory is inlined into its caller at MIR level (locals and blocks renumbered, arguments assigned to the
    parameter locals, Return replaced by an assignment of the return place plus a goto), so the caller again
    contains what the rules look for.  Inlining is semantics-preserving whatever it is applied to; the inventory
    only decides where it is applied.  The helper body is then dropped from the crate's body list (its nested
    closures stay, with the original call sites kept for parameter expansion).
  * rename: an inventory function disappeared and a new function with the same owner (impl self type / module) and
    the same signature appeared: the new one is given the old name (body, nested bodies and all callee references).

Neither step can hide a violation: the analysed program is the same program."""
import copy, json, os, re

HERE = os.path.dirname(os.path.abspath(__file__))
INV = os.path.join(HERE, "inventory.json")
MAX_BLOCKS = 400
_inv = None


def inventory():
    global _inv
    if _inv is None:
        with open(INV) as f:
            _inv = json.load(f)
    return _inv


def sig_of(b):
    return [b.locals[i]["s"] for i in range(0, b.argc + 1)]


def owner_of(b):
    o = (b.j.get("impl_self") or {}).get("adt")
    if o:
        return "impl:" + o
    return "mod:" + b.path.rsplit("::", 1)[0] if "::" in b.path else "mod:"


def fn_items(crate):
    return [b for b in crate.bodies if b.kind in ("Fn", "AssocFn")]


# ------------------------------------------------------------------ renames

def _rename_callee_strings(fn, old, new):
    for k in ("path", "def", "res_path"):
        v = fn.get(k)
        if isinstance(v, str) and v.endswith("::" + old):
            fn[k] = v[: -len(old)] + new
        elif isinstance(v, str) and ("::" + old + "::") in v:
            fn[k] = v.replace("::" + old + "::", "::" + new + "::")
    if fn.get("name") == old:
        fn["name"] = new


def _move_fn(facts, crate, nb, newpath, oldp):
    """A free fn found under a new module path: bodies, nested bodies and callee references get the inventory path back."""
    dps = set()
    for b in crate.bodies:
        if b.path == newpath or b.path.startswith(newpath + "::"):
            if b is nb:
                dps.add(b.dp)
            b.path = oldp + b.path[len(newpath):]
            b.j["path"] = b.path

    def fix(fn):
        for k in ("path", "def", "res_path"):
            v = fn.get(k)
            if isinstance(v, str) and newpath in v:
                fn[k] = v.replace(newpath, oldp)
    for b in facts.all_bodies():
        for _bi, t in b.calls():
            f = t["func"]
            fn = f.get("fn") if isinstance(f, dict) else None
            if fn and (fn.get("dp") in dps or fn.get("res") in dps):
                fix(fn)
        for blk in b.blocks:
            for s in blk["stmts"]:
                if s["k"] == "Assign":
                    for o in s["rv"].get("ops", []):
                        fn = o.get("fn") if o.get("k") == "const" else None
                        if fn and fn.get("dp") in dps:
                            fix(fn)


def apply_renames(facts, log):
    inv = inventory()
    for crate in facts.crates.values():
        known = inv.get(crate.name)
        if known is None or crate.name.startswith("__"):
            continue
        cur = {b.path: b for b in fn_items(crate)}
        missing = [p for p in known if p not in cur]
        new = [b for p, b in cur.items() if p not in known]
        if not missing or not new:
            continue
        for nb in new:
            cands = [p for p in missing if known[p]["owner"] == owner_of(nb) and known[p]["sig"] == sig_of(nb)]
            moved = False
            if len(cands) != 1 and owner_of(nb).startswith("mod:"):
                # a free function moved to another (sub)module: same name, same signature, old path gone
                cands = [p for p in missing if known[p]["owner"].startswith("mod:") and known[p]["name"] == nb.name and known[p]["sig"] == sig_of(nb)]
                moved = True
            if len(cands) != 1:
                continue
            # the same old function must not be claimed by two new ones
            if moved:
                rivals = [x for x in new if x is not nb and x.name == nb.name and owner_of(x).startswith("mod:") and sig_of(x) == sig_of(nb)]
            else:
                rivals = [x for x in new if x is not nb and known[cands[0]]["owner"] == owner_of(x) and known[cands[0]]["sig"] == sig_of(x)]
            if rivals:
                continue
            oldp = cands[0]
            oldname, newname = known[oldp]["name"], nb.name
            if oldname == newname and not moved:
                continue
            missing.remove(oldp)
            log.append("%s %s::%s -> treated as %s" % ("move" if moved else "rename", crate.name, nb.path, oldp))
            newpath = nb.path
            if moved:
                _move_fn(facts, crate, nb, newpath, oldp)
                continue
            dps = set()
            for b in crate.bodies:
                if b.path == newpath or b.path.startswith(newpath + "::"):
                    b.path = oldp + b.path[len(newpath):]
                    b.j["path"] = b.path
                    if b is nb:
                        b.name = oldname
                        b.j["name"] = oldname
                        dps.add(b.dp)
            for b in facts.all_bodies():
                for _bi, t in b.calls():
                    f = t["func"]
                    fn = f.get("fn") if isinstance(f, dict) else None
                    if fn and (fn.get("dp") in dps or fn.get("res") in dps):
                        _rename_callee_strings(fn, newname, oldname)
                for blk in b.blocks:
                    for s in blk["stmts"]:
                        if s["k"] == "Assign":
                            for o in s["rv"].get("ops", []):
                                fn = o.get("fn") if o.get("k") == "const" else None
                                if fn and fn.get("dp") in dps:
                                    _rename_callee_strings(fn, newname, oldname)


# ------------------------------------------------------------------ inlining

class _Off(int):
    """Local offset of the inlined callee plus the parameters bound directly to a caller local (moved arguments)."""
    lmap = {}


def _place(p, off):
    q = dict(p)
    q["l"] = off.lmap.get(p["l"], p["l"] + off) if isinstance(off, _Off) else p["l"] + off
    return q


def _operand(o, off):
    if "p" in o:
        o = dict(o)
        o["p"] = _place(o["p"], off)
    return o


def _rv(rv, off):
    rv = dict(rv)
    if "ops" in rv:
        rv["ops"] = [_operand(o, off) for o in rv["ops"]]
    if "place" in rv:
        rv["place"] = _place(rv["place"], off)
    return rv


def _stmt(s, off):
    s = dict(s)
    if "lhs" in s:
        s["lhs"] = _place(s["lhs"], off)
    if "rv" in s:
        s["rv"] = _rv(s["rv"], off)
    return s


def _bb(x, boff):
    return None if x is None else x + boff


def _term(t, off, boff):
    t = dict(t)
    k = t["k"]
    for key in ("t", "unwind", "imag", "otherwise", "drop"):
        if key in t and isinstance(t[key], int):
            t[key] = t[key] + boff
    if k == "SwitchInt":
        t["discr"] = _operand(t["discr"], off)
        t["targets"] = [[v, b + boff] for v, b in t["targets"]]
    elif k == "Call":
        t["args"] = [_operand(a, off) for a in t["args"]]
        t["dest"] = _place(t["dest"], off)
        if isinstance(t.get("func"), dict) and "p" in t["func"]:
            t["func"] = _operand(t["func"], off)
    elif k == "Drop":
        t["place"] = _place(t["place"], off)
    elif k == "Assert":
        t["cond"] = _operand(t["cond"], off)
    elif k == "Yield":
        t["value"] = _operand(t["value"], off)
        t["resume_arg"] = _place(t["resume_arg"], off)
    return t


def inline_call(cj, bb, fj):
    """Inline callee JSON `fj` at the Call terminator of block `bb` of caller JSON `cj` (in place)."""
    call = cj["blocks"][bb]["term"]
    off = _Off(len(cj["locals"]))
    off.lmap = {}
    boff = len(cj["blocks"])
    cj["locals"] = cj["locals"] + copy.deepcopy(fj["locals"])
    loc = call["loc"]
    blk = cj["blocks"][bb]
    for i, a in enumerate(call["args"]):
        if i + 1 > fj["argc"]:
            break
        if a["k"] == "move" and not a["p"].get("p"):
            # a moved local: the callee works on the caller's local itself (same identity as before the extraction)
            off.lmap[1 + i] = a["p"]["l"]
            continue
        blk["stmts"].append({"k": "Assign", "lhs": {"l": int(off) + 1 + i}, "rv": {"k": "Use", "ops": [a]}, "loc": loc})
    blk["term"] = {"k": "Goto", "t": boff, "loc": loc, "inlined": fj["dp"]}
    for fb in fj["blocks"]:
        nb = {"cleanup": fb["cleanup"], "stmts": [_stmt(s, off) for s in fb["stmts"]]}
        t = fb["term"]
        if t["k"] == "Return":
            if call["t"] is None:
                nb["term"] = {"k": "Unreachable", "loc": t["loc"]}
            else:
                nb["stmts"].append({"k": "Assign", "lhs": call["dest"], "rv": {"k": "Use", "ops": [{"k": "move", "p": {"l": int(off)}}]},
                                    "loc": loc})
                nb["term"] = {"k": "Goto", "t": call["t"], "loc": loc}
        elif t["k"] == "UnwindResume" and call.get("unwind") is not None and isinstance(call.get("unwind"), int):
            nb["term"] = {"k": "Goto", "t": call["unwind"], "loc": t["loc"]}
        else:
            nb["term"] = _term(t, off, boff)
        for k in fb:
            if k not in nb:
                nb[k] = fb[k]
        cj["blocks"].append(nb)
    dbg = cj.setdefault("dbg", [])
    for d in fj.get("dbg", []):
        if d["p"]["l"] not in off.lmap:
            dbg.append({"name": d["name"], "p": _place(d["p"], off)})
    return off


def _rebuild(facts, crate, old, j):
    from mir import Body
    nb = Body(crate, j)
    i = crate.bodies.index(old)
    crate.bodies[i] = nb
    crate.by_dp[nb.dp] = nb
    facts.by_dp[nb.dp] = nb
    if old.parent and old.parent in crate.children:
        crate.children[old.parent] = [nb if x is old else x for x in crate.children[old.parent]]
    return nb


def apply_inlining(facts, log):
    inv = inventory()
    facts.inlined_sites = getattr(facts, "inlined_sites", [])
    for crate in facts.crates.values():
        known = inv.get(crate.name)
        if known is None:
            continue
        helpers = {}
        for b in fn_items(crate):
            if b.path not in known and len(b.blocks) <= MAX_BLOCKS and not b.j.get("coroutine"):
                helpers[b.dp] = b
        if not helpers:
            continue
        # recursion: a helper that can reach itself through helpers is left alone
        def reaches(src, dst, seen):
            for _bi, t in helpers[src].calls():
                fn = t["func"].get("fn") if isinstance(t["func"], dict) else None
                d = fn and (fn.get("res") or fn.get("dp"))
                if d == dst:
                    return True
                if d in helpers and d not in seen:
                    seen.add(d)
                    if reaches(d, dst, seen):
                        return True
            return False
        for dp in list(helpers):
            if reaches(dp, dp, set()):
                del helpers[dp]
        inlined = {}
        for _pass in range(4):
            changed = False
            for b in list(crate.bodies):
                sites = []
                for bi, t in b.calls():
                    fn = t["func"].get("fn") if isinstance(t["func"], dict) else None
                    d = fn and (fn.get("res") if fn.get("res") in helpers else fn.get("dp"))
                    if d in helpers and helpers[d] is not b:
                        sites.append((bi, d))
                if not sites:
                    continue
                j = copy.deepcopy(b.j)
                for bi, d in sites:
                    orig = copy.deepcopy(j["blocks"][bi]["term"])
                    hb = crate.by_dp[d]
                    inline_call(j, bi, hb.j)
                    inlined[d] = inlined.get(d, 0) + 1
                    facts.inlined_sites.append((b.dp, bi, orig))
                nb = _rebuild(facts, crate, b, j)
                if nb.dp in helpers:
                    helpers[nb.dp] = nb
                changed = True
            if not changed:
                break
        for d, n in inlined.items():
            hb = crate.by_dp[d]
            log.append("inlined new helper %s::%s into %d call site(s)" % (crate.name, hb.path, n))
            if hb in crate.bodies:
                crate.bodies.remove(hb)
            first = next((x[0] for x in facts.inlined_sites if _callee_dp(x[2]) == d), None)
            if first is not None:
                _reparent(crate, d, first if isinstance(first, str) else first.dp, skip_coroutine=True)
        apply_async_splice(facts, crate, known, log)
    # resolve (dp, bb, term) -> current body objects
    facts.inlined_sites = [(facts.by_dp[dp] if isinstance(dp, str) else dp, bi, t) for dp, bi, t in facts.inlined_sites
                           if (dp if not isinstance(dp, str) else dp) is not None]


def _callee_dp(t):
    fn = t["func"].get("fn") if isinstance(t.get("func"), dict) else None
    return fn and (fn.get("res") or fn.get("dp"))


def _reparent(crate, old_parent, new_parent, skip_coroutine=False):
    """Closures of an inlined helper now belong to the body that contains the inlined copy."""
    kids = crate.children.get(old_parent, [])
    keep = []
    for c in kids:
        if skip_coroutine and c.j.get("coroutine"):
            keep.append(c)
            continue
        c.parent = new_parent
        c.j["parent"] = new_parent
        crate.children[new_parent].append(c)
    crate.children[old_parent] = keep


_PASS_THROUGH = {"new_unchecked", "into_future", "as_mut", "get_mut", "deref_mut", "new", "get_unchecked_mut", "into_inner", "pin"}


def _chase_coroutine(b, op, depth=0):
    """Local holding the `Coroutine` aggregate that the polled future operand `op` was made from (moves, borrows,
    Pin / IntoFuture wrappers), or None."""
    if depth > 24 or op.get("k") not in ("move", "copy"):
        return None
    p = op["p"]
    pr = [e for e in (p.get("p") or []) if e != "*"]
    if pr:
        return None
    ds = b.defs.get(p["l"], [])
    if len(ds) != 1:
        return None
    bi, si, x = ds[0]
    if si == "term":
        if x["k"] != "Call":
            return None
        fn = x["func"].get("fn") if isinstance(x["func"], dict) else None
        if fn and fn.get("name") in _PASS_THROUGH and x["args"]:
            return _chase_coroutine(b, x["args"][0], depth + 1)
        return None
    rv = x["rv"]
    if rv["k"] == "Use":
        return _chase_coroutine(b, rv["ops"][0], depth + 1)
    if rv["k"] in ("Ref", "RawPtr"):
        pl = rv["place"]
        if [e for e in (pl.get("p") or []) if e != "*"]:
            return None
        return _chase_coroutine(b, {"k": "copy", "p": {"l": pl["l"]}}, depth + 1)
    if rv["k"] == "Aggregate" and rv["agg"]["a"] == "Coroutine":
        return (p["l"], rv["agg"]["def"])
    return None


def splice_await(cj, pb, hj, env_local, caller_is_coroutine):
    """Replace `poll(fut, cx)` at block `pb` of caller JSON `cj` by the body `hj` of the awaited coroutine: the helper's
    own suspension points stay Yield terminators of the caller, its Return becomes `dest = Poll::Ready(value)`."""
    call = cj["blocks"][pb]["term"]
    off = _Off(len(cj["locals"]))
    off.lmap = {1: env_local}
    if caller_is_coroutine:
        off.lmap[2] = 2
    boff = len(cj["blocks"])
    cj["locals"] = cj["locals"] + copy.deepcopy(hj["locals"])
    loc = call["loc"]
    ready = call["t"]
    if ready is not None:
        tb = cj["blocks"][ready]
        tt = tb["term"]
        if tt["k"] == "SwitchInt" and tb["stmts"] and tb["stmts"][-1]["rv"]["k"] == "Discriminant" \
                and tb["stmts"][-1]["rv"]["place"]["l"] == call["dest"]["l"]:
            for v, b in tt["targets"]:
                if v == 0:
                    ready = b
    cj["blocks"][pb]["term"] = {"k": "Goto", "t": boff, "loc": loc, "inlined": hj["dp"]}
    for fb in hj["blocks"]:
        nb = {"cleanup": fb["cleanup"], "stmts": [_stmt(s, off) for s in fb["stmts"]]}
        t = fb["term"]
        if t["k"] == "Return":
            if ready is None:
                nb["term"] = {"k": "Unreachable", "loc": t["loc"]}
            else:
                nb["stmts"].append({"k": "Assign", "lhs": call["dest"],
                                    "rv": {"k": "Aggregate", "agg": {"a": "Adt", "adt": "core::task::poll::Poll", "variant": "Ready", "vi": 0,
                                                                     "fields": ["0"], "targs": []},
                                           "ops": [{"k": "move", "p": {"l": int(off)}}]}, "loc": loc})
                nb["term"] = {"k": "Goto", "t": ready, "loc": loc}
        elif t["k"] == "UnwindResume" and isinstance(call.get("unwind"), int):
            nb["term"] = {"k": "Goto", "t": call["unwind"], "loc": t["loc"]}
        else:
            nb["term"] = _term(t, off, boff)
        for k in fb:
            if k not in nb:
                nb[k] = fb[k]
        cj["blocks"].append(nb)
    dbg = cj.setdefault("dbg", [])
    for d in hj.get("dbg", []):
        if d["p"]["l"] not in off.lmap:
            dbg.append({"name": d["name"], "p": _place(d["p"], off)})


def apply_async_splice(facts, crate, known, log):
    """`helper(args).await` where `helper` is a new async fn: the coroutine body is spliced into the awaiting body."""
    new_async = {}
    for h in crate.by_dp.values():
        if h.j.get("coroutine") and h.parent:
            pb = crate.by_dp.get(h.parent)
            if pb is not None and pb.kind in ("Fn", "AssocFn") and pb.path not in known and len(h.blocks) <= MAX_BLOCKS:
                new_async[h.dp] = h
    if not new_async:
        return
    done = {}
    for _round in range(12):
        changed = False
        for b in list(crate.bodies):
            if b.dp in new_async and False:
                continue
            site = None
            for bi, t in b.calls():
                fn = t["func"].get("fn") if isinstance(t["func"], dict) else None
                if not fn or fn.get("name") != "poll" or "Future" not in (fn.get("def") or fn.get("path") or "") or not t["args"]:
                    continue
                r = _chase_coroutine(b, t["args"][0])
                if r and r[1] in new_async and new_async[r[1]] is not b:
                    site = (bi, r[0], r[1])
                    break
            if site is None:
                continue
            bi, env_local, d = site
            j = copy.deepcopy(b.j)
            # the creation of the future no longer stands for a run of its body (effects.py accounts for coroutines there)
            for (dbi, dsi, _x) in b.defs.get(env_local, []):
                if dsi != "term":
                    j["blocks"][dbi]["stmts"][dsi]["rv"]["agg"]["spliced"] = True
            splice_await(j, bi, new_async[d].j, env_local, bool(b.j.get("coroutine")))
            nb = _rebuild(facts, crate, b, j)
            if nb.dp in new_async:
                new_async[nb.dp] = nb
            done.setdefault(d, []).append(nb.dp)
            changed = True
        if not changed:
            break
    for d, callers in done.items():
        h = crate.by_dp[d]
        log.append("spliced awaited new async helper %s::%s into %d await site(s)" % (crate.name, h.path, len(callers)))
        if h in crate.bodies:
            crate.bodies.remove(h)
        _reparent(crate, d, callers[0])
        # the coroutine body itself no longer hangs under the outer fn
        if h.parent in crate.children:
            crate.children[h.parent] = [c for c in crate.children[h.parent] if c is not h]


def adt_shape(a):
    return {"path": a.get("path"), "kind": a.get("kind"),
            "variants": [[v["name"], [[f["name"], f["ty"]] for f in v["fields"]]] for v in a["variants"]]}


def _tokens(ty):
    return re.findall(r"[A-Za-z_][A-Za-z0-9_]*|[^A-Za-z0-9_\s]", ty or "")


def detect_adt_renames(facts):
    """[(old dp, new dp)] for local types that disappeared / appeared with the same shape; ambiguity (two types of the same
    shape renamed together) is resolved through fields of unchanged types that mention them."""
    inv = inventory().get("__adts__")
    if not inv:
        return []
    cur = {}
    for c in facts.crates.values():
        for dp, a in c.adts.items():
            if a.get("local"):
                cur[dp] = adt_shape(a)
    missing = [dp for dp in inv if dp not in cur and dp.split("::")[0] in facts.crates]
    new = [dp for dp in cur if dp not in inv]
    if not missing or not new:
        return []
    hints = {}   # old last segment -> new last segment, from field types of types that kept their path
    for dp, sh in cur.items():
        old = inv.get(dp)
        if not old or len(old["variants"]) != len(sh["variants"]):
            continue
        for (vn0, f0), (vn1, f1) in zip(old["variants"], sh["variants"]):
            if len(f0) != len(f1):
                continue
            for (n0, t0), (n1, t1) in zip(f0, f1):
                a, b = _tokens(t0), _tokens(t1)
                if t0 != t1 and len(a) == len(b):
                    for x, y in zip(a, b):
                        if x != y:
                            hints[x] = y

    def names_only(sh):
        return [[v[0], [f[0] for f in v[1]]] for v in sh["variants"]]
    pairs = []
    for o in missing:
        mod = o.rsplit("::", 1)[0]
        cands = [n for n in new if n.rsplit("::", 1)[0] == mod and cur[n]["kind"] == inv[o]["kind"] and names_only(cur[n]) == names_only(inv[o])]
        if not cands:
            # moved to another module of the same crate under the same name (e.g. into a new private file)
            cands = [n for n in new if n.split("::")[0] == o.split("::")[0] and n.rsplit("::", 1)[1] == o.rsplit("::", 1)[1]
                     and cur[n]["kind"] == inv[o]["kind"] and names_only(cur[n]) == names_only(inv[o])]
        hinted = [n for n in cands if hints.get(o.rsplit("::", 1)[1]) == n.rsplit("::", 1)[1]]
        if len(hinted) == 1:
            cands = hinted
        if len(cands) == 1 and not any(p[1] == cands[0] for p in pairs):
            pairs.append((o, cands[0]))
    return pairs


def adt_rename_filter(pairs):
    """Text filter for the fact files: the module-qualified new type name is written back as the inventory name."""
    subs = []
    for o, n in pairs:
        orel, nrel = o.split("::", 1)[1], n.split("::", 1)[1]
        if "::" in nrel:
            subs.append((re.compile(r"(?<![A-Za-z0-9_])" + re.escape(nrel) + r"(?![A-Za-z0-9_])"), orel))
        else:
            # a type at the crate root: its bare name is replaced as a whole identifier
            subs.append((re.compile(r"(?<![A-Za-z0-9_])" + re.escape(nrel) + r"(?![A-Za-z0-9_])"), orel))

    def f(txt):
        for rx, rep in subs:
            txt = rx.sub(rep.replace("\\", "\\\\"), txt)
        return txt
    return f


def apply_field_renames(facts, log):
    """A private field renamed in a type that kept its path, field count, order and field types: the inventory name is
    written back in the type, in every projection through it and in every aggregate of it."""
    inv = inventory().get("__adts__")
    if not inv:
        return
    ren = {}   # (adt dp, variant name, index) -> (new, old)
    for c in facts.crates.values():
        for dp, a in c.adts.items():
            old = inv.get(dp)
            if not a.get("local") or not old or len(old["variants"]) != len(a["variants"]):
                continue
            for (vn0, f0), v1 in zip(old["variants"], a["variants"]):
                f1 = v1["fields"]
                if vn0 != v1["name"] or len(f0) != len(f1) or [t for _n, t in f0] != [f["ty"] for f in f1]:
                    continue
                for i, ((n0, _t), fl) in enumerate(zip(f0, f1)):
                    if n0 != fl["name"]:
                        ren[(dp, vn0, i)] = (fl["name"], n0)
                        fl["name"] = n0
    if not ren:
        return
    by_adt = {}
    for (dp, vn, i), (newn, oldn) in ren.items():
        by_adt.setdefault(dp, {})[(i, newn)] = oldn
        log.append("field rename %s.%s -> treated as %s" % (dp, newn, oldn))

    def fix_place(p):
        for e in p.get("p") or []:
            if isinstance(e, dict) and "f" in e and e.get("o") in by_adt:
                k = (e.get("i"), e["f"])
                if k in by_adt[e["o"]]:
                    e["f"] = by_adt[e["o"]][k]

    def fix_op(o):
        if isinstance(o, dict) and "p" in o:
            fix_place(o["p"])
    for b in facts.all_bodies():
        for blk in b.blocks:
            for s in blk["stmts"]:
                if "lhs" in s:
                    fix_place(s["lhs"])
                rv = s.get("rv")
                if rv:
                    for o in rv.get("ops", []):
                        fix_op(o)
                    if "place" in rv:
                        fix_place(rv["place"])
                    ag = rv.get("agg")
                    if ag and ag.get("a") == "Adt" and ag.get("adt") in by_adt and isinstance(ag.get("fields"), list):
                        ag["fields"] = [by_adt[ag["adt"]].get((i, f), f) for i, f in enumerate(ag["fields"])]
            t = blk["term"]
            for k in ("discr", "cond", "value"):
                if k in t:
                    fix_op(t[k])
            for a in t.get("args", []):
                fix_op(a)
            for k in ("dest", "place", "resume_arg"):
                if k in t and isinstance(t[k], dict):
                    fix_place(t[k])
        for d in b.j.get("dbg", []):
            fix_place(d["p"])
        b._defs = None


# ------------------------------------------------------------------ Option / Result combinators with an effectful closure
_COMB = {
    # name: (receiver adt, variant whose payload is handed to the closure, how the closure result is wrapped, what the other variant becomes)
    ("core::option::Option", "map"): ("Some", "Some", "none"),
    ("core::option::Option", "and_then"): ("Some", None, "none"),
    ("core::option::Option", "or_else"): ("None", None, "same"),
    ("core::option::Option", "unwrap_or_else"): ("None", None, "payload"),
    ("core::option::Option", "ok_or_else"): ("None", "Err", "ok-payload"),
    ("core::result::Result", "map"): ("Ok", "Ok", "same"),
    ("core::result::Result", "map_err"): ("Err", "Err", "same"),
    ("core::result::Result", "and_then"): ("Ok", None, "same"),
    ("core::result::Result", "or_else"): ("Err", None, "same"),
    ("core::result::Result", "unwrap_or_else"): ("Err", None, "payload"),
}
_VIDX = {"None": 0, "Some": 1, "Ok": 0, "Err": 1}
_OTHER = {"None": "Some", "Some": "None", "Ok": "Err", "Err": "Ok"}
_EFFECT_NAMES = {"send", "try_send", "fetch_add", "fetch_sub", "fetch_update", "compare_exchange", "compare_exchange_weak", "swap", "store",
                 "wake", "wake_by_ref", "register", "insert", "remove", "start_send", "poll_ready", "poll_flush", "poll_close", "close",
                 "push", "push_back", "extend", "consume", "advance", "write_all", "poll_write", "poll_shutdown", "take", "replace"}


def _closure_def_of(b, op):
    """def path of the closure passed as operand `op` in body `b` (const closure or a local assigned a Closure aggregate)."""
    if op.get("k") == "const":
        return op.get("closure")
    if op.get("k") in ("move", "copy") and not op["p"].get("p"):
        l = op["p"]["l"]
        for blk in b.j["blocks"]:
            for st in blk["stmts"]:
                if st["k"] == "Assign" and st["lhs"] == {"l": l} and st["rv"]["k"] == "Aggregate" and st["rv"]["agg"].get("a") == "Closure":
                    return st["rv"]["agg"].get("def")
    return None


def _effectful(facts, kb):
    for _bi, t in kb.calls():
        fn = t["func"].get("fn") if isinstance(t["func"], dict) else None
        if not fn:
            return True
        d = fn.get("res") or fn.get("dp")
        if d in facts.by_dp and facts.by_dp[d] is not kb:
            return True
        if fn.get("name") in _EFFECT_NAMES:
            return True
    return False


def comb_sites(facts, crate, b):
    out = []
    for bi, t in b.calls():
        fn = t["func"].get("fn") if isinstance(t["func"], dict) else None
        if not fn or len(t["args"]) != 2 or t.get("t") is None:
            continue
        dp = fn.get("dp") or ""
        adt = "core::option::Option" if dp.startswith("core::option::") else "core::result::Result" if dp.startswith("core::result::") else None
        if adt is None or (adt, fn.get("name")) not in _COMB:
            continue
        cd = _closure_def_of(b, t["args"][1])
        kb = facts.by_dp.get(cd) if cd else None
        if kb is None or kb not in crate.bodies or kb.j.get("coroutine") or len(kb.blocks) > MAX_BLOCKS:
            continue
        out.append((bi, adt, fn["name"], kb))
    return out


def comb_fp(name, kb):
    """Edit-stable fingerprint of a combinator site: the combinator and what its closure calls / builds."""
    calls = sorted(set((t["func"].get("fn") or {}).get("name", "?") for _bi, t in kb.calls() if isinstance(t["func"], dict)))
    aggs = sorted(set("%s::%s" % ((st["rv"]["agg"].get("adt") or st["rv"]["agg"].get("a") or "").split("::")[-1], st["rv"]["agg"].get("variant"))
                      for blk in kb.j["blocks"] for st in blk["stmts"]
                      if st["k"] == "Assign" and st["rv"]["k"] == "Aggregate" and st["rv"]["agg"].get("a") == "Adt"))
    return "%s|%s|%s" % (name, ",".join(calls), ",".join(aggs))


def comb_fps(facts, crate, fnb):
    out = []
    for b in crate.bodies:
        if b is fnb or b.path.startswith(fnb.path + "::{"):
            out += [comb_fp(name, kb) for _bi, _adt, name, kb in comb_sites(facts, crate, b)]
    return sorted(out)


def _agg(adt, variant, ops):
    return {"k": "Aggregate", "agg": {"a": "Adt", "adt": adt, "variant": variant, "vi": _VIDX[variant], "fields": ["0"] if ops else [], "targs": []}, "ops": ops}


def inline_combinator(j, bi, adt, name, kj):
    """Rewrite `dest = recv.<name>(closure)` at block `bi` of body JSON `j` into the explicit match, with the closure body `kj` inlined."""
    act, wrap, other = _COMB[(adt, name)]
    pas = _OTHER[act]
    blk = j["blocks"][bi]
    call = blk["term"]
    loc = call["loc"]
    nl = len(j["locals"])
    recv_l, discr_l, pay_l, env_l, res_l = nl, nl + 1, nl + 2, nl + 3, nl + 4
    rty = {"s": "_", "adt": adt, "targs": []}
    a0 = call["args"][0]
    if a0.get("k") in ("move", "copy") and not a0["p"].get("p"):
        rty = dict(j["locals"][a0["p"]["l"]])
    j["locals"] = j["locals"] + [rty, {"s": "isize"}, {"s": "_"}, {"s": "_"}, {"s": "_"}]
    blk["stmts"].append({"k": "Assign", "lhs": {"l": recv_l}, "rv": {"k": "Use", "ops": [a0]}, "loc": loc})
    blk["stmts"].append({"k": "Assign", "lhs": {"l": discr_l}, "rv": {"k": "Discriminant", "place": {"l": recv_l}}, "loc": loc})
    b_act, b_act2, b_pas = len(j["blocks"]), len(j["blocks"]) + 1, len(j["blocks"]) + 2
    tgt = {_VIDX[act]: b_act, _VIDX[pas]: b_pas}
    blk["term"] = {"k": "SwitchInt", "discr": {"k": "move", "p": {"l": discr_l}}, "targets": [[0, tgt[0]]], "otherwise": tgt[1], "loc": loc,
                   "combinator": name}
    payload = lambda v: {"k": "move", "p": {"l": recv_l, "p": [{"as": v, "v": _VIDX[v]}, {"f": "0", "i": 0, "o": adt}]}}
    # active arm: call the closure (then inlined)
    st = []
    clo = call["args"][1]
    cargs = []
    kargc = kj["argc"]
    if kargc >= 1:
        if kj["locals"][1]["s"].startswith("&") and clo.get("k") in ("move", "copy"):
            st.append({"k": "Assign", "lhs": {"l": env_l}, "rv": {"k": "Ref", "mut": kj["locals"][1]["s"].startswith("&mut"), "place": clo["p"]}, "loc": loc})
            cargs.append({"k": "move", "p": {"l": env_l}})
        else:
            cargs.append(clo)
    if act in ("Some", "Ok", "Err") and kargc >= 2:
        st.append({"k": "Assign", "lhs": {"l": pay_l}, "rv": {"k": "Use", "ops": [payload(act)]}, "loc": loc})
        cargs.append({"k": "move", "p": {"l": pay_l}})
    j["blocks"].append({"cleanup": False, "stmts": st,
                        "term": {"k": "Call", "func": {"k": "const", "fn": {"dp": kj["dp"], "name": "{closure}", "path": kj["path"], "def": kj["dp"]}},
                                 "args": cargs, "dest": {"l": res_l}, "t": b_act2, "unwind": call.get("unwind"), "loc": loc}})
    res = {"k": "move", "p": {"l": res_l}}
    rv = {"k": "Use", "ops": [res]} if wrap is None else _agg(adt if wrap in ("Some", "Ok") or adt.endswith("Result") else "core::result::Result", wrap, [res])
    if name == "ok_or_else":
        rv = _agg("core::result::Result", "Err", [res])
    j["blocks"].append({"cleanup": False, "stmts": [{"k": "Assign", "lhs": call["dest"], "rv": rv, "loc": loc}],
                        "term": {"k": "Goto", "t": call["t"], "loc": loc}})
    # passive arm
    if other == "none":
        prv = _agg("core::option::Option", "None", [])
    elif other == "same":
        prv = {"k": "Use", "ops": [{"k": "move", "p": {"l": recv_l}}]} if name in ("or_else",) and adt.endswith("Option") else \
            _agg(adt, pas, [payload(pas)])
    elif other == "payload":
        prv = {"k": "Use", "ops": [payload(pas)]}
    else:   # ok-payload
        prv = _agg("core::result::Result", "Ok", [payload(pas)])
    j["blocks"].append({"cleanup": False, "stmts": [{"k": "Assign", "lhs": call["dest"], "rv": prv, "loc": loc}],
                        "term": {"k": "Goto", "t": call["t"], "loc": loc}})
    inline_call(j, b_act, kj)


def comb_count(facts, crate, fnb):
    """Number of combinator calls with an effectful closure in the logical function `fnb` (the fn item and the bodies nested in it)."""
    n = 0
    for b in crate.bodies:
        if b is fnb or b.path.startswith(fnb.path + "::{"):
            n += len(comb_sites(facts, crate, b))
    return n


def apply_combinators(facts, log):
    """`opt.and_then(|x| { .. })`, `res.map(|x| ..)`, ... written where the pinned tree has an explicit match (or nothing): the combinator is
    expanded into that match and the closure body is inlined, so path / layout rules see what happens under the variant edge it depends on.
    Only sites the inventory does not know (by combinator + what the closure calls and builds) are touched: the pinned tree is analysed
    as written."""
    from collections import Counter
    inv = inventory()
    for crate in facts.crates.values():
        known = inv.get(crate.name)
        if known is None:
            continue
        for fnb in fn_items(crate):
            have = Counter(comb_fps(facts, crate, fnb))
            if not have:
                continue
            extra = have - Counter((known.get(fnb.path) or {}).get("combfp", []))
            if not extra:
                continue
            done = 0
            for _pass in range(12):
                progress = False
                for b in list(crate.bodies):
                    if not (b is fnb or b.path.startswith(fnb.path + "::{")):
                        continue
                    for bi, adt, name, kb in comb_sites(facts, crate, b):
                        fp = comb_fp(name, kb)
                        if extra.get(fp, 0) <= 0:
                            continue
                        extra[fp] -= 1
                        j = copy.deepcopy(b.j)
                        inline_combinator(j, bi, adt, name, kb.j)
                        nb = _rebuild(facts, crate, b, j)
                        if kb in crate.bodies:
                            crate.bodies.remove(kb)
                        if nb.dp in crate.children:
                            crate.children[nb.dp] = [x for x in crate.children[nb.dp] if x is not kb]
                        crate.children.setdefault(nb.dp, [])
                        _reparent(crate, kb.dp, nb.dp)
                        if b is fnb:
                            fnb = nb
                        done += 1
                        progress = True
                        break
                    if progress:
                        break
                if not progress:
                    break
            if done:
                log.append("expanded %d new Option/Result combinator site(s) in %s::%s into explicit matches" % (done, crate.name, fnb.path))


_ARITH = {"saturating_add": "Add", "wrapping_add": "Add", "saturating_sub": "Sub", "wrapping_sub": "Sub"}


def _uses_of_local(j, l):
    """Number of places that mention local `l` (as place base) in a body's JSON."""
    cnt = 0
    def rec(x):
        nonlocal cnt
        if isinstance(x, dict):
            if x.get("l") == l and ("p" in x or len(x) == 1 or "ty" in x):
                cnt += 1
            for v in x.values():
                rec(v)
        elif isinstance(x, list):
            for v in x:
                rec(v)
    rec(j["blocks"])
    return cnt


def apply_arith_methods(facts, log):
    """`a.saturating_add(b)` / `wrapping_add` / `saturating_sub` / `wrapping_sub` on primitive integers are read as `a + b` / `a - b`.
    The rules only look at which value is combined with which (the forms differ on overflow alone, where the saturating / wrapping
    forms are the defensive spelling), so hardening an increment or decrement this way does not change any verdict."""
    for crate in facts.crates.values():
        if crate.name.startswith("__"):
            continue
        n = 0
        for b in list(crate.bodies):
            sites = []
            for bi, t in b.calls():
                fn = t["func"].get("fn") if isinstance(t["func"], dict) else None
                narrow = any(k in str(fn.get("path") if fn else "") for k in ("impl u8>", "impl u16>", "impl i8>", "impl i16>"))
                # on 8- / 16-bit operands the saturating / wrapping forms differ from + / - for values a protocol field can take
                # (a length octet of 254): they are left as calls, which the bounds / layout rules do not accept as linear arithmetic
                if fn and not narrow and fn.get("name") in _ARITH and (fn.get("dp") or "").startswith("core::num::") and len(t["args"]) == 2 \
                        and t.get("t") is not None:
                    sites.append((bi, _ARITH[fn["name"]]))
            if not sites:
                continue
            j = copy.deepcopy(b.j)
            for bi, op in sites:
                blk = j["blocks"][bi]
                t = blk["term"]
                rv = {"k": "BinaryOp", "op": op, "ops": list(t["args"])}
                tgt = j["blocks"][t["t"]]
                first = tgt["stmts"][0] if tgt["stmts"] else None
                d = t["dest"]
                moved = (first is not None and first["k"] == "Assign" and first["rv"]["k"] == "Use" and not d.get("p")
                         and first["rv"]["ops"][0].get("k") == "move" and first["rv"]["ops"][0]["p"] == {"l": d["l"]}
                         and _uses_of_local(j, d["l"]) == 2)
                if moved:
                    # `x = x.saturating_sub(1)`: write the result where `x -= 1` writes it (same shape as the plain operator)
                    first["rv"] = rv
                else:
                    blk["stmts"].append({"k": "Assign", "lhs": d, "rv": rv, "loc": t["loc"]})
                blk["term"] = {"k": "Goto", "t": t["t"], "loc": t["loc"]}
                n += 1
            _rebuild(facts, crate, b, j)
        if n:
            log.append("%d saturating/wrapping add/sub call(s) in %s read as plain + / -" % (n, crate.name))


def apply(facts):
    log = []
    if not os.path.exists(INV):
        return log
    apply_field_renames(facts, log)
    apply_renames(facts, log)
    apply_inlining(facts, log)
    apply_arith_methods(facts, log)
    apply_combinators(facts, log)
    facts.normalize_log = log
    return log


def gen_inventory(all_facts):
    """Union over the configurations of the pinned tree."""
    out = {}
    for facts in all_facts:
        for crate in facts.crates.values():
            if not crate.bodies:
                continue
            d = out.setdefault(crate.name, {})
            for b in fn_items(crate):
                e = d.setdefault(b.path, {"name": b.name, "owner": owner_of(b), "sig": sig_of(b)})
                from collections import Counter
                m = Counter(e.get("combfp", [])) | Counter(comb_fps(facts, crate, b))     # per fingerprint, the maximum over the configurations
                if m:
                    e["combfp"] = sorted(m.elements())
            ads = out.setdefault("__adts__", {})
            for dp, a in crate.adts.items():
                if a.get("local"):
                    ads.setdefault(dp, adt_shape(a))
            import whomay
            wm = out.setdefault("__whomay__", {})
            tb_ = whomay.table(facts)
            for eff, fns in tb_.items():
                wm[eff] = sorted(set(wm.get(eff, [])) | set(fns))
            wc = out.setdefault("__whomay_callers__", {})
            for f_, cs_ in whomay.callers_closure(facts, set(x for fns in tb_.values() for x in fns)).items():
                wc[f_] = sorted(set(wc.get(f_, [])) | set(cs_))
            cs = out.setdefault("__consts__", {})
            for dp in crate.consts:
                cs[dp] = 1
            for b in crate.bodies:
                if b.kind.startswith(("Const", "AssocConst", "Static", "InlineConst", "AnonConst")):
                    cs[b.dp] = 1
    return out
