"""C19 Client survives connection loss: control structure of the reconnect machinery."""
from an import (Tracer, Explorer, guard_at, strip, strip_casts, walk, fmt, callee, const_eval, Inter)
from muxcommon import edge_literals_dominating
from mir import loc_str, is_noise
import rules_c03

EXPLANATION = (
    "(R1) In the connected main loop (tokio::select!), the arm whose payload type is the task JoinSet's "
    "join_next output has no path back to the loop head: when the multiplexor task ends, with or without error, "
    "the client must leave the loop (otherwise it keeps running on a dead multiplexor); (R2) no lost request: "
    "in the stream-request helper every error return other than Cancelled is preceded by parking the request "
    "(failed_stream_request.replace(stream_command)), and the connected function takes and retries the parked "
    "request before entering the loop; (R3) Backoff::reset is called only in a continuation attached to the "
    "connected future inside the and_then continuation of the handshake, i.e. only after a handshake succeeded; "
    "(R4) the immediate `return r` lies on the retryable() == false edge and the retry branch calls advance() and "
    "returns MaxRetryCountReached on None; (R5) Backoff::new(200 ms, max_retry_interval ms, 2, max_retry_count); "
    "(R6) listener spawns live outside the retry loop.")
EXPLANATION_ADDED = "(R7) Backoff::advance clamps both the stored state and the returned delay by max; (R8) the retryable() tables classify the connection-lost variants as retryable and delegate for wrapping variants; R1 also covers the select's else arm; R4 also requires the wait to be the delay returned by advance()."
EXPLANATION_ADDED2 = " (R9) handshake_timeout is armed around the whole connection attempt; (R10) the stream-request channel is acquired by awaiting only; R3 also requires reset() to act on the loop's generator (by-reference capture); R7 also decides the give-up predicate and count-by-one; R8 also evaluates the io::Error classifier per ErrorKind over its CFG (11 connection-loss kinds retryable, 6 fatal kinds fatal), the wildcard arms (fatal) and the tungstenite / tls tables; (R11) every conversion into the client Error on the connect path carries the error it converts (map_err mappers and Err-edge constructions)."
EXPLANATION = EXPLANATION + " Added while testing against seeded changes: " + EXPLANATION_ADDED + EXPLANATION_ADDED2
EXPLANATION = EXPLANATION + ' Round 10: R7 also requires advance to multiply the stored delay by `mult` and reset to restore `initial` and count 0.'
EXPLANATION = EXPLANATION + ' Rounds 14-15: (R12) the timer raced against a stream request is the configured channel_timeout itself.'
EXPLANATION = EXPLANATION + ' Rounds 16-17: (R13) the wait before a retry is the value returned by Backoff::advance() itself.'
EXPLANATION = EXPLANATION + ' Round 18: R10 also rejects batch dequeues (recv_many) of stream requests: there is one parking slot.'
ASSUMPTIONS = ["Duration arithmetic of Backoff::advance: only the clamping structure is decided (R7: stored state and returned delay are both bounded by max); the numeric delay sequence is left to the repository's unit tests"]
NOT_DECIDED = "the delay values and the timing of attempts"
QUICK_CONFIGS = ["default"]
THOROUGH_CONFIGS = ["penguin-client-only", "penguin-native-tls"]


def upname(b, node):
    out = set()
    for x in walk(node):
        if x.kind == "field" and x[2].isdigit() and strip(x[1]).kind == "param" and strip(x[1])[1] == 1:
            out.add(b.upvar_names.get(int(x[2])))
        if x.kind == "param":
            out.add(x[2])
    return out


def check(facts, rep, tier, cfg):
    crate = facts.crate("rusty_penguin_lib")
    if crate is None:
        rep.bad("C19.R1", "crate", "", "rusty_penguin_lib facts missing")
        return
    if "client" not in crate.features:
        rep.info("client feature not enabled in configuration %s" % cfg)
        return
    # ---- R1
    rep.rule("C19.R1", "select arm fed by JoinSet::join_next has no path back to the connected loop's head")
    n1 = 0
    for b in crate.bodies:
        if not any(callee(t) and callee(t)["name"] == "join_next" for _, t in b.calls()):
            continue
        tr = Tracer(facts, b)
        for bb in range(len(b.blocks)):
            if b.term(bb)["k"] != "SwitchInt":
                continue
            g = guard_at(facts, b, tr, bb)
            if not (g and g.kind == "discr" and g.adt and g.adt.endswith("__tokio_select_util::Out")):
                continue
            # the Out<..> type arguments
            t = b.term(bb)
            dn = t["discr"]
            outty = None
            for x in walk(g.pred):
                pass
            # find the local whose type is Out<...>
            for blk in b.blocks:
                for s in blk["stmts"]:
                    if s["k"] == "Assign" and s["rv"]["k"] == "Discriminant":
                        pl = s["rv"]["place"]
                        ty = pl.get("ty") or b.locals[pl["l"]]
                        if ty.get("adt", "").endswith("__tokio_select_util::Out") and not pl.get("p"):
                            outty = ty
            if outty is None:
                continue
            targs = outty.get("targs", [])
            arm = None
            for k, ta in enumerate(targs):
                if "JoinError" in ta and "penguin_mux::Error" in ta:
                    arm = "_%d" % k
            if arm is None:
                continue
            # in cycle with the select switch = the connected loop
            if bb not in b.reachable_from(b.succ[bb][0]) and not any(bb in b.reachable_from(s) for s in b.succ[bb]):
                continue
            n1 += 1
            rep.analysed(b)
            succs = [s for s, v in g.edges if v == arm]
            where = "%s (%s)" % (loc_str(b.term(bb)["loc"]), b.path)
            if not succs:
                rep.bad("C19.R1", "join-arm", where, "no select arm handles the multiplexor task's exit")
                continue
            back = bb in b.reachable_from(succs[0])
            if back:
                # witness: shortest path back
                rep.bad("C19.R1", "join-arm-leaves-loop", where,
                        "when the multiplexor task ends without error (`Ok(())`, e.g. the server closed the WebSocket in an orderly way) the "
                        "select arm falls through to the next loop iteration: the client keeps running on a dead multiplexor "
                        "(datagrams dropped, no reconnect) until some other arm fails")
            else:
                rep.ok("C19.R1", "join-arm-leaves-loop", where, "arm %s (JoinSet result) always leaves the loop" % arm)
    rep.floor("C19.R1", "connected select loops watching the mux task", n1, 1)
    # ---- R2
    rep.rule("C19.R2", "no lost request: park on every non-Cancelled error; take + retry before the loop")
    n2 = 0
    for b in crate.bodies:
        reps = [(bi, t) for bi, t in b.calls() if callee(t) and callee(t)["name"] == "replace" and "option::Option" in callee(t)["def"]
                and "StreamCommand" in callee(t)["path"]]
        if not reps:
            continue
        n2 += 1
        rep.analysed(b)
        tr = Tracer(facts, b)
        rb = set(bi for bi, _ in reps)
        where = "%s (%s)" % (loc_str(b.loc), b.path)

        def on_term(bb, t, auto, store):
            if bb in rb:
                return (True, auto[1])
            return auto

        def on_stmt(bb, i, s, auto):
            if s["k"] == "Assign" and s["lhs"]["l"] == 0 and not s["lhs"].get("p") and s["rv"]["k"] == "Aggregate" and \
                    s["rv"]["agg"].get("adt", "").endswith("result::Result"):
                if s["rv"]["agg"]["variant"] == "Err":
                    e = strip(tr.operand(s["rv"]["ops"][0]))
                    nm = e[2].split("::")[-1] if e.kind == "agg" else "other"
                    return (auto[0], "Err:" + nm)
                return (auto[0], "Ok")
            return auto
        ex = Explorer(facts, b, on_stmt=on_stmt, on_term=on_term)
        fin = ex.run(0, (False, None))
        rep.paths += len(ex.seen)
        bad = [auto for st, auto, kind in fin if kind == "Return" and auto[1] and auto[1].startswith("Err:") and auto[1] != "Err:Cancelled" and not auto[0]]
        oks = [auto for st, auto, kind in fin if kind == "Return" and auto[1] and auto[1].startswith("Err:") and auto[1] != "Err:Cancelled" and auto[0]]
        if bad:
            rep.bad("C19.R2", "park-on-error", where, "an error return (%s) is not preceded by parking the stream request: the local connection that asked for the stream is dropped instead of being served by the next connection" % sorted(set(a[1] for a in bad)))
        elif oks:
            rep.ok("C19.R2", "park-on-error", where, "%d error-return classes all park the request first" % len(set(a[1] for a in oks)))
        else:
            rep.bad("C19.R2", "park-on-error", where, "no error return found in the stream-request helper")
        # what is parked is the request itself
        for bi, t in reps:
            v = upname(b, tr.operand(t["args"][1]))
            tgt = upname(b, tr.operand(t["args"][0]))
            if "stream_command" in v and "failed_stream_request" in tgt:
                rep.ok("C19.R2", "parks-the-request", "%s (%s)" % (loc_str(t["loc"]), b.path), "failed_stream_request.replace(stream_command)", nontrivial=False)
            else:
                rep.bad("C19.R2", "parks-the-request", "%s (%s)" % (loc_str(t["loc"]), b.path), "replace() parks %s into %s" % (sorted(v, key=str), sorted(tgt, key=str)))
    rep.floor("C19.R2", "request-parking helpers", n2, 1)
    for b in crate.bodies:
        takes = [(bi, t) for bi, t in b.calls() if callee(t) and callee(t)["name"] == "take" and "StreamCommand" in callee(t)["path"]]
        if not takes:
            continue
        tr = Tracer(facts, b)
        rep.analysed(b)
        where = "%s (%s)" % (loc_str(takes[0][1]["loc"]), b.path)
        gs = [(bi, t) for bi, t in b.calls() if callee(t) and callee(t)["name"] == "get_send_stream_chan"]
        sel = [bb for bb in range(len(b.blocks)) if b.term(bb)["k"] == "SwitchInt" and (guard_at(facts, b, tr, bb) or 0) and
               getattr(guard_at(facts, b, tr, bb), "adt", None) and guard_at(facts, b, tr, bb).adt.endswith("__tokio_select_util::Out")]
        ok = False
        for gbi, gt in gs:
            if any(x.kind == "call" and x[6] == "take" for x in walk(tr.operand(gt["args"][1]))):
                if sel and all(b.dominates(takes[0][0], s) for s in sel) and not any(gbi in b.reachable_from(b.succ[s][0]) for s in sel):
                    ok = True
        (rep.ok if ok else rep.bad)("C19.R2", "retry-parked-first", where,
                                    "parked request taken and retried before the select loop" if ok else "the parked request is not taken and retried before entering the connected loop")
    # ---- R3 reset placement
    rep.rule("C19.R3", "Backoff::reset only in a continuation of the connected future inside the handshake's and_then")
    n3 = 0
    inter = Inter(facts)
    for b in crate.bodies:
        for bi, t in b.calls():
            c = callee(t)
            if c and c["name"] == "reset" and "Backoff" in c["def"] and "/src/client/" in b.file:
                n3 += 1
                rep.analysed(b)
                where = "%s (%s)" % (loc_str(t["loc"]), b.path)
                ok = False
                cs = inter.creation_site(b) if b.kind == "Closure" else None
                if cs:
                    parent, _ = cs
                    ptr = inter.tracer(parent)
                    for pbi, pt in parent.calls():
                        pc = callee(pt)
                        if pc and pc["name"] in ("inspect_err", "inspect_ok", "map_err", "map_ok", "inspect") and len(pt["args"]) == 2:
                            an = strip(ptr.operand(pt["args"][1]))
                            if an.kind == "agg" and an[2] == b.dp and any(x.kind == "call" and x[6] == "on_connected" for x in walk(ptr.operand(pt["args"][0]))):
                                cs2 = inter.creation_site(parent) if parent.kind == "Closure" else None
                                if cs2:
                                    gp, _ = cs2
                                    gtr = inter.tracer(gp)
                                    for gbi, gt in gp.calls():
                                        gc = callee(gt)
                                        if gc and gc["name"] == "and_then" and len(gt["args"]) == 2:
                                            gan = strip(gtr.operand(gt["args"][1]))
                                            if gan.kind == "agg" and gan[2] == parent.dp and any(x.kind == "call" and x[6] == "handshake" for x in walk(gtr.operand(gt["args"][0]))):
                                                ok = True
                # the reset acts on the loop's own generator: inside a closure the receiver is a dereferenced (by-reference) capture
                if b.kind == "Closure":
                    recv_l = (t["args"][0].get("p") or {}).get("l")
                    byref = None
                    for blk2 in b.blocks:
                        for s2 in blk2["stmts"]:
                            if s2["k"] == "Assign" and s2["lhs"]["l"] == recv_l and not s2["lhs"].get("p") and s2["rv"]["k"] == "Ref":
                                pr2 = s2["rv"]["place"].get("p") or []
                                if s2["rv"]["place"]["l"] == 1:
                                    fidx = [k for k, e in enumerate(pr2) if isinstance(e, dict) and "f" in e]
                                    byref = bool(fidx) and "*" in pr2[fidx[-1] + 1:]
                    if byref is False:
                        rep.bad("C19.R3", "reset-on-loop-generator", where,
                                "the closure that calls reset() owns a COPY of the back-off generator (captured by value: Backoff is Copy), so the "
                                "loop's generator is never reset: delays keep growing and max_retry_count counts all failures, not consecutive ones")
                    elif byref:
                        rep.ok("C19.R3", "reset-on-loop-generator", where, "reset() acts on the generator captured by mutable reference")
                    else:
                        rep.bad("C19.R3", "reset-on-loop-generator", where, "cannot determine how the closure captures the back-off generator (fail closed)")
                (rep.ok if ok else rep.bad)("C19.R3", "reset-after-connect-only", where,
                                            "reset() reachable only after a successful handshake" if ok else
                                            "Backoff::reset is called outside the continuation of a successful connection (back-off would restart from the shortest delay although no connection was established)")
    rep.floor("C19.R3", "Backoff::reset call sites", n3, 1)
    # ---- R4 / R5 / R6 in the retry loop body
    rep.rule("C19.R4", "non-retryable -> immediate return; retryable -> advance(); None -> MaxRetryCountReached")
    rep.rule("C19.R5", "Backoff::new(200 ms, max_retry_interval ms, 2, max_retry_count)")
    rep.rule("C19.R6", "listener spawns outside the retry loop")
    n4 = [0]
    for b in crate.bodies:
        if not any(callee(t) and callee(t)["name"] == "advance" and "Backoff" in callee(t)["def"] for _, t in b.calls()):
            continue
        if "/src/client/" not in b.file:
            continue
        n4[0] += 1
        tr = Tracer(facts, b)
        rep.analysed(b)
        where = "%s (%s)" % (loc_str(b.loc), b.path)
        # R5
        for bi, t in b.calls():
            c = callee(t)
            if c and c["name"] == "new" and "Backoff" in c["def"]:
                a = [tr.operand(x) for x in t["args"]]
                def millis(n):
                    n = strip(n)
                    return n if n.kind == "call" and n[6] == "from_millis" else None
                m0, m1 = millis(a[0]), millis(a[1])
                ok = m0 is not None and const_eval(m0[3][0]) == 200 and m1 is not None and \
                    rules_c03._flat_fields(m1[3][0]) == {"ClientArgs.max_retry_interval"} and const_eval(a[2]) == 2 and \
                    rules_c03._flat_fields(a[3]) == {"ClientArgs.max_retry_count"}
                (rep.ok if ok else rep.bad)("C19.R5", "backoff-parameters", "%s (%s)" % (loc_str(t["loc"]), b.path),
                                            "Backoff::new(200ms, max_retry_interval, 2, max_retry_count)" if ok else
                                            "back-off generator built with %s" % [fmt(strip(x))[:60] for x in a])
        # R4
        rets = [bi for bi, blk in enumerate(b.blocks) for s in blk["stmts"] if s["k"] == "Assign" and s["lhs"]["l"] == 0 and not s["lhs"].get("p")
                and s["rv"]["k"] == "Use"]
        adv = [bi for bi, t in b.calls() if callee(t) and callee(t)["name"] == "advance"][0]
        ok4 = False
        for bb in range(len(b.blocks)):
            if b.term(bb)["k"] != "SwitchInt":
                continue
            g = guard_at(facts, b, tr, bb)
            if g and g.kind == "bool" and strip(g.pred).kind == "call" and strip(g.pred)[6] == "retryable":
                f_succ = [s for s, v in g.edges if v is False][0]
                t_succ = [s for s, v in g.edges if v is True][0]
                imm = [r for r in rets if b.edge_dominates((bb, f_succ), r)]
                if imm and b.edge_dominates((bb, t_succ), adv) and adv not in b.reachable_from(f_succ, cut={bb}):
                    ok4 = True
        (rep.ok if ok4 else rep.bad)("C19.R4", "retryable-classification", where,
                                     "return r on !retryable(); advance() on retryable()" if ok4 else
                                     "the immediate return is not on the retryable() == false edge / advance() not on the true edge")
        okm = False
        for bb in range(len(b.blocks)):
            if b.term(bb)["k"] != "SwitchInt":
                continue
            g = guard_at(facts, b, tr, bb)
            if g and g.kind == "discr" and g.adt and g.adt.endswith("option::Option") and any(x.kind == "call" and x[6] == "advance" for x in walk(g.pred)):
                ns = [s for s, v in g.edges if v == "None"]
                if ns:
                    reach = b.reachable_from(ns[0], cut={bb})
                    if any(s["k"] == "Assign" and s["rv"]["k"] == "Aggregate" and s["rv"]["agg"].get("variant") == "MaxRetryCountReached"
                           for x in reach for s in b.blocks[x]["stmts"]):
                        okm = True
        (rep.ok if okm else rep.bad)("C19.R4", "give-up-on-none", where,
                                     "advance() == None -> Err(MaxRetryCountReached)" if okm else "exhausting the retry budget does not end the client with MaxRetryCountReached")
        # R6
        spawns_here = [bi for bi, t in b.calls() if callee(t) and callee(t)["name"] == "spawn" and any(
            x.kind == "call" and x[6] == "handle_remote" for x in walk(tr.operand(t["args"][-1])))]
        if spawns_here:
            rep.bad("C19.R6", "listeners-outside-retry-loop", where, "listeners are spawned inside the reconnect loop body (they would be re-created / dropped on every reconnect)")
        else:
            outer = [ob for ob in crate.bodies for bi, t in ob.calls() if callee(t) and callee(t)["name"] == "spawn" and any(
                x.kind == "call" and x[6] == "handle_remote" for x in walk(Tracer(facts, ob).operand(t["args"][-1])))] if False else []
            found = False
            for ob in crate.bodies:
                if "client_main_inner" in ob.path and ob is not b:
                    otr = None
                    for bi, t in ob.calls():
                        c = callee(t)
                        if c and c["name"] == "spawn" and "JoinSet" in c["def"]:
                            otr = otr or Tracer(facts, ob)
                            if any(x.kind == "call" and x[6] == "handle_remote" for x in walk(otr.operand(t["args"][-1]))):
                                found = True
            (rep.ok if found else rep.bad)("C19.R6", "listeners-outside-retry-loop", where,
                                           "handle_remote listeners spawned once, outside the retry loop" if found else "listener spawn site not found")
    rep.floor("C19.R4", "client retry loops", n4[0], 1)
    # ---- R7 the back-off generator: stored state bounded, returned delay clamped, count bounded only when max_count != 0
    rep.rule("C19.R7", "Backoff::advance: the delay returned and the state stored are both clamped by `max` (state = min(current, max) * mult "
                       "or min(.., max)); None only on max_count != 0 && count >= max_count; reset restores `initial` and 0")
    mux = facts.crate("penguin_mux")
    k7 = 0
    for b in (mux.bodies if mux else []):
        if b.kind != "AssocFn" or b.j.get("impl_self", {}).get("adt", "").split("::")[-1] != "Backoff":
            continue
        if b.name == "advance":
            tr = Tracer(facts, b)
            rep.analysed(b)

            def clamped(node):
                node = strip(node)
                return node.kind == "call" and node[6] == "min" and any(x.kind == "field" and x[2] == "max" for a in node[3] for x in walk(a))
            for bi, blk in enumerate(b.blocks):
                for s in blk["stmts"]:
                    pr = s["lhs"].get("p") or [] if s["k"] == "Assign" else []
                    fl = [e["f"] for e in pr if isinstance(e, dict) and "f" in e]
                    if not fl or fl[-1] != "current":
                        continue
                    k7 += 1
                    where = "%s (%s)" % (loc_str(s["loc"]), b.path)
                    v = strip(tr.rvalue(s["rv"]))
                    ok = clamped(v) or (v.kind == "call" and v[6] in ("mul", "saturating_mul", "checked_mul") and any(clamped(a) for a in v[3])) \
                        or (v.kind == "bin" and v[1].startswith("Mul") and (clamped(v[2]) or clamped(v[3])))
                    if ok:
                        rep.ok("C19.R7", "state-bounded", where, "current <- min(current, max) * mult")
                    else:
                        rep.bad("C19.R7", "state-bounded", where,
                                "the stored back-off state `current` grows without the clamp by `max` (%s): after enough consecutive failures the "
                                "multiplication overflows and the client task panics instead of retrying forever" % fmt(v)[:80])
            # None exactly on `max_count != 0 && count >= max_count`; count advances by one per call
            nones = [bi for bi, blk in enumerate(b.blocks) if not blk["cleanup"] for st in blk["stmts"]
                     if st["k"] == "Assign" and st["lhs"]["l"] == 0 and not st["lhs"].get("p") and st["rv"]["k"] == "Aggregate"
                     and st["rv"]["agg"].get("variant") == "None"]

            def lim_nonzero(g):
                p0 = strip_casts(g.pred)
                if g.kind == "bool" and p0.kind == "bin" and const_eval(p0[3]) == 0 and any(x.kind == "field" and x[2] == "max_count" for x in walk(p0[2])):
                    return {"Ne": {True}, "Eq": {False}, "Gt": {True}}.get(p0[1])
                return None

            def count_reached(g):
                p0 = strip_casts(g.pred)
                if g.kind == "bool" and p0.kind == "bin" and any(x.kind == "field" and x[2] == "count" for x in walk(p0[2])) and \
                        any(x.kind == "field" and x[2] == "max_count" for x in walk(p0[3])):
                    return {"Ge": {True}, "Lt": {False}}.get(p0[1])
                return None
            k7 += 1
            wn = "%s (%s)" % (loc_str(b.loc), b.path)
            if nones and all(edge_literals_dominating(facts, b, tr, nb, lim_nonzero) and edge_literals_dominating(facts, b, tr, nb, count_reached) for nb in nones):
                rep.ok("C19.R7", "give-up-predicate", wn, "None only on max_count != 0 && count >= max_count")
            else:
                rep.bad("C19.R7", "give-up-predicate", wn, "Backoff::advance does not return None exactly on `max_count != 0 && count >= max_count` "
                                                          "(gives up although max_retry_count is 0, one attempt early / late, or never)")
            incs = []
            for bi, blk in enumerate(b.blocks):
                for st in blk["stmts"]:
                    pr = (st["lhs"].get("p") or []) if st["k"] == "Assign" else []
                    fl = [e["f"] for e in pr if isinstance(e, dict) and "f" in e]
                    if fl and fl[-1] == "count":
                        v = strip(tr.rvalue(st["rv"]))
                        incs.append(v.kind == "bin" and v[1].startswith("Add") and const_eval(v[3]) == 1)
            k7 += 1
            if incs == [True]:
                rep.ok("C19.R7", "count-by-one", wn, "count += 1 once per call")
            else:
                rep.bad("C19.R7", "count-by-one", wn, "the retry counter is not advanced by exactly one per Backoff::advance (max_retry_count counts wrongly)")
            r0 = tr.local(0)
            somes = [x for x in walk(r0) if x.kind == "agg" and x[2].endswith("Option::Some")]
            k7 += 1
            if somes and all(any(clamped(y) for y in walk(x)) for x in somes):
                rep.ok("C19.R7", "delay-clamped", "%s (%s)" % (loc_str(b.loc), b.path), "Some(min(current, max))")
            else:
                rep.bad("C19.R7", "delay-clamped", "%s (%s)" % (loc_str(b.loc), b.path), "the returned delay is not clamped by `max`")
        def field_stores(body, fname):
            out = []
            t2 = Tracer(facts, body)
            for bi2, blk2 in enumerate(body.blocks):
                if bi2 not in body.reach0:
                    continue
                for s2 in blk2["stmts"]:
                    pr2 = s2["lhs"].get("p") or [] if s2["k"] == "Assign" else []
                    fl2 = [e["f"] for e in pr2 if isinstance(e, dict) and "f" in e]
                    if fl2 and fl2[-1] == fname:
                        out.append(strip(t2.rvalue(s2["rv"])))
            return out
        if b.name == "advance":
            grows = [v for v in field_stores(b, "current")
                     if any((x.kind == "bin" and x[1].startswith("Mul")) or (x.kind == "call" and x[6] in ("mul", "saturating_mul", "checked_mul")) for x in walk(v))
                     and any(x.kind == "field" and x[2] == "mult" for x in walk(v))]
            wg = "%s (%s)" % (loc_str(b.loc), b.path)
            if grows:
                rep.ok("C19.R7", "state-grows", wg, "current <- (..) * mult on every advance")
            else:
                rep.bad("C19.R7", "state-grows", wg, "Backoff::advance never multiplies the stored delay by `mult`: the k-th delay is not 200 ms x 2^k but stays constant")
        if b.name == "reset":
            cur = field_stores(b, "current")
            cnt = field_stores(b, "count")
            wr = "%s (%s)" % (loc_str(b.loc), b.path)
            okr = any(v.kind == "field" and v[2] == "initial" for v in cur) and any(const_eval(v) == 0 for v in cnt)
            if okr:
                rep.ok("C19.R7", "reset-restores", wr, "current <- initial, count <- 0")
            else:
                rep.bad("C19.R7", "reset-restores", wr, "Backoff::reset does not restore both the initial delay and the zero retry count: after a successful "
                                                        "connection the next failure does not start again from the shortest delay / the give-up count keeps accumulating")
    if mux is not None:
        rep.floor("C19.R7", "Backoff::advance obligations", k7, 2)
    # ---- R8 classification of the errors that mean "connection lost / could not be established"
    rep.rule("C19.R8", "retryable(): the variants that stand for a lost / not-established connection are classified true "
                       "(client: HandshakeTimeout, StreamRequestTimeout, ServerDisconnected; mux: KeepaliveTimeout, Closed) and the wrapping "
                       "variants delegate to the inner error's classification")
    WANT = {
        "rusty_penguin_lib::client::Error": {"HandshakeTimeout": True, "StreamRequestTimeout": True, "ServerDisconnected": True,
                                             "Tungstenite": "call", "TcpConnect": "call", "Tls": "call", "Mux": "call"},
        "penguin_mux::Error": {"KeepaliveTimeout": True, "Closed": True, "WebSocket": "call"},
        "tungstenite::error::Error": {"AlreadyClosed": True, "ConnectionClosed": True, "Io": "call", "Protocol": "call"},
        "tungstenite::error::ProtocolError": {"ResetWithoutClosingHandshake": True, "HandshakeIncomplete": True,
                                              "ReceivedAfterClosing": True, "SendAfterClosing": True},
        "rusty_penguin_lib::tls::Error": {"TcpConnect": "call"},
    }
    k8 = 0
    for b in crate.bodies:
        if b.name != "retryable" or "maybe_retryable" not in b.path:
            continue
        adt = b.j.get("impl_self", {}).get("adt")
        if adt not in WANT:
            continue
        tr = Tracer(facts, b)
        rep.analysed(b)
        where = "%s (%s)" % (loc_str(b.loc), b.path)
        # assignments to the return place
        rets = []
        for bi, blk in enumerate(b.blocks):
            if blk["cleanup"]:
                continue
            for st in blk["stmts"]:
                if st["k"] == "Assign" and st["lhs"]["l"] == 0 and not st["lhs"].get("p"):
                    v = strip(tr.rvalue(st["rv"]))
                    cv = const_eval(v)
                    rets.append((bi, bool(cv) if cv is not None else "call"))
            t = blk["term"]
            if t["k"] == "Call" and (t.get("dest") or {}).get("l") == 0 and not (t.get("dest") or {}).get("p"):
                rets.append((bi, "call"))
        table = {}
        for gb in range(len(b.blocks)):
            if b.term(gb)["k"] != "SwitchInt":
                continue
            g = guard_at(facts, b, tr, gb)
            if g is None or g.kind != "discr" or g.adt != adt:
                continue
            for succ, v in g.edges:
                for rb, val in rets:
                    if b.edge_dominates((gb, succ), rb) or rb == succ:
                        if isinstance(v, str) and not v.startswith("!"):
                            table.setdefault(v, set()).add(val)
                        elif isinstance(v, str):
                            table.setdefault("*", set()).add(val)
                        elif v is None:
                            table.setdefault("*", set()).add(val)
        for var, want in WANT[adt].items():
            k8 += 1
            got = table.get(var) or table.get("*") or set()
            if got == {want}:
                rep.ok("C19.R8", "%s::%s" % (r8name(adt), var), where, "-> %s" % want)
            else:
                rep.bad("C19.R8", "%s::%s" % (r8name(adt), var), where,
                        "%s::%s is classified %s by retryable(), expected %s: a connection lost / not established for this reason ends the "
                        "client (or drops the parked request) instead of being retried" % (adt.split("::")[-1], var, sorted(map(str, got)), want))
    rep.floor("C19.R8", "classified variants", k8, 19)
    # ---- R1 (else arm) / R4 (delay source)
    for b in crate.bodies:
        if "/src/client/" not in b.file:
            continue
        tr = None
        for gb in range(len(b.blocks)):
            if b.term(gb)["k"] != "SwitchInt":
                continue
            tr = tr or Tracer(facts, b)
            g = guard_at(facts, b, tr, gb)
            if g is None or g.kind != "discr" or not g.adt or not g.adt.endswith("__tokio_select_util::Out"):
                continue
            if not any(callee(t) and callee(t)["name"] == "join_next" for _, t in b.calls()) or \
                    not any(callee(t) and callee(t)["name"] == "get_datagram" for _, t in b.calls()):
                continue
            dis = [succ for succ, v in g.edges if v == "Disabled"]
            where = "%s (%s)" % (loc_str(b.term(gb)["loc"]), b.path)
            sd = set()
            for bi, blk in enumerate(b.blocks):
                for st in blk["stmts"]:
                    if st["k"] == "Assign" and st["rv"]["k"] == "Aggregate" and st["rv"]["agg"].get("variant") == "ServerDisconnected":
                        sd.add(bi)
            rets = set(x for x in range(len(b.blocks)) if b.term(x)["k"] == "Return")
            if not dis:
                rep.bad("C19.R1", "else-arm", where, "the connected loop's select has no `else` arm (all sources closed = connection gone)")
            elif any(rets & b.reachable_from(d, cut=sd) for d in dis):
                rep.bad("C19.R1", "else-arm", where,
                        "the `else` arm of the connected loop (every source closed: the multiplexor is gone) can leave the function without "
                        "Err(ServerDisconnected): the client exits as if the user had quit instead of reconnecting")
            else:
                rep.ok("C19.R1", "else-arm", where, "else => Err(ServerDisconnected)")
        for bi, t in b.calls():
            c = callee(t)
            if c and c["name"] == "timeout" and "tokio::time" in c["def"] and any(callee(t2) and callee(t2)["name"] == "advance" and "Backoff" in callee(t2)["def"] for _, t2 in b.calls()):
                tr = tr or Tracer(facts, b)
                where = "%s (%s)" % (loc_str(t["loc"]), b.path)
                d = tr.operand(t["args"][0])
                if any(x.kind == "call" and x[6] == "advance" for x in walk(d)):
                    rep.ok("C19.R4", "delay-from-backoff", where, "the wait before the next attempt is the value returned by Backoff::advance")
                else:
                    rep.bad("C19.R4", "delay-from-backoff", where, "the wait before the next attempt (`%s`) is not the delay returned by Backoff::advance" % fmt(strip(d))[:60])
    # ---- R9 the handshake timeout bounds the whole connection attempt (TCP connect + TLS + upgrade), not one step of it
    rep.rule("C19.R9", "handshake_timeout races the complete handshake_inner future (same select / timeout wrapper): a stall at any step of the "
                       "attempt ends with HandshakeTimeout and is retried")
    k9 = 0
    for b in crate.bodies:
        if "/src/client/" not in b.file:
            continue
        inner = [bi for bi, t in b.calls() if callee(t) and callee(t)["name"] == "handshake_inner"]
        if not inner:
            continue
        k9 += 1
        tr = Tracer(facts, b)
        rep.analysed(b)
        where = "%s (%s)" % (loc_str(b.term(inner[0])["loc"]), b.path)
        uses = []
        for bi, t in b.calls():
            c = callee(t)
            if c and c["name"] in ("sleep", "timeout", "timeout_at") and t["args"] and \
                    any(x.kind == "field" and x[2] == "handshake_timeout" for x in walk(tr.operand(t["args"][0]))):
                uses.append(bi)
        if uses:
            rep.ok("C19.R9", "timeout-covers-whole-attempt", where, "handshake_timeout is armed next to handshake_inner")
        else:
            rep.bad("C19.R9", "timeout-covers-whole-attempt", where,
                    "the function that drives handshake_inner does not arm handshake_timeout around it: a server that accepts the TCP connection and "
                    "stalls before the upgrade (TLS handshake, connect) is waited for without bound, so the client neither retries nor gives up")
    if "client" in crate.features:
        rep.floor("C19.R9", "handshake drivers", k9, 1)
    from an import inexact_steps as _ix12, nested_bodies as _nb12, logical_root as _lr12
    # ---- R13 the wait before a retry is the back-off generator's delay itself
    rep.rule("C19.R13", "the client waits exactly the delay the back-off generator produced before the next attempt: the duration of the timer in "
                        "the retry loop is the value returned by Backoff::advance() through moves only (not that value minus the time the failed "
                        "attempt took, a fraction or a clamp of it) - min(200 ms x 2^k, max_retry_interval) is otherwise not what is waited")
    k13 = 0
    for b in crate.bodies:
        if "/src/client/" not in b.file or "::tests::" in b.path:
            continue
        if not any(callee(t) and callee(t)["name"] == "advance" and "Backoff" in callee(t)["path"] for _, t in b.calls()):
            continue
        tr13 = None
        for bi, t in b.calls():
            c = callee(t)
            if not (c and c["name"] in ("sleep", "timeout", "sleep_until", "timeout_at") and "time" in c["path"] and t["args"]):
                continue
            tr13 = tr13 or Tracer(facts, b)
            arg = tr13.operand(t["args"][0])
            if not any(x.kind == "call" and x[6] == "advance" for x in walk(arg)):
                continue
            k13 += 1
            rep.analysed(b)
            w13 = "%s (%s)" % (loc_str(t["loc"]), b.path)
            st13 = _ix12(arg, lambda y: y.kind == "call" and y[6] == "advance", None)
            if st13:
                rep.bad("C19.R13", "retry-wait-is-backoff-delay", w13,
                        "the wait before the next attempt is computed from the back-off delay (`%s`), not the delay itself: after a slow failure "
                        "(stalled handshake, connection that lived for a while) the client reconnects sooner than min(200 ms x 2^k, max)" % st13[0])
            else:
                rep.ok("C19.R13", "retry-wait-is-backoff-delay", w13, "wait = Backoff::advance()")
    if "client" in crate.features:
        rep.floor("C19.R13", "retry waits driven by the back-off generator", k13, 1)
    # ---- R12 every attempt to open the stream gets the whole configured timeout
    rep.rule("C19.R12", "a stream request is given the configured channel_timeout on EVERY connection it is tried on: the timer raced against "
                        "Multiplexor::new_stream_channel is `channel_timeout.sleep()` of the configured value itself (parameter / ClientArgs field "
                        "through moves only), not a remainder computed from the age of the request - a parked request would otherwise time out at "
                        "once on every later connection and never be served")
    k12 = 0
    for b in crate.bodies:
        if "/src/client/" not in b.file or "::tests::" in b.path:
            continue
        if not any(callee(t) and callee(t)["name"] == "new_stream_channel" and "Multiplexor" in callee(t)["path"] for _, t in b.calls()):
            continue
        root12 = _lr12(facts, b)
        for nb in _nb12(facts, root12):
            tr12 = None
            for bi, t in nb.calls():
                c = callee(t)
                if not (c and c["name"] in ("sleep", "timeout", "timeout_at", "sleep_until") and t["args"]):
                    continue
                tr12 = tr12 or Tracer(facts, nb)
                k12 += 1
                rep.analysed(nb)
                w12 = "%s (%s)" % (loc_str(t["loc"]), nb.path)

                def src12(x):
                    return x.kind == "param" or (x.kind == "field" and (x[2].isdigit() or (x[3] or "").endswith("ClientArgs")))
                steps = _ix12(tr12.operand(t["args"][0]), src12, None)
                if steps:
                    rep.bad("C19.R12", "request-timeout-is-configured-value", w12,
                            "the timer raced against the stream request is computed (`%s`), not the configured channel_timeout itself: a request "
                            "that has waited (parked across a reconnect, queued during an outage) gets less than the configured time - possibly "
                            "none - on the next connection and is parked again, forever" % steps[0])
                else:
                    rep.ok("C19.R12", "request-timeout-is-configured-value", w12, "timer = channel_timeout")
    if "client" in crate.features:
        rep.floor("C19.R12", "timers raced against the stream request", k12, 1)
    # ---- R10 an accepted local connection is queued, never refused because the request queue is momentarily full
    rep.rule("C19.R10", "client handlers acquire their slot on the stream-request channel by awaiting it (reserve / send), never by a non-blocking "
                        "try_reserve / try_send whose `Full` outcome would drop the local connection or end the listener")
    k10 = 0
    for b in crate.bodies:
        if "/src/client/" not in b.file:
            continue
        for bi, t in b.calls():
            c = callee(t)
            if not c or "StreamCommand" not in c["path"] or "mpsc" not in c["def"]:
                continue
            if c["name"] in ("recv_many", "poll_recv_many", "blocking_recv_many"):
                rep.bad("C19.R10", "requests-dequeued-one-at-a-time/%s" % b.path.split("::{")[0], "%s (%s)" % (loc_str(t["loc"]), b.path),
                        "stream requests are taken off the request channel in batches (`%s`): there is one parking slot, so when the connection "
                        "fails while a batch is being served the requests behind the failing one are dropped with it" % c["name"])
            if c["name"] in ("reserve", "send", "reserve_owned", "try_reserve", "try_send", "try_reserve_owned"):
                k10 += 1
                where = "%s (%s)" % (loc_str(t["loc"]), b.path)
                if c["name"].startswith("try_"):
                    rep.bad("C19.R10", "request-queue-awaited/%s" % b.path.split("::{")[0], where,
                            "`%s` on the stream-request channel: when the queue is full (tunnel down, many waiting connections) the local "
                            "connection is dropped / the listener exits instead of waiting for the next successful connection" % c["name"])
                else:
                    rep.ok("C19.R10", "request-queue-awaited/%s#%d" % (b.path.split("::{")[0], k10), where, c["name"])
    if "client" in crate.features:
        rep.floor("C19.R10", "acquisitions of the stream-request channel", k10, 3)

    # ---- R11 an error on the connection path is reported as itself: conversions wrap the original error, they never replace it
    rep.rule("C19.R11", "client connect path: every conversion into the client's Error (map_err mapper, or a construction on the Err edge of a "
                        "fallible call) carries the original error as payload; no arm replaces it by a synthesised error whose retry class differs")
    k11 = 0
    cerr = lambda s: bool(s) and s.split("<")[0].endswith("client::Error")
    for b in crate.bodies:
        if "/src/client/ws_connect.rs" not in b.file and "/src/client/mod.rs" not in b.file:
            continue
        for bi, t in b.calls():
            c = callee(t)
            if not c or c["name"] != "map_err" or "Result" not in c["def"]:
                continue
            m = c["path"].rsplit("map_err::<", 1)
            if len(m) != 2 or not cerr(m[1].split(",")[0].strip()):
                continue
            k11 += 1
            where = "%s (%s)" % (loc_str(t["loc"]), b.path)
            key = "wraps-original/%s#%d" % (b.path.split("::{")[0], k11)
            mp = t["args"][1]
            if mp["k"] == "const" and mp.get("fn"):
                if "constructor" in mp["fn"]["dp"] or cerr(mp["fn"]["path"].rsplit("::", 1)[0]):
                    rep.ok("C19.R11", key, where, "mapper is the variant constructor %s" % mp["fn"]["path"])
                else:
                    rep.ok("C19.R11", key, where, "mapper is the function %s" % mp["fn"]["path"], nontrivial=False)
                continue
            # closure mapper: locate its body through the aggregate that creates it
            tr = Tracer(facts, b)
            n = strip(tr.operand(mp))
            cb = None
            if n.kind == "agg" and n[1] == "closure":
                cb = facts.by_dp.get(n[2])
            if cb is None:
                rep.bad("C19.R11", key, where, "the error mapper of this map_err is neither a variant constructor nor a closure whose body can be located")
                continue
            rep.analysed(cb)
            ctr = Tracer(facts, cb)
            badsite = None
            nagg = 0
            for cbi in range(len(cb.blocks)):
                if cbi not in cb.reach0:
                    continue
                for s in cb.blocks[cbi]["stmts"]:
                    if s["k"] == "Assign" and s["rv"]["k"] == "Aggregate" and s["rv"]["agg"]["a"] == "Adt" and cerr(s["rv"]["agg"]["adt"]) and s["rv"]["ops"]:
                        nagg += 1
                        nodes = [ctr.operand(o) for o in s["rv"]["ops"]]
                        if not any(x.kind == "param" and x[1] == 2 for nn in nodes for x in walk(nn)):
                            badsite = (s, s["rv"]["agg"]["variant"])
            if badsite:
                rep.bad("C19.R11", key, "%s (%s)" % (loc_str(badsite[0]["loc"]), cb.path),
                        "this error mapper builds `Error::%s` from something other than the error it was given: the original error (and with it the "
                        "retryable/fatal classification of maybe_retryable.rs) is replaced, so a failure that must lead to a reconnect with back-off "
                        "can end the client at once (or the reverse)" % badsite[1])
            else:
                rep.ok("C19.R11", key, where, "closure mapper: all %d constructed errors carry the mapped error" % nagg)
    # R11 (match form): a client Error built on the Err edge of a fallible call carries that call's error
    for b in crate.bodies:
        if "/src/client/ws_connect.rs" not in b.file:
            continue
        tr = None
        for bi in range(len(b.blocks)):
            if bi not in b.reach0 or b.blocks[bi]["cleanup"]:
                continue
            for s in b.blocks[bi]["stmts"]:
                if not (s["k"] == "Assign" and s["rv"]["k"] == "Aggregate" and s["rv"]["agg"]["a"] == "Adt" and cerr(s["rv"]["agg"]["adt"]) and s["rv"]["ops"]):
                    continue
                tr = tr or Tracer(facts, b)
                seen_calls = []

                def want(g):
                    if g.kind == "discr" and g.adt and g.adt.endswith("::Result"):
                        cs = set(x[4] for x in walk(g.pred) if x.kind == "call")
                        if cs:
                            seen_calls.append(cs)
                            return {"Err"}
                    return None
                lits = edge_literals_dominating(facts, b, tr, bi, want)
                if not lits:
                    continue
                doms = set()
                for gb, _v in lits:
                    g = guard_at(facts, b, tr, gb)
                    doms |= set(x[4] for x in walk(g.pred) if x.kind == "call")
                pay = set(x[4] for o in s["rv"]["ops"] for x in walk(tr.operand(o)) if x.kind == "call")
                where = "%s (%s)" % (loc_str(s["loc"]), b.path)
                key = "wraps-original/%s/Error::%s" % (b.path.split("::{")[0], s["rv"]["agg"]["variant"])
                k11 += 1
                if pay & doms:
                    rep.ok("C19.R11", key, where, "built from the failed call's own error")
                else:
                    rep.bad("C19.R11", key, where,
                            "`Error::%s` is built on the failure edge of a call but not from that call's error: the original error (and its "
                            "retryable/fatal class) is replaced" % s["rv"]["agg"]["variant"])
    if "client" in crate.features:
        rep.floor("C19.R11", "error conversions on the connect path", k11, 2)       # map_err mappers + constructions on an Err edge
    # ---- R8 (io kinds, wildcard arms): the classification of std::io::Error by kind, evaluated per kind over the CFG
    r8_io_kinds(facts, rep, crate)
    rep.rule("C19.S7", "no new process-wide mutable state (static cell / lock / once-cell) in the files this property is anchored in")
    import whomay
    whomay.check_new_statics(facts, rep, "C19.S7", "C19")
    whomay.check_new_trait_methods(facts, rep, "C19.S7", "C19")


IO_RETRY = ["ConnectionRefused", "ConnectionReset", "ConnectionAborted", "NotConnected", "BrokenPipe", "TimedOut", "UnexpectedEof",
            "HostUnreachable", "NetworkUnreachable", "NetworkDown", "AddrNotAvailable"]
IO_FATAL = ["PermissionDenied", "InvalidInput", "InvalidData", "Unsupported", "OutOfMemory", "Other"]


def eval_kind_predicate(facts, b, tr, kind):
    """Abstractly run a `fn(&io::Error) -> bool` whose only input is `self.kind()` for kind = `kind`.
    Returns True / False, or None when a branch does not depend on kind() compared with constant kinds."""
    adt = facts.adts.get("core::io::error::ErrorKind") or facts.adts.get("std::io::ErrorKind")
    discr_of = {v["name"]: v["discr"] for v in adt["variants"]} if adt else {}
    val = {}          # local -> bool
    ret = None
    bb, steps = 0, 0

    def kconst(op):
        n = strip(tr.operand(op))
        if n.kind == "agg" and n[1] == "adt" and "ErrorKind::" in n[2]:
            return n[2].rsplit("::", 1)[1]
        return None

    def is_kind(op):
        n = strip(tr.operand(op))
        return n.kind == "call" and n[6] == "kind"
    while steps < 4000:
        steps += 1
        blk = b.blocks[bb]
        for s in blk["stmts"]:
            if s["k"] != "Assign" or s["lhs"].get("p"):
                continue
            l, rv = s["lhs"]["l"], s["rv"]
            if rv["k"] == "Use":
                o = rv["ops"][0]
                if o["k"] == "const":
                    cv = const_eval(tr.operand(o))
                    if isinstance(cv, (bool, int)):
                        val[l] = bool(cv)
                elif o.get("p") and not o["p"].get("p") and o["p"]["l"] in val:
                    val[l] = val[o["p"]["l"]]
            elif rv["k"] == "UnaryOp" and rv.get("op") == "Not":
                o = rv["ops"][0]
                if o.get("p") and not o["p"].get("p") and o["p"]["l"] in val:
                    val[l] = not val[o["p"]["l"]]
            elif rv["k"] == "Discriminant":
                n = strip(tr.place(rv["place"]))
                if n.kind == "call" and n[6] == "kind" and kind in discr_of:
                    val[l] = ("D", discr_of[kind])
        t = blk["term"]
        k = t["k"]
        if k == "Return":
            return val.get(0)
        if k in ("Goto", "Drop", "FalseEdge", "FalseUnwind", "Assert"):
            bb = t.get("target") if t.get("target") is not None else (b.succ[bb][0] if b.succ[bb] else None)
            if bb is None:
                return None
            continue
        if k == "Call":
            c = callee(t)
            d = (t.get("dest") or {}).get("l")
            if c and c["name"] in ("eq", "ne") and "ErrorKind" in c["path"] and len(t["args"]) == 2:
                a0, a1 = t["args"]
                kc = kconst(a1) if is_kind(a0) else (kconst(a0) if is_kind(a1) else None)
                if kc is None:
                    return None
                val[d] = (kc == kind) if c["name"] == "eq" else (kc != kind)
            nxt = [x for x in b.succ[bb] if not b.blocks[x]["cleanup"]]
            if not nxt:
                return None
            bb = nxt[0]
            continue
        if k == "SwitchInt":
            dl = t["discr"].get("p", {}).get("l")
            v = val.get(dl)
            if v is None or t["discr"].get("p", {}).get("p"):
                return None
            iv = v[1] if isinstance(v, tuple) else int(v)
            tgt = None
            for tv, tb in t["targets"]:
                if tv == iv:
                    tgt = tb
            bb = tgt if tgt is not None else t["otherwise"]
            continue
        return None
    return None


def r8name(adt):
    if adt.startswith("rusty_penguin_lib::client"):
        return "client"
    if adt.startswith("penguin_mux"):
        return "mux"
    return "::".join(adt.split("::")[-2:]) if not adt.startswith("rusty") else adt.split("::", 1)[1]


def r8_io_kinds(facts, rep, crate):
    k = 0
    for b in crate.bodies:
        if b.name != "retryable" or "maybe_retryable" not in b.path:
            continue
        adt = (b.j.get("impl_self") or {}).get("adt") or ""
        where = "%s (%s)" % (loc_str(b.loc), b.path)
        tr = Tracer(facts, b)
        if adt.endswith("io::error::Error"):
            rep.analysed(b)
            for kind, want in [(x, True) for x in IO_RETRY] + [(x, False) for x in IO_FATAL]:
                got = eval_kind_predicate(facts, b, tr, kind)
                if got is None:
                    rep.info("C19.R8: retryable() of std::io::Error is not a function of kind()-against-constant comparisons any more; "
                             "kind `%s` not decided" % kind)
                    continue
                k += 1
                if got == want:
                    rep.ok("C19.R8", "io-kind/%s" % kind, where, "-> %s" % want)
                else:
                    rep.bad("C19.R8", "io-kind/%s" % kind, where,
                            "an I/O error of kind %s is classified %s by retryable(), expected %s: %s" % (
                                kind, "retryable" if got else "fatal", "retryable" if want else "fatal",
                                "a connection lost / not established for this reason ends the client instead of being retried with back-off"
                                if want else "an error that cannot be cured by reconnecting is retried instead of ending the client at once"))
            continue
        # wildcard arms of the enum classifiers: everything not listed is fatal
        if not adt:
            continue
        for gb in range(len(b.blocks)):
            if b.term(gb)["k"] != "SwitchInt" or gb not in b.reach0:
                continue
            g = guard_at(facts, b, tr, gb)
            if g is None or g.kind != "discr" or g.adt != adt:
                continue
            t = b.term(gb)
            ob = t["otherwise"]
            if b.term(ob)["k"] == "Unreachable":
                continue
            # value assigned to _0 on the wildcard edge
            vals = set()
            seen, st = set(), [ob]
            while st:
                x = st.pop()
                if x in seen:
                    continue
                seen.add(x)
                for s in b.blocks[x]["stmts"]:
                    if s["k"] == "Assign" and s["lhs"]["l"] == 0 and not s["lhs"].get("p"):
                        cv = const_eval(strip(tr.rvalue(s["rv"])))
                        vals.add(bool(cv) if cv is not None else "call")
                tt = b.term(x)
                if tt["k"] == "Call" and (tt.get("dest") or {}).get("l") == 0:
                    vals.add("call")
                if tt["k"] in ("Return",):
                    continue
                if tt["k"] == "SwitchInt":
                    continue
                st.extend(y for y in b.succ[x] if not b.blocks[y]["cleanup"])
            k += 1
            key = "wildcard/%s" % "::".join(adt.split("::")[-3:] if adt.startswith("rusty") else adt.split("::"))
            if vals == {False}:
                rep.ok("C19.R8", key, where, "unlisted variants -> fatal")
            elif True in vals:
                rep.bad("C19.R8", key, where,
                        "the wildcard arm of retryable() for %s yields true: every error that is not listed (configuration, protocol, "
                        "cancellation...) is retried instead of ending the client at once" % adt)
    if "client" in crate.features:
        rep.floor("C19.R8", "io kinds and wildcard arms decided", k, len(IO_RETRY) + len(IO_FATAL) + 3)
