"""C03 Credit-based flow control: local proof obligations of the two-party credit invariant."""
from an import (Tracer, Explorer, STOP, guard_at, strip, strip_casts, walk, fmt, callee, const_eval,
                leaves, field_reads, Inter, CallIndex, N)
from mir import loc_str
from shared import atomic_call, field_of_receiver
from muxcommon import *

EXPLANATION = (
    "Local obligations of the credit invariant, decided on every CFG path of the anchored functions: (R1) every "
    "queue-send of a Push frame is dominated by the success edge of a credit-take call and cannot repeat "
    "without taking again; (R2) the take is decrement-if-positive (load, ==0 guard, CAS(orig, orig-1), success "
    "return dominated by the CAS success edge); (R3) send credit is initialised from the peer's advertised "
    "window (Connect.rwnd / handshake Acknowledge payload), never from the local window; (R4) inbound queue "
    "capacity, the window advertised in Connect and in the handshake Acknowledge all come from the local "
    "Options.rwnd; (R5) the consumed-frames Acknowledge carries old+1, resets the counter, is emitted exactly "
    "when count >= threshold, and the counter function is called once per received frame on the Some edge of "
    "the inbound receive; (R6) an Acknowledge on an established flow adds exactly its payload to the credit. "
    "The conjunction is the standard inductive argument for 'sent - acked <= window'; the induction itself is "
    "argued on paper, not mechanised.")
EXPLANATION_ADDED = '(R7) after a successful credit take every success path of the caller builds a Push (no credit without a frame).'
EXPLANATION = EXPLANATION + " Added while testing against seeded changes: " + EXPLANATION_ADDED
EXPLANATION = EXPLANATION + ' Rounds 12-13: R3 also requires the initial credit to be the advertised window itself (moves / conversions only, no min / max / arithmetic); R4 likewise for the inbound queue capacity, the windows advertised in Connect / the handshake Acknowledge and the rwnd fields.'
EXPLANATION = EXPLANATION + ' Rounds 14-15: (R8) one Push frame = one entry of the inbound queue (reaction-table cells Push/*); R5 rejects an acknowledged count that passes a narrowing cast; (S9) Frame::new_acknowledge / new_connect are exact.'
ASSUMPTIONS = [
    "tokio mpsc channels are FIFO and bounded as documented; atomic RMW operations are atomic",
    "the two endpoints run the same code (conforming peer)",
]
NOT_DECIDED = "the inductive two-party invariant over all reachable states (only its local obligations are decided)"
THOROUGH_CONFIGS = ["mux-nodefault", "mux-std-only", "mux-nohash"]

MUX = "penguin_mux::stream::MuxStream"
ESD = "penguin_mux::EstablishedStreamData"


def check_r1(facts, rep, crate, takes):
    rid = "C03.R1"
    rep.rule(rid, "every Push queue-send is dominated by the success edge of a credit take; no repeat without re-take")
    take_dps = set(b.dp for b in takes)
    n = 0
    for b, bi, t, tr, msg in queue_sends(facts, crate):
        cs = ctors_in(msg)
        if not (cs & {"new_push", "new_push_owned", "new_push_vectored"}):
            continue
        n += 1
        rep.analysed(b)
        where = "%s (%s)" % (loc_str(t["loc"]), b.path)
        key = b.path
        # calls to a take function in this body
        tcalls = [bj for bj, t2 in b.calls() if callee(t2) and ((callee(t2).get("res") or callee(t2)["dp"]) in take_dps)]
        if b.dp in take_dps:
            # inline take: the CAS itself must dominate
            tcalls += [bj for bj, t2 in b.calls() if atomic_call(t2) in TAKE_OPS]
        good = None
        for tc in tcalls:
            if not b.dominates(tc, bi):
                continue
            ready = edge_literals_dominating(
                facts, b, tr, bi,
                lambda g: {"Ready"} if g.kind == "discr" and g.adt and g.adt.endswith("poll::Poll") and derives_from_call(g.pred, tc) else None)
            some = edge_literals_dominating(
                facts, b, tr, bi,
                lambda g: ({"Some"} if g.adt and g.adt.endswith("option::Option") else
                           {"Continue"} if g.adt and g.adt.endswith("ControlFlow") else
                           {"Ok"} if g.adt and g.adt.endswith("result::Result") else None)
                if g.kind == "discr" and derives_from_call(g.pred, tc) else None)
            if ready and some:
                if in_cycle_without(b, bi, {tc}):
                    rep.bad(rid, key, where, "Push emission can repeat in a loop without taking credit again")
                    good = False
                else:
                    good = True
                break
        if good is True:
            rep.ok(rid, key, where, "dominated by Ready(Some) of the credit take")
        elif good is None:
            rep.bad(rid, key, where,
                    "a Push frame is queued on a path that did not obtain a unit of credit: the queue-send is not "
                    "dominated by the Ready + Some/Ok edge of a call to a credit-take function")
    rep.floor(rid, "Push emission sites", n, 3 if "std" in crate.features else 1)


def check_r2(facts, rep, crate, takes):
    rid = "C03.R2"
    rep.rule(rid, "credit take = decrement-if-positive (load; ==0 guard; CAS(orig, orig-1) retry; success dominated by CAS ok)")
    n = 0
    for b in takes:
        rep.analysed(b)
        tr = Tracer(facts, b)
        where = "%s (%s)" % (loc_str(b.loc), b.path)
        for bi, t in b.calls():
            a = atomic_call(t)
            if a not in TAKE_OPS:
                continue
            f = field_of_receiver(tr, t["args"][0])
            if not f or not f.endswith("." + CREDIT_FIELD):
                continue
            n += 1
            key = "%s/%s" % (b.path, a)
            if a in ("compare_exchange", "compare_exchange_weak"):
                cur = strip(tr.operand(t["args"][1]))
                new = strip(tr.operand(t["args"][2]))
                okl = cur.kind == "call" and cur[6] == "load"
                okn = new.kind == "bin" and new[1].startswith("Sub") and strip(new[2]) == cur and const_eval(new[3]) == 1
                if not (okl and okn):
                    rep.bad(rid, key, where, "CAS does not replace the loaded value `orig` by `orig - 1` (current=%s, new=%s)" % (fmt(cur), fmt(new)))
                    continue
                # ==0 guard: CAS dominated by the non-zero edge
                nz = edge_literals_dominating(facts, b, tr, bi, lambda g: _nonzero_vals(g, cur))
                if not nz:
                    rep.bad(rid, key, where, "the CAS is not dominated by the `credit != 0` edge of a test of the loaded value")
                    continue
                # success return dominated by CAS success
                succ_blocks = [bb for bb, blk in enumerate(b.blocks) for s in blk["stmts"]
                               if s["k"] == "Assign" and s["lhs"]["l"] == 0 and s["rv"]["k"] == "Aggregate"
                               and s["rv"]["agg"].get("variant") == "Ready" and _is_some(tr, s["rv"]["ops"][0])]
                if not succ_blocks:
                    rep.bad(rid, key, where, "no `Ready(Some)` success return in the take function")
                    continue
                allok = True
                for sb in succ_blocks:
                    okc = edge_literals_dominating(facts, b, tr, sb, lambda g: _cas_ok_vals(g, bi))
                    if not okc:
                        allok = False
                if not allok:
                    rep.bad(rid, key, where, "success is returned on a path not dominated by the CAS success edge")
                    continue
                # zero edge cannot reach success without a new load
                loads = set(bj for bj, t2 in b.calls() if atomic_call(t2) == "load" and
                            (field_of_receiver(tr, t2["args"][0]) or "").endswith("." + CREDIT_FIELD))
                zero_bad = False
                for gb in range(len(b.blocks)):
                    if b.term(gb)["k"] != "SwitchInt":
                        continue
                    g = guard_at(facts, b, tr, gb)
                    if g is None:
                        continue
                    nzv = _nonzero_vals(g, cur)
                    if not nzv:
                        continue
                    for succ, v in g.edges:
                        if v not in nzv:
                            reach = b.reachable_from(succ, cut=loads)
                            if any(sb in reach for sb in succ_blocks):
                                zero_bad = True
                if zero_bad:
                    rep.bad(rid, key, where, "the zero-credit edge reaches the success return without loading the credit again")
                else:
                    rep.ok(rid, key, where, "load / !=0 / CAS(orig, orig-1) / success<=CAS ok")
            elif a == "fetch_update":
                cl = tr.operand(t["args"][-1])
                rep.ok(rid, key, where, "fetch_update idiom (closure not inspected further)", nontrivial=False)
            else:
                rep.bad(rid, key, where, "unrecognised idiom: credit decremented by `%s` (can underflow past zero)" % a)
    rep.floor(rid, "credit-take operations", n, 1)


def _is_some(tr, op):
    n = strip(tr.operand(op))
    return n.kind == "agg" and n[2].endswith("Option::Some")


def _nonzero_vals(g, cur):
    """edge values on which `cur != 0` holds."""
    if g.kind != "bool":
        return None
    p = strip_casts(g.pred)
    if p.kind != "bin":
        return None
    a, c = strip(p[2]), strip(p[3])
    if a == cur and const_eval(c) == 0:
        return {"Eq": {False}, "Ne": {True}, "Gt": {True}, "Le": {False}}.get(p[1])
    if c == cur and const_eval(a) == 0:
        return {"Eq": {False}, "Ne": {True}, "Lt": {True}, "Ge": {False}}.get(p[1])
    if a == cur and const_eval(c) == 1:
        return {"Ge": {True}, "Lt": {False}}.get(p[1])
    return None


def _cas_ok_vals(g, cas_bb):
    if not derives_from_call(g.pred, cas_bb):
        return None
    if g.kind == "discr" and g.adt and g.adt.endswith("result::Result"):
        return {"Ok"}
    if g.kind == "bool":
        p = strip(g.pred)
        if p.kind == "call" and p[6] == "is_ok":
            return {True}
        if p.kind == "call" and p[6] == "is_err":
            return {False}
    return None


def _sources(inter, b, op):
    tr = inter.tracer(b)
    return inter.expand(b, tr.operand(op))


def _flat_fields(node):
    """Field roles read by an expression. Below a field read only the place chain (field / downcast /
    deref) is followed, so `self.rwnd` is `Multiplexor.rwnd` whatever `self` was computed from."""
    out = set()
    seen = set()
    st = [(node, False)]
    while st:
        x, chain = st.pop()
        if (id(x), chain) in seen:
            continue
        seen.add((id(x), chain))
        k = x.kind
        if k == "field":
            if x[3]:
                out.add("%s.%s" % (x[3].split("::")[-1], x[2]))
            st.append((x[1], True))
        elif k == "downcast":
            out.add("as:%s" % x[2])
            st.append((x[1], True))
        elif k in ("ref", "deref", "cast"):
            st.append((x[1], chain))
        elif chain:
            continue
        elif k in ("un", "discr", "repeat"):
            st.append((x[1], False))
        elif k == "bin":
            st.append((x[2], False)); st.append((x[3], False))
        elif k == "call":
            for a in x[3]:
                st.append((a, False))
        elif k == "agg":
            for _, v in x[3]:
                st.append((v, False))
        elif k == "phi":
            for v in x[1]:
                st.append((v, False))
    return out


def _inexact(node):
    """Sub-expressions between `node` and the fields / parameters it reads that are not moves, conversions or joins
    (min / max / arithmetic / a constant alternative / a cast to fewer than 32 bits): the value is then not the source itself."""
    from an import inexact_steps

    def src(x):
        # a place chain below a field read of a struct / payload, or a parameter: the source itself
        return x.kind == "param" or (x.kind == "field" and x[3] and not str(x[3]).startswith("core::")) or x.kind == "downcast"
    return inexact_steps(node, src, 32)


def check_r3_r4(facts, rep, crate, inter):
    rep.rule("C03.R3", "send credit initialised from the peer's advertised window, never from the local one")
    rep.rule("C03.R4", "inbound queue capacity = window in Connect = window in handshake Acknowledge = local Options.rwnd")
    n3 = 0
    for b, bi, s, fields in struct_inits(facts, crate, ESD):
        if CREDIT_FIELD not in fields:
            continue
        n3 += 1
        rep.analysed(b)
        where = "%s (%s)" % (loc_str(s["loc"]), b.path)
        src = _sources(inter, b, fields[CREDIT_FIELD])
        # must be AtomicU32::new(x)
        news = [x for x in walk(src) if x.kind == "call" and x[6] == "new" and "Atomic" in x[1] and "u32" in x[2]]
        if not news:
            rep.bad("C03.R3", "credit-init", where, "unrecognised idiom: credit is not initialised by AtomicU32::new(..)")
            continue
        ff = set()
        for nw in news:
            ff |= _flat_fields(nw[3][0])
        # the credit is the advertised window itself: between AtomicU32::new and the payload fields there are only moves,
        # conversions and joins (no min / max / arithmetic / constant alternative)
        inexact = []
        for nw in news:
            inexact += _inexact(nw[3][0])
        if inexact:
            rep.bad("C03.R3", "credit-init-exact", where,
                    "the initial send credit is not the peer's advertised window itself but computed from it: `%s` (for some advertised "
                    "value, e.g. 0 or a large window, the sender starts with more or less credit than the peer granted)" % inexact[0])
        else:
            rep.ok("C03.R3", "credit-init-exact", where, "credit = advertised window through moves / conversions only")
        has_peer = ("ConnectPayload.rwnd" in ff) and ("as:Acknowledge" in ff)
        has_local = any(f in ff for f in ("Task.rwnd", "Options.rwnd", "Multiplexor.rwnd", "Task.default_rwnd_threshold"))
        if has_peer and not has_local:
            rep.ok("C03.R3", "credit-init", where, "sources: Connect.rwnd (acceptor), handshake Acknowledge payload (requester)")
        else:
            rep.bad("C03.R3", "credit-init", where,
                    "initial send credit must come from the peer's advertised window (ConnectPayload.rwnd / "
                    "Payload::Acknowledge), found sources %s" % sorted(ff))
        # same Arc shared with the stream
    rep.floor("C03.R3", "credit initialisations", n3, 1)
    # R4 capacity
    n4 = 0
    for b in crate.bodies:
        tr = None
        for bi, t in b.calls():
            c = callee(t)
            if c and c["name"] == "channel" and "mpsc" in c["def"] and "bytes::Bytes" in c["path"]:
                n4 += 1
                rep.analysed(b)
                where = "%s (%s)" % (loc_str(t["loc"]), b.path)
                src = _sources(inter, b, t["args"][0])
                ff = _flat_fields(src)
                ix = _inexact(src)
                if ff and ff <= {"Task.rwnd", "Options.rwnd"} and "Task.rwnd" in ff and ix:
                    rep.bad("C03.R4", "inbound-capacity-exact", where,
                            "the per-stream inbound queue capacity is computed from the local window (`%s`) instead of being the window that is "
                            "advertised to the peer: if it is smaller, a conforming peer that uses its whole window overruns the queue and the "
                            "stream is reset" % ix[0])
                elif ff and ff <= {"Task.rwnd", "Options.rwnd"} and "Task.rwnd" in ff:
                    rep.ok("C03.R4", "inbound-capacity", where, "capacity <- %s" % sorted(ff))
                else:
                    rep.bad("C03.R4", "inbound-capacity", where,
                            "per-stream inbound queue capacity must be the local window (Options.rwnd); sources %s" % sorted(ff))
    rep.floor("C03.R4", "inbound queue constructions", n4, 1)
    # advertised windows
    nadv = 0
    for b, bi, t, tr, msg in queue_sends(facts, crate):
        for cn in ctor_calls(msg, {"new_connect"}):
            nadv += 1
            where = "%s (%s)" % (loc_str(t["loc"]), b.path)
            rw = inter.expand(b, cn[3][3])
            idn = inter.expand(b, cn[3][2])
            ff = _flat_fields(rw)
            ix = _inexact(rw)
            if ff and ff <= {"Multiplexor.rwnd", "Options.rwnd", "Task.rwnd"} and ix:
                rep.bad("C03.R4", "connect-advertises-own-window-exact", where,
                        "Connect advertises a value computed from the local window (`%s`), not the window itself (= the inbound queue "
                        "capacity): a larger value lets a conforming peer overrun the queue" % ix[0])
            elif ff and ff <= {"Multiplexor.rwnd", "Options.rwnd", "Task.rwnd"}:
                rep.ok("C03.R4", "connect-advertises-own-window", where, "rwnd <- %s" % sorted(ff))
            else:
                rep.bad("C03.R4", "connect-advertises-own-window", where,
                        "Connect must advertise the local window; rwnd argument sources %s (id sources %s)" % (sorted(ff), sorted(_flat_fields(idn))))
        for cn in ctor_calls(msg, {"new_acknowledge"}):
            cnt = inter.expand(b, cn[3][1])
            ff = _flat_fields(cnt)
            if "MuxStream.psh_recvd_since" in ff:
                continue  # consumed-frames acknowledge, see R5
            nadv += 1
            where = "%s (%s)" % (loc_str(t["loc"]), b.path)
            ix = _inexact(cnt)
            if ff and ff <= {"Task.rwnd", "Options.rwnd"} and ix:
                rep.bad("C03.R4", "handshake-ack-advertises-own-window-exact", where,
                        "the handshake Acknowledge carries a value computed from the local window (`%s`), not the window itself (= the inbound "
                        "queue capacity): a larger value lets a conforming peer overrun the queue" % ix[0])
            elif ff and ff <= {"Task.rwnd", "Options.rwnd"}:
                rep.ok("C03.R4", "handshake-ack-advertises-own-window", where, "payload <- %s" % sorted(ff))
            else:
                rep.bad("C03.R4", "handshake-ack-advertises-own-window", where,
                        "the handshake Acknowledge must carry the local window; payload sources %s" % sorted(ff))
    rep.floor("C03.R4", "window advertisements", nadv, 2)
    # Multiplexor.rwnd / Task.rwnd come from Options.rwnd
    for adt in ("penguin_mux::Multiplexor", "penguin_mux::task::Task"):
        for b, bi, s, fields in struct_inits(facts, crate, adt):
            if "rwnd" in fields:
                src = inter.tracer(b).operand(fields["rwnd"])
                ff = _flat_fields(src)
                where = "%s (%s)" % (loc_str(s["loc"]), b.path)
                if ff == {"Options.rwnd"} and _inexact(src):
                    rep.bad("C03.R4", "%s.rwnd<-Options.rwnd" % adt.split("::")[-1], where, "rwnd field is computed (`%s`), not copied, from Options.rwnd" % _inexact(src)[0])
                elif ff == {"Options.rwnd"}:
                    rep.ok("C03.R4", "%s.rwnd<-Options.rwnd" % adt.split("::")[-1], where, "")
                else:
                    rep.bad("C03.R4", "%s.rwnd<-Options.rwnd" % adt.split("::")[-1], where, "rwnd field initialised from %s" % sorted(ff))


def check_r5(facts, rep, crate, inter):
    rid = "C03.R5"
    rep.rule(rid, "consumed-frames Acknowledge: count = old+1, counter reset on emission, emitted iff count >= threshold, "
                  "counter function called once per received frame on the Some edge")
    n = 0
    for b, bi, t, tr, msg in queue_sends(facts, crate):
        acks = ctor_calls(msg, {"new_acknowledge"})
        for cn in acks:
            cnt = cn[3][1]
            if "MuxStream.psh_recvd_since" not in _flat_fields(cnt):
                continue
            n += 1
            rep.analysed(b)
            where = "%s (%s)" % (loc_str(t["loc"]), b.path)
            c = strip(cnt)
            ok_cnt = c.kind == "bin" and c[1].startswith("Add") and const_eval(c[3]) == 1 and \
                _flat_fields(c[2]) == {"MuxStream.psh_recvd_since"}
            narrow = [x for x in walk(cnt) if x.kind == "cast" and "IntToInt" in str(x[3]) and str(x[2]) in ("u8", "i8", "u16", "i16")]
            if narrow:
                rep.bad(rid, "ack-count", where, "the acknowledged count passes through a cast to %s: counts of 2^16 and above are acknowledged "
                                                 "short and the peer's window never refills" % narrow[0][2])
            elif not ok_cnt:
                rep.bad(rid, "ack-count", where, "acknowledged count is `%s`, expected counter + 1" % fmt(c))
            else:
                rep.ok(rid, "ack-count", where, "count = psh_recvd_since + 1")
            # predicate
            def pred_vals(g):
                if g.kind != "bool":
                    return None
                p = strip_casts(g.pred)
                if p.kind != "bin":
                    return None
                a, d = strip(p[2]), strip(p[3])
                fa, fd = _flat_fields(a), _flat_fields(d)
                if a == c and fd == {"MuxStream.rwnd_threshold"}:
                    return {"Ge": {True}, "Lt": {False}, "Eq": {True}, "Ne": {False}}.get(p[1])
                if d == c and fa == {"MuxStream.rwnd_threshold"}:
                    return {"Le": {True}, "Gt": {False}, "Eq": {True}, "Ne": {False}}.get(p[1])
                return None
            doms = edge_literals_dominating(facts, b, tr, bi, pred_vals)
            if not doms:
                rep.bad(rid, "ack-predicate", where,
                        "the Acknowledge emission is not dominated by the edge `count >= threshold` (accepted spellings: "
                        ">=, ==, negated <) of the per-stream threshold")
                continue
            rep.ok(rid, "ack-predicate", where, "emitted on count >= rwnd_threshold")
            gb = doms[0][0]
            g = guard_at(facts, b, tr, gb)
            acc = pred_vals(g)
            emit_succ = [s for s, v in g.edges if v in acc]
            other_succ = [s for s, v in g.edges if v not in acc]
            # the complementary edge must not emit
            if other_succ and bi in b.reachable_from(other_succ[0], cut={gb}):
                rep.bad(rid, "ack-predicate/else", where, "the Acknowledge is also reachable when count < threshold")
            # reset on emitting path
            resets = [(sb, si) for (sb2, sb, si, s) in
                      ((x[0], x[1], x[2], x[3]) for x in field_stores(crate, MUX, "psh_recvd_since")) if sb2 is b
                      and const_eval(tr.rvalue(s["rv"])) == 0]
            rets = [x for x in range(len(b.blocks)) if b.term(x)["k"] == "Return"]
            reset_ok = False
            for sb, si in resets:
                if b.edge_dominates((gb, emit_succ[0]), sb):
                    # every path from the emitting edge to return passes the reset
                    reach = b.reachable_from(emit_succ[0], cut={sb})
                    if not any(r in reach for r in rets):
                        reset_ok = True
            if reset_ok:
                rep.ok(rid, "counter-reset", where, "counter stored 0 on every emitting path")
            else:
                rep.bad(rid, "counter-reset", where, "the received-since counter is not reset to 0 on the path that emits the Acknowledge (frames would be acknowledged twice)")
            # incremented value stored on the other path
            incs = [(sb, si) for (sb2, sb, si, s) in
                    ((x[0], x[1], x[2], x[3]) for x in field_stores(crate, MUX, "psh_recvd_since")) if sb2 is b
                    and strip(tr.rvalue(s["rv"])) == c]
            inc_ok = any(b.dominates(sb, gb) or (other_succ and b.edge_dominates((gb, other_succ[0]), sb)) for sb, si in incs)
            if inc_ok:
                rep.ok(rid, "counter-increment", where, "counter stored old+1 when not emitting")
            else:
                rep.bad(rid, "counter-increment", where, "the counter is not advanced by one on the non-emitting path")
            # called once per received frame
            idx = inter.call_index()
            callers = idx.callers.get(b.dp, [])
            if any(callee(t2) and callee(t2)["name"] in ("poll_recv", "recv", "try_recv") for _b2, t2 in b.calls()):
                # the counting code is written inline in the body that receives the frame: the "call site" is the counting code itself
                callers = [(b, gb, b.term(gb))]
            if len(callers) != 1:
                rep.bad(rid, "counter-callers", where, "the counting function has %d call sites, expected exactly one (per received frame)" % len(callers))
            else:
                cb, cbi, ct = callers[0]
                ctr = inter.tracer(cb)
                some = edge_literals_dominating(
                    facts, cb, ctr, cbi,
                    lambda g: {"Some"} if g.kind == "discr" and g.adt and g.adt.endswith("option::Option") and
                    any(x.kind == "call" and x[6] in ("poll_recv", "recv", "try_recv") for x in walk(g.pred)) else None)
                loop = in_cycle_without(cb, cbi, set())
                cw = "%s (%s)" % (loc_str(ct["loc"]), cb.path)
                # the call must also be unconditional on that edge: every path from the Some edge to a return passes it
                uncond = False
                if some:
                    gb0 = some[0][0]
                    g0 = guard_at(facts, cb, ctr, gb0)
                    ssucc = [s2 for s2, v in g0.edges if v == "Some"]
                    rets0 = [x for x in range(len(cb.blocks)) if cb.term(x)["k"] == "Return"]
                    if ssucc:
                        reach0 = cb.reachable_from(ssucc[0], cut={cbi})
                        uncond = not any(r in reach0 for r in rets0)
                if some and not loop and uncond:
                    rep.ok(rid, "counter-callers", cw, "called once, unconditionally on the Some edge of the inbound receive, outside any loop")
                else:
                    rep.bad(rid, "counter-callers", cw, "the counting function is not called exactly once per received frame "
                                                         "(Some-edge dominated: %s, inside a loop: %s, unconditional: %s)" % (bool(some), loop, uncond))
    rep.floor(rid, "consumed-frames Acknowledge emissions", n, 1)


def check_r6(facts, rep, crate, inter):
    rid = "C03.R6"
    rep.rule(rid, "Acknowledge on an established flow adds exactly its payload to the send credit")
    n = 0
    for b in crate.bodies:
        tr = None
        for bi, t in b.calls():
            if atomic_call(t) == "fetch_add":
                tr = tr or Tracer(facts, b)
                f = field_of_receiver(tr, t["args"][0])
                if not f or not f.endswith("." + CREDIT_FIELD):
                    continue
                n += 1
                rep.analysed(b)
                where = "%s (%s)" % (loc_str(t["loc"]), b.path)
                amt = inter.expand(b, tr.operand(t["args"][1]))
                ff = _flat_fields(amt)
                consts = [x for x in walk(amt) if x.kind == "const"]
                if "as:Acknowledge" in ff and not consts and not any(x.kind == "bin" for x in walk(amt)):
                    rep.ok(rid, "credit-grant", where, "fetch_add(amount <- Payload::Acknowledge payload)")
                else:
                    rep.bad(rid, "credit-grant", where, "credit is increased by `%s`, expected exactly the Acknowledge payload" % fmt(amt))
    rep.floor(rid, "credit grants", n, 1)
    # no plain store on the credit
    for b in crate.bodies:
        tr = None
        for bi, t in b.calls():
            if atomic_call(t) in ("store",):
                tr = tr or Tracer(facts, b)
                f = field_of_receiver(tr, t["args"][0])
                if f and f.endswith("." + CREDIT_FIELD):
                    rep.bad(rid, "credit-store", "%s (%s)" % (loc_str(t["loc"]), b.path), "credit overwritten by a plain store (loses concurrent grants/takes)")


def check_r7(facts, rep, crate, takes):
    rid = "C03.R7"
    rep.rule(rid, "one unit of credit per Push: after a successful credit take every success path of the caller builds a Push frame "
                  "before returning (a take without a frame leaks credit the peer will never give back)")
    tdp = set(b.dp for b in takes)
    n = 0
    for b in crate.bodies:
        if b.dp in tdp:
            continue
        tcalls = [bj for bj, t in b.calls() if callee(t) and ((callee(t).get("res") or callee(t)["dp"]) in tdp) and not b.blocks[bj]["cleanup"]]
        if not tcalls:
            continue
        tr = Tracer(facts, b)
        pushes = set(bj for bj, t in b.calls() if callee(t) and callee(t)["name"] in ("new_push", "new_push_owned", "new_push_vectored"))
        for tc in tcalls:
            # a thin wrapper that just forwards the take's result is itself a take: look through it
            n += 1
            rep.analysed(b)
            where = "%s (%s)" % (loc_str(b.term(tc)["loc"]), b.path)
            leak = credit_leak_after_take(facts, b, tr, tc, pushes)
            if leak is None:
                rep.ok(rid, "%s/credit-implies-push" % b.path, where, "every success path after the take builds a Push")
            else:
                rep.bad(rid, "%s/credit-without-push" % b.path, where,
                        "a unit of send credit taken here can reach the end of the function without a Push frame being built "
                        "(e.g. the empty-write early return placed after the take): the credit is never returned by the peer")
    rep.floor(rid, "callers of the credit take", n, 1 + ("std" in crate.features) + ("tokio-io-util" in crate.features))


def check(facts, rep, tier, cfg):
    crate = facts.crate("penguin_mux")
    if crate is None:
        rep.bad("C03.R1", "crate", "", "penguin_mux facts missing")
        return
    inter = Inter(facts)
    takes = credit_take_bodies(facts, crate)
    if not takes:
        rep.bad("C03.R2", "floor/credit-take", "", "no credit-take function found (anchor missing)")
    check_r1(facts, rep, crate, takes)
    check_r2(facts, rep, crate, takes)
    check_r3_r4(facts, rep, crate, inter)
    check_r5(facts, rep, crate, inter)
    check_r6(facts, rep, crate, inter)
    check_r7(facts, rep, crate, takes)
    # ---- R8 one Push frame = one unit of the receive window
    rep.rule("C03.R8", "one Push frame occupies exactly one entry of the flow's inbound queue (reaction-table cells Push/*): the reader counts "
                       "queue entries as frames, so a frame delivered as several entries is acknowledged several times (credit beyond the window) "
                       "and can overrun the queue although the peer spent one credit")
    import rules_c10
    sub8 = type(rep)(rep.prop, rep.tier, rep.config)
    rules_c10.check(facts, sub8, tier, cfg)
    rep.paths += sub8.paths
    for i8 in sub8.instances:
        if i8["key"].startswith("cell/Push/"):
            rep.ok("C03.R8", i8["key"], i8["where"], i8["detail"])
    for v8 in sub8.violations:
        k8 = v8["key"].split("/", 1)[1]
        if "Push" in k8:
            rep.bad("C03.R8", k8, v8["where"], v8["msg"])
    import_constructor_rule(facts, rep, "C03.S9", ['new_acknowledge', 'new_connect'])
    rep.rule("C03.S7", "who-may: the functions that touch the critical resources behind this property are those of the reference tree (flow table, closed flag, per-stream / datagram / outbound queues, last-pong timestamp, client id maps, shared TLS identity)")
    import whomay
    whomay.check(facts, rep, "C03.S7", "C03")
    whomay.check_new_statics(facts, rep, "C03.S7", "C03")
    whomay.check_new_trait_methods(facts, rep, "C03.S7", "C03")


def top_roles(node):
    """Outermost role of every alternative of an expression: 'Owner.field', 'const:v', 'call:name', 'param:x'."""
    out = set()
    st = [node]
    seen = set()
    while st:
        x = strip(st.pop())
        if id(x) in seen:
            continue
        seen.add(id(x))
        k = x.kind
        if k == "phi":
            st.extend(x[1])
        elif k == "field":
            out.add("%s.%s" % ((x[3] or "?").split("::")[-1], x[2]))
        elif k == "downcast":
            out.add("as:%s" % x[2])
        elif k == "const":
            out.add("const:%s" % x[1])
        elif k == "call":
            out.add("call:%s" % x[6])
        elif k == "param":
            out.add("param:%s" % x[2])
        else:
            out.add(k)
    return out
