"""C20 CowBytes / LongChain behave like a byte sequence -- invariant maintenance rules."""
from an import (const_eval, Tracer, Explorer, STOP, guard_at, strip, leaves, walk, fmt, callee, callee_def,
                field_reads, N)
from mir import loc_str, place_str

EXPLANATION = (
    "Static invariant-maintenance rules over cow-bytes' MIR: (R1) every store to the cached length "
    "LongChain.total_remaining_len (assignments and struct literals) is classified as zero+clear, a delta "
    "paired with the matching Vec mutation of the same element, or an absolute caller-supplied value that "
    "is validated (<= cached length) on every CFG path to the store (product-graph exploration with a "
    "validation automaton); (R2) every element pushed/inserted into the chunk vector is dominated by a "
    "non-empty guard or is a strict split, and a chunk advanced in place is removed when it becomes empty; "
    "(R3) the hand-written variant-delegating CowBytes methods (split_to/split_off/truncate) treat the "
    "borrowed and the owned variant identically. Decides the structural clause only, not the equivalence "
    "with a Vec<u8> model over operation sequences.")
EXPLANATION_ADDED = '(R4) no unpaired chunk mutation; (R5) chunk order of a mid-chunk split (abstract sequence HALF/TAIL) and tail index; (R6) the walk counter is decremented cumulatively; (R7) Buf::advance: length delta = amount advanced and the exhausted chunk is removed; (R8) Eq/Ord/Hash impls of CowBytes use the byte view only.'
EXPLANATION_ADDED2 = ' (R9) length observers read the cached length; R3 also forbids returns that bypass the variant match in split_to/split_off; R5 also requires the tail in the new chain.'
EXPLANATION = EXPLANATION + " Added while testing against seeded changes: " + EXPLANATION_ADDED + EXPLANATION_ADDED2
EXPLANATION = EXPLANATION + ' Round 10: R2 also covers every in-place shrinking of a stored chunk (split_to / copy_to_bytes need a strict bound or removal of the emptied chunk; truncate / split_off a non-zero kept length).'
EXPLANATION = EXPLANATION + ' Rounds 14-15 and the value sweep: (R10) caller-supplied counts and indices are used as given (no bit operation, scaling or constant offset on a value derived from an integer parameter).'
EXPLANATION = EXPLANATION + ' Rounds 16-17: (R11) a bounds test that diverges lets `arg == len` through in split_to / split_off / truncate / advance / insert.'
ASSUMPTIONS = [
    "rustc MIR construction is faithful; Vec/Bytes/slice library calls behave as documented "
    "(index/split_at/split_off panic out of range)",
    "facts extracted with debug-assertions off (production behaviour); debug-only verify_invariants is not relied on",
]
NOT_DECIDED = "equivalence with a Vec<u8> model over arbitrary operation sequences; Hash/Ord agreement beyond delegation"

INT_TYPES = {"usize", "u8", "u16", "u32", "u64", "u128", "isize", "i8", "i16", "i32", "i64", "i128"}
LEN_FIELD = "total_remaining_len"
OWNER = "cow_bytes::pbuf::LongChain"


def is_len_field_place(p):
    pr = p.get("p") or []
    return bool(pr) and isinstance(pr[-1], dict) and pr[-1].get("f") == LEN_FIELD and pr[-1].get("o") == OWNER


def is_data_place_node(n):
    n = strip(n)
    return n.kind == "field" and n[2] == "data" and n[3] == OWNER


def stores(crate):
    """Yield (body, bb, idx, value_operand, data_operand|None, how)."""
    for b in crate.bodies:
        for bi, blk in enumerate(b.blocks):
            for si, s in enumerate(blk["stmts"]):
                if s["k"] != "Assign":
                    continue
                if is_len_field_place(s["lhs"]):
                    yield b, bi, si, s, None, "assign"
                rv = s["rv"]
                if rv["k"] == "Aggregate" and rv["agg"]["a"] == "Adt" and rv["agg"]["adt"] == OWNER:
                    yield b, bi, si, s, None, "literal"


def vec_calls_on_data(facts, b, tr, names):
    out = []
    for bi, t in b.calls():
        c = callee(t)
        if not c or c["name"] not in names:
            continue
        if not t["args"]:
            continue
        a0 = tr.operand(t["args"][0])
        if is_data_place_node(a0) or any(is_data_place_node(x) for x in walk(a0) if x.kind == "field"):
            out.append((bi, t, c))
    return out


def check_r1(facts, rep, crate):
    rid = "C20.R1"
    rep.rule(rid, "every store to LongChain.total_remaining_len is zero+clear, a delta paired with the Vec "
                  "mutation of the same element, or an absolute caller-supplied value validated on every path")
    n = 0
    for (b, bi, si, s, _, how) in stores(crate):
        n += 1
        rep.analysed(b)
        tr = Tracer(facts, b)
        where = "%s (%s)" % (loc_str(s["loc"]), b.path)
        key = "%s/%s@%s" % (b.path, how, _ordinal(b, bi, si))
        if how == "literal":
            agg = s["rv"]
            fields = dict(zip(agg["agg"]["fields"], agg["ops"]))
            val = tr.operand(fields[LEN_FIELD])
            data = tr.operand(fields["data"])
        else:
            val = tr.rvalue(s["rv"])
            data = None
        sv = strip(val)
        # (a) zero with cleared / fresh vector
        if sv.kind == "const" and sv[1] == 0:
            if how == "literal":
                d = strip(data)
                okd = d.kind == "call" and d[6] in ("new", "with_capacity", "default")
            else:
                okd = bool(vec_calls_on_data(facts, b, tr, {"clear"}))
            if okd:
                rep.ok(rid, key, where, "zero with cleared/fresh chunk vector")
            else:
                rep.bad(rid, key, where, "length reset to 0 but the chunk vector is not cleared / fresh in this body")
            continue
        if sv.kind == "call" and sv[6] == "default" and how == "literal":
            d = strip(data)
            if d.kind == "call" and d[6] == "default":
                rep.ok(rid, key, where, "Default::default for both fields")
            else:
                rep.bad(rid, key, where, "default length with non-default chunk vector")
            continue
        # copy of both fields (Clone)
        if how == "literal" and _is_self_field(val, LEN_FIELD) and _is_self_field(data, "data"):
            rep.ok(rid, key, where, "copy of both fields of another chain")
            continue
        # (b) delta
        if sv.kind == "bin" and sv[1] in ("Add", "Sub", "AddWithOverflow", "SubWithOverflow", "AddUnchecked", "SubUnchecked"):
            op = "Add" if sv[1].startswith("Add") else "Sub"
            a, c = sv[2], sv[3]
            if _is_len_load(a):
                old, delta = a, c
            elif _is_len_load(c) and op == "Add":
                old, delta = c, a
            else:
                old = None
            if old is not None:
                verdict = _check_delta(facts, rep, b, tr, op, delta, how)
                if verdict is True:
                    rep.ok(rid, key, where, "delta %s %s paired with chunk-vector mutation" % (op, fmt(delta)))
                    continue
                if verdict == "absolute":
                    # old - p : needs p validated like an absolute store
                    pass
                else:
                    rep.bad(rid, key, where, "unrecognised length delta `%s %s`: %s" % (op, fmt(delta), verdict))
                    continue
        # (c) absolute / old - p
        params = sorted(set("param:%s" % x[2] for x in walk(val) if x.kind == "param" and x[3] in INT_TYPES))
        uses_min = any(x.kind == "call" and x[6] in ("min", "clamp") and
                       any(_is_len_load(strip(a)) or _is_len_call(strip(a)) for a in x[3]) for x in walk(val))
        if uses_min:
            rep.ok(rid, key, where, "value clamped by min(_, cached length)")
            continue
        if not params:
            # recomputed from data?
            if any(x.kind == "call" and x[6] in ("sum", "fold") for x in walk(val)):
                rep.ok(rid, key, where, "recomputed from the chunk vector")
                continue
            rep.bad(rid, key, where, "unrecognised idiom for cached-length store: value `%s`" % fmt(val))
            continue
        bad_path = _validate_absolute(facts, rep, b, tr, bi, params)
        if bad_path is None:
            rep.ok(rid, key, where, "absolute value from %s validated on every path" % ",".join(params))
        else:
            rep.bad(rid, key, where,
                    "cached length set from caller-supplied %s without establishing it is <= the real length "
                    "on this path (none of: dominating comparison with the cached length, scan-exhausted "
                    "remainder==0 test / bounds-checked access, min(_, cached))" % ",".join(params),
                    witness=["bb%d %s" % (x, loc_str(b.term(x)["loc"])) for x in bad_path])
    rep.floor(rid, "stores to total_remaining_len", n, 11)


def _ordinal(b, bi, si):
    """Stable ordinal of a store inside its body (no line numbers): index among stores in block order."""
    k = 0
    for bj, blk in enumerate(b.blocks):
        for sj, s in enumerate(blk["stmts"]):
            if s["k"] == "Assign" and (is_len_field_place(s["lhs"]) or (
                    s["rv"]["k"] == "Aggregate" and s["rv"]["agg"]["a"] == "Adt" and s["rv"]["agg"].get("adt") == OWNER)):
                if (bj, sj) == (bi, si):
                    return k
                k += 1
    return k


def _is_self_field(node, f):
    n = strip(node)
    return n.kind == "field" and n[2] == f and n[3] == OWNER


def _is_len_load(node):
    n = strip(node)
    return n.kind == "field" and n[2] == LEN_FIELD and n[3] == OWNER


def _is_len_call(node):
    n = strip(node)
    return n.kind == "call" and n[6] in ("len", "remaining") and "LongChain" in n[2]


def _elem_of_len_call(node):
    """If node is `len(e)` / `remaining(e)` on a CowBytes, return strip(e)."""
    n = strip(node)
    if n.kind == "call" and n[6] in ("len", "remaining") and n[3]:
        return strip(n[3][0])
    return None


def _check_delta(facts, rep, b, tr, op, delta, how):
    e = _elem_of_len_call(delta)
    if e is not None:
        want = {"push", "insert"} if op == "Add" else {"pop", "remove"}
        for (bi, t, c) in vec_calls_on_data(facts, b, tr, want):
            if op == "Add":
                elem = strip(tr.operand(t["args"][-1]))
                if elem == e:
                    return True
            else:
                # element must come from the call result
                res = tr.call_node(bi, t)
                if any(x == res for x in walk(e)) or e == res:
                    return True
        return "no %s of the same element on the chunk vector in this body" % "/".join(sorted(want))
    d = strip(delta)
    if op == "Sub" and d.kind == "call" and d[6] == "min":
        # advance_by = min(next.remaining(), cnt), with next.advance(advance_by)
        for bi, t in b.calls():
            c = callee(t)
            if c and c["name"] == "advance" and len(t["args"]) == 2:
                if strip(tr.operand(t["args"][1])) == d:
                    tgt = tr.operand(t["args"][0])
                    if any(x.kind == "call" and x[6] in ("first_mut", "index_mut", "get_mut") for x in walk(tgt)):
                        # min's operands must include remaining() of the same chunk
                        if any(_elem_of_len_call(a) is not None for a in d[3]):
                            return True
        return "min(..) delta without advance(chunk, same amount)"
    if op == "Sub" and any(l.startswith("param:") for l in leaves(delta)):
        return "absolute"
    return "delta is not the length of an element moved in/out of the chunk vector"


def _validate_absolute(facts, rep, b, tr, store_bb, params):
    """Explorer with validation automaton. Returns a witness path (list of bbs) or None."""
    pnames = set(params)
    guards = {}
    for bb in range(len(b.blocks)):
        if b.term(bb)["k"] == "SwitchInt":
            g = guard_at(facts, b, tr, bb)
            if g is not None and g.kind == "bool":
                guards[bb] = g
            elif g is not None and g.kind == "discr" and g.adt and g.adt.endswith("option::Option"):
                # `for (i, elem) in self.data.iter().enumerate()`: the Option returned by Iterator::next over the chunk vector
                if any(x.kind == "call" and x[6] == "next" for x in walk(g.pred)) and any(is_data_place_node(y) for y in walk(g.pred)):
                    guards[bb] = g

    def derived(node):
        return bool(pnames & leaves(node))

    def classify(g):
        if g.kind == "discr":
            return ("scan_it", None)
        p = strip(g.pred)
        if p.kind != "bin":
            return None
        op, a, c = p[1], p[2], p[3]
        sa, sc = strip(a), strip(c)
        a_len = _is_len_load(sa) or _is_len_call(sa)
        c_len = _is_len_load(sc) or _is_len_call(sc)
        if derived(a) and c_len:
            return ("cmp", {"Le": True, "Lt": True, "Gt": False, "Ge": False, "Eq": True}.get(op))
        if derived(c) and a_len:
            return ("cmp", {"Ge": True, "Gt": True, "Lt": False, "Le": False, "Eq": True}.get(op))
        # scan head: Lt(idx, Vec::len(data))  (either orientation)
        if op == "Lt" and sc.kind == "call" and sc[6] == "len" and sc[3] and is_data_place_node(sc[3][0]):
            return ("scan", None)
        if op == "Gt" and sa.kind == "call" and sa[6] == "len" and sa[3] and is_data_place_node(sa[3][0]):
            return ("scan", None)
        if op in ("Lt", "Le") and derived(a) and not derived(c):
            return ("rem_lt", True)
        if op in ("Gt", "Ge") and derived(c) and not derived(a):
            return ("rem_lt", True)
        if op == "Eq" and derived(a) and sc.kind == "const" and sc[1] == 0:
            return ("rem_zero", True)
        if op == "Ne" and derived(a) and sc.kind == "const" and sc[1] == 0:
            return ("rem_zero", False)
        return None

    cls = {bb: classify(g) for bb, g in guards.items()}

    def on_edge(bb, succ, auto, store):
        if auto == 3:
            return 3
        g = guards.get(bb)
        c = cls.get(bb)
        if g is None or c is None:
            return auto
        val = None
        for s2, v in g.edges:
            if s2 == succ:
                val = v
        kind, want = c
        if kind == "cmp" and want is not None and val == want:
            return 3
        if kind == "scan":
            return 1 if val else 2
        if kind == "scan_it":
            return 1 if val == "Some" else (2 if val == "None" else auto)
        if kind == "rem_lt" and val is True and auto == 1:
            return 3
        if kind == "rem_zero" and val == want and auto in (1, 2):
            return 3
        return auto

    def on_term(bb, t, auto, store):
        if auto == 2 and t["k"] == "Call":
            c = callee(t)
            if c and c["name"] in ("index", "index_mut") and t["args"]:
                a0 = tr.operand(t["args"][0])
                if any(is_data_place_node(x) for x in walk(a0)):
                    return 3
        return auto

    ex = Explorer(facts, b, on_term=on_term, on_edge=on_edge)
    ex.run(0, 0)
    rep.paths += len(ex.seen)
    for st in ex.seen:
        if st[0] == store_bb and st[2] != 3:
            return ex.witness(st)
    return None


def check_r2(facts, rep, crate):
    rid = "C20.R2"
    rep.rule(rid, "no empty chunk: every push/insert into LongChain.data is guarded non-empty or is a strict "
                  "split; an in-place advanced chunk is removed when it becomes empty")
    n = 0
    for b in crate.bodies:
        if "LongChain" not in b.path:
            continue
        tr = Tracer(facts, b)
        # pushes into self.data, or into a vector that becomes `data` of a LongChain literal
        data_vec_locals = set()
        for blk in b.blocks:
            for s in blk["stmts"]:
                if s["k"] == "Assign" and s["rv"]["k"] == "Aggregate" and s["rv"]["agg"]["a"] == "Adt" \
                        and s["rv"]["agg"].get("adt") == OWNER:
                    fields = dict(zip(s["rv"]["agg"]["fields"], s["rv"]["ops"]))
                    dn = tr.operand(fields["data"])
                    for x in walk(dn):
                        if x.kind == "call" and x[6] in ("with_capacity", "new"):
                            data_vec_locals.add(x)
        for bi, t in b.calls():
            c = callee(t)
            if not c or c["name"] not in ("push", "insert") or "Vec" not in c["def"]:
                continue
            a0 = tr.operand(t["args"][0])
            into_data = any(is_data_place_node(x) for x in walk(a0)) or any(x in data_vec_locals for x in walk(a0))
            if not into_data:
                continue
            n += 1
            rep.analysed(b)
            elem = tr.operand(t["args"][-1])
            se = strip(elem)
            where = "%s (%s)" % (loc_str(t["loc"]), b.path)
            key = "%s/%s" % (b.path, c["name"])
            # strict split
            if se.kind == "call" and se[6] in ("split_off", "split_to"):
                at = se[3][1] if len(se[3]) > 1 else None
                if at is not None and _dominated_nonzero(facts, b, tr, bi, at):
                    rep.ok(rid, key, where, "element is a split at a non-zero offset inside a chunk")
                else:
                    rep.bad(rid, key, where, "split element pushed without a dominating `offset != 0` test")
                continue
            if _dominated_nonempty(facts, b, tr, bi, se):
                rep.ok(rid, key, where, "dominated by a non-empty test on the element")
            else:
                rep.bad(rid, key, where,
                        "an empty segment can be stored as a chunk: `%s` into the chunk vector is not dominated "
                        "by an `is_empty()`/`len()` test of the element (Buf contract: chunk() non-empty while "
                        "remaining() > 0)" % c["name"])
        # in-place advance => removal when empty
        for bi, t in b.calls():
            c = callee(t)
            if c and c["name"] == "advance" and c.get("trait", "").endswith("Buf") and len(t["args"]) == 2:
                tgt = tr.operand(t["args"][0])
                if not any(x.kind == "call" and x[6] in ("first_mut", "index_mut", "get_mut") for x in walk(tgt)):
                    continue
                n += 1
                where = "%s (%s)" % (loc_str(t["loc"]), b.path)
                key = "%s/advance-then-remove" % b.path
                # every path from the advance back to loop head / return must pass a remaining()==0 test
                ok = False
                for bb in b.reachable_from(bi):
                    g = guard_at(facts, b, tr, bb) if b.term(bb)["k"] == "SwitchInt" else None
                    if g is None or g.kind != "bool":
                        continue
                    p = strip(g.pred)
                    if p.kind == "bin" and p[1] == "Eq":
                        l, r = strip(p[2]), strip(p[3])
                        if l.kind == "call" and l[6] in ("remaining", "len", "is_empty") and r.kind == "const" and r[1] == 0:
                            tsucc = [s for s, v in g.edges if v is True][0]
                            rm = [x for x in b.reachable_from(tsucc, cut={bb})
                                  if callee(b.term(x)) and callee(b.term(x))["name"] in ("remove", "pop")]
                            if rm and b.dominates(bi, bb):
                                ok = True
                    elif p.kind == "call" and p[6] == "is_empty":
                        tsucc = [s for s, v in g.edges if v is True][0]
                        rm = [x for x in b.reachable_from(tsucc, cut={bb})
                              if callee(b.term(x)) and callee(b.term(x))["name"] in ("remove", "pop")]
                        if rm and b.dominates(bi, bb):
                            ok = True
                if ok:
                    rep.ok(rid, key, where, "chunk removed when it becomes empty after advance")
                else:
                    rep.bad(rid, key, where, "chunk advanced in place is not removed when it becomes empty")
        # any other in-place shrinking of a stored chunk must leave it non-empty
        for bi, t in b.calls():
            c = callee(t)
            if not c or c["name"] not in ("truncate", "split_off", "split_to", "copy_to_bytes", "clear") or not t["args"]:
                continue
            if "Vec" in c.get("def", "") and c["name"] in ("truncate", "split_off", "clear"):
                continue        # the chunk vector itself, not a chunk
            tgt = tr.operand(t["args"][0])
            if not any(x.kind == "call" and x[6] in ("first_mut", "index_mut", "get_mut", "last_mut", "iter_mut") for x in walk(tgt)):
                continue
            n += 1
            rep.analysed(b)
            where = "%s (%s)" % (loc_str(t["loc"]), b.path)
            key = "%s/%s-in-place" % (b.path, c["name"])
            amt = t["args"][1] if len(t["args"]) > 1 else None
            if c["name"] in ("truncate", "split_off"):
                if amt is not None and _dominated_nonzero(facts, b, tr, bi, tr.operand(amt)):
                    rep.ok(rid, key, where, "the chunk keeps a non-zero number of bytes (dominating `!= 0` test of the kept length)")
                else:
                    rep.bad(rid, key, where, "a stored chunk is cut in place to a length that may be 0 and stays in the chain: chunk() can return an empty "
                                             "slice while remaining() > 0 (Buf contract)")
            elif c["name"] == "clear":
                rep.bad(rid, key, where, "a stored chunk is emptied in place and stays in the chain")
            else:
                if amt is not None and _dominated_strictly_less(facts, b, tr, bi, tr.operand(amt)):
                    rep.ok(rid, key, where, "strictly fewer bytes than the chunk holds are taken from it")
                else:
                    rep.bad(rid, key, where, "bytes are taken from the front of a stored chunk in place without a dominating `n < chunk.len()` test and without "
                                             "removing the chunk when it becomes empty: a request for exactly the chunk's length leaves an empty chunk in the "
                                             "chain (chunk() empty while remaining() > 0; owned and borrowed chunks behave differently)")
    rep.floor(rid, "chunk insertions / in-place advances", n, 4)


def _dominated_strictly_less(facts, b, tr, site, node):
    """A dominating edge on which `node < <some>.len()` holds."""
    sn = strip(node)
    for bb in range(len(b.blocks)):
        if b.term(bb)["k"] != "SwitchInt" or not b.dominates(bb, site) or bb == site:
            continue
        g = guard_at(facts, b, tr, bb)
        if g is None or g.kind != "bool":
            continue
        p = strip(g.pred)
        if p.kind != "bin" or p[1] not in ("Lt", "Gt", "Le", "Ge"):
            continue
        l, r = strip(p[2]), strip(p[3])
        def is_len(x):
            return x.kind == "call" and x[6] in ("len", "remaining")
        want = None
        if (l == sn or (leaves(l) & leaves(sn) and not is_len(l))) and is_len(r):
            want = {"Lt": True, "Ge": False}.get(p[1])
        elif (r == sn or (leaves(r) & leaves(sn) and not is_len(r))) and is_len(l):
            want = {"Gt": True, "Le": False}.get(p[1])
        if want is None:
            continue
        for succ, v in g.edges:
            if v == want and b.edge_dominates((bb, succ), site):
                return True
    return False


def _dominated_nonzero(facts, b, tr, site, node):
    sn = strip(node)
    for bb in range(len(b.blocks)):
        if b.term(bb)["k"] != "SwitchInt" or not b.dominates(bb, site) or bb == site:
            continue
        g = guard_at(facts, b, tr, bb)
        if g is None or g.kind != "bool":
            continue
        p = strip(g.pred)
        if p.kind == "bin" and p[1] in ("Eq", "Ne", "Gt"):
            l, r = strip(p[2]), strip(p[3])
            if r.kind == "const" and r[1] == 0 and (l == sn or (leaves(l) & leaves(sn))):
                want = {"Eq": False, "Ne": True, "Gt": True}[p[1]]
                for succ, v in g.edges:
                    if v == want and b.edge_dominates((bb, succ), site):
                        return True
    return False


def _dominated_nonempty(facts, b, tr, site, elem):
    for bb in range(len(b.blocks)):
        if b.term(bb)["k"] != "SwitchInt" or not b.dominates(bb, site) or bb == site:
            continue
        g = guard_at(facts, b, tr, bb)
        if g is None or g.kind != "bool":
            continue
        p = strip(g.pred)
        want = None
        if p.kind == "call" and p[6] == "is_empty" and p[3] and strip(p[3][0]) == elem:
            want = False
        elif p.kind == "bin" and p[1] in ("Eq", "Ne", "Gt", "Lt"):
            l, r = strip(p[2]), strip(p[3])
            if p[1] == "Lt":
                l, r = r, l
                opx = "Gt"
            else:
                opx = p[1]
            if r.kind == "const" and r[1] == 0 and l.kind == "call" and l[6] in ("len", "remaining") \
                    and l[3] and strip(l[3][0]) == elem:
                want = {"Eq": False, "Ne": True, "Gt": True}[opx]
        if want is None:
            continue
        for succ, v in g.edges:
            if v == want and b.edge_dominates((bb, succ), site):
                return True
    return False


def check_r3(facts, rep, crate):
    rid = "C20.R3"
    rep.rule(rid, "hand-written CowBytes::{split_to,split_off,truncate}: borrowed arm = documented slice "
                  "equivalent of the owned arm's Bytes method of the same name")
    n = 0
    for b in crate.bodies:
        if b.kind != "AssocFn" or not b.path.startswith("CowBytes") or b.name not in ("split_to", "split_off", "truncate"):
            continue
        n += 1
        rep.analysed(b)
        tr = Tracer(facts, b)
        where = "%s (%s)" % (loc_str(b.loc), b.path)
        key = "CowBytes::%s" % b.name
        # every result is produced by the variant-wise partition: no return bypasses the match on the variant
        if b.name in ("split_to", "split_off"):
            disc = set()
            for gb in range(len(b.blocks)):
                if b.term(gb)["k"] == "SwitchInt":
                    g = guard_at(facts, b, tr, gb)
                    if g is not None and g.kind == "discr" and g.adt and g.adt.endswith("CowBytes"):
                        disc.add(gb)
            rets = [x for x in b.reachable_from(0, cut=disc) if b.term(x)["k"] == "Return"]
            if disc and not rets:
                rep.ok(rid, key + "/no-bypass", where, "every return goes through the match on the variant")
            else:
                rep.bad(rid, key + "/no-bypass", where,
                        "a return of CowBytes::%s bypasses the variant-wise partition (special-cased argument): for that argument the two halves are "
                        "not those of a byte vector split at the same index, or the variant changes" % b.name)
        # owned arm: a call to bytes::Bytes::<same name>(.., at)
        owned = [t for _, t in b.calls() if callee(t) and callee(t)["name"] == b.name and "bytes::Bytes" in callee(t)["def"]]
        if len(owned) != 1:
            rep.bad(rid, key, where, "owned arm does not delegate to Bytes::%s exactly once" % b.name)
            continue
        at = strip(tr.operand(owned[0]["args"][1]))
        if at.kind != "param":
            rep.bad(rid, key, where, "owned arm passes `%s` instead of the caller's argument" % fmt(at))
            continue
        # borrowed arm
        new_self = None
        ret_tmp = None

        def temp_payload(node):
            for x in walk(node):
                if x.kind == "agg" and x[1] == "adt" and x[2].endswith("CowBytes::Temporary"):
                    return dict(x[3]).get("0")
            return None
        for bi, blk in enumerate(b.blocks):
            if blk["cleanup"]:
                continue
            for s in blk["stmts"]:
                if s["k"] == "Assign" and s["lhs"]["l"] == 1 and s["lhs"].get("p") == ["*"]:
                    new_self = temp_payload(tr.rvalue(s["rv"]))
        ret_tmp = temp_payload(tr.local(0))
        if b.name in ("split_to", "split_off"):
            if new_self is None or ret_tmp is None:
                rep.bad(rid, key, where, "borrowed arm does not rebuild self and the result from a slice split")
                continue
            def half(node):
                n_ = strip(node)
                # field N of split_at(data, at)
                if n_.kind == "field" and n_[2] in ("0", "1"):
                    base = strip(n_[1])
                    if base.kind == "call" and base[6] == "split_at" and len(base[3]) == 2 and strip(base[3][1]) == at:
                        return int(n_[2])
                return None
            hs, hr = half(new_self), half(ret_tmp)
            want = (1, 0) if b.name == "split_to" else (0, 1)
            if (hs, hr) == want:
                rep.ok(rid, key, where, "self<-half %d, result<-half %d of split_at(at)" % want)
            else:
                rep.bad(rid, key, where, "borrowed arm keeps half %s and returns half %s of split_at; owned arm "
                                         "(Bytes::%s) keeps %d / returns %d" % (hs, hr, b.name, want[0], want[1]))
        else:
            if new_self is None:
                rep.bad(rid, key, where, "borrowed arm does not rebuild self from a prefix slice")
                continue
            ns = strip(new_self)
            okp = False
            for x in walk(new_self):
                if x.kind == "call" and x[6] == "index" and len(x[3]) == 2:
                    rng = strip(x[3][1])
                    if rng.kind == "agg" and rng[2].endswith("RangeTo::RangeTo"):
                        end = strip(dict(rng[3]).get("end"))
                        if end == at:
                            okp = True
            if okp:
                rep.ok(rid, key, where, "self<-data[..len]")
            else:
                rep.bad(rid, key, where, "borrowed arm of truncate is not `&data[..len]` of the caller's len")
    # macro-generated delegating methods: both arms call a method of the function's own name
    m = 0
    DELEGATED = {"as_ref", "advance", "remaining", "chunk", "deref", "len", "is_empty"}
    for b in crate.bodies:
        if b.kind != "AssocFn" or "CowBytes" not in b.path:
            continue
        # the byte-view accessors: generated by impl_by_delegate! or written by hand in the same two-arm form
        if not any("impl_by_delegate" in e for e in (b.loc.get("exp") or [])) and not (
                b.name in DELEGATED and (b.j.get("impl_self") or {}).get("s", "").startswith("CowBytes")):
            continue
        m += 1
        rep.analysed(b)
        names = [callee(t)["name"] for _, t in b.calls() if callee(t) and not callee(t)["def"].startswith("core::panicking")]
        where = "%s (%s)" % (loc_str(b.loc), b.path)
        key = "delegate/%s" % b.path
        if len(names) == 2 and names[0] == names[1] == b.name:
            rep.ok(rid, key, where, "both arms call `%s`" % b.name, nontrivial=False)
        else:
            rep.bad(rid, key, where, "delegating accessor arms call %s, expected `%s` twice" % (names, b.name))
    rep.floor(rid, "hand-written variant methods", n, 3)
    rep.floor(rid, "macro-delegated accessors", m, 9)


MUTATORS = {"push", "insert", "pop", "remove", "clear", "truncate", "split_off", "drain", "retain", "swap_remove", "extend", "append",
            "extend_from_slice", "resize", "dedup"}


def check_r4(facts, rep, crate):
    rid = "C20.R4"
    rep.rule(rid, "no unpaired chunk mutation: every body that mutates LongChain.data also writes the cached length (or builds a fresh chain)")
    n = 0
    for b in crate.bodies:
        if "LongChain" not in b.path:
            continue
        tr = Tracer(facts, b)
        muts = vec_calls_on_data(facts, b, tr, MUTATORS)
        muts = [m for m in muts if "Vec" in m[2]["def"] or "vec::" in m[2]["def"]]
        if not muts:
            continue
        n += 1
        rep.analysed(b)
        has_store = any(ob is b for (ob, _, _, _, _, _) in stores(crate))
        where = "%s (%s)" % (loc_str(b.loc), b.path)
        names = sorted(set(m[2]["name"] for m in muts))
        # Buf::advance removes a chunk only when it is empty (length already accounted by the delta): still needs a store
        # path-wise: no way through the function mutates the chunk vector (or replaces it) without a write of the cached length on that path
        store_bbs = set(bb_ for (ob, bb_, _si, _s, _d, how) in stores(crate) if ob is b)
        mut_bbs = set(m[0] for m in muts)
        for bi2, blk2 in enumerate(b.blocks):
            if bi2 not in b.reach0:
                continue
            for s2 in blk2["stmts"]:
                if s2["k"] == "Assign":
                    pr2 = s2["lhs"].get("p") or []
                    fl2 = [e for e in pr2 if isinstance(e, dict) and "f" in e]
                    if fl2 and fl2[-1]["f"] == "data" and (fl2[-1].get("o") or "").endswith("LongChain") and isinstance(pr2[-1], dict):
                        mut_bbs.add(bi2)          # `self.data = ...`
        rets = [x for x in range(len(b.blocks)) if b.term(x)["k"] == "Return"]
        unpaired = None
        for mb in sorted(mut_bbs):
            if mb in store_bbs:
                continue
            before = mb in b.reachable_from(0, cut=store_bbs) or mb == 0
            starts = [mb]
            cm = callee(b.term(mb)) if b.term(mb)["k"] == "Call" else None
            if cm and cm["name"] in ("pop", "pop_front", "pop_back"):
                # `pop()` that returns None removed nothing: only the Some continuation owes a length update
                somes = []
                for gb in range(len(b.blocks)):
                    if b.term(gb)["k"] != "SwitchInt":
                        continue
                    g = guard_at(facts, b, tr, gb)
                    if g is not None and g.kind == "discr" and any(x.kind == "call" and x[4] == mb for x in walk(g.pred)):
                        if (g.adt or "").endswith("option::Option"):
                            somes += [sb for sb, v in g.edges if v == "Some"]
                        elif (g.adt or "").endswith("ControlFlow"):
                            somes += [sb for sb, v in g.edges if v == "Continue"]       # `self.data.pop()?`
                if somes:
                    starts = somes
            after = any(r in b.reachable_from(st_, cut=store_bbs) for st_ in starts for r in rets)
            if before and after:
                unpaired = mb
                break
        if has_store and unpaired is not None:
            rep.bad(rid, b.path + "/path", "%s (%s)" % (loc_str(b.term(unpaired)["loc"]), b.path),
                    "on some path through this function the chunk vector is changed (at %s) but the cached length is not written: len() / remaining() "
                    "then disagree with the contents (e.g. an early return placed before the length update)" % loc_str(b.term(unpaired)["loc"]))
        elif has_store:
            rep.ok(rid, b.path, where, "mutates data via %s and updates total_remaining_len" % names, nontrivial=False)
        else:
            rep.bad(rid, b.path, where, "the chunk vector is mutated (%s) but the cached length is never written in this function: "
                                        "len()/remaining() disagree with the contents afterwards" % names)
    rep.floor(rid, "chunk-vector mutators", n, 7)


def check_r5(facts, rep, crate):
    """Order of chunks when a chain is split inside a chunk: an abstract sequence (HALF = the right half of the
    split chunk, TAIL = the whole chunks after it) is computed for the Vec the half is put into."""
    rid = "C20.R5"
    rep.rule(rid, "chunk order: when LongChain splits inside a chunk, the right half of that chunk precedes the whole chunks that "
                  "followed it in the chain it is moved to (abstract sequence of the Vec-building calls)")
    n = 0
    for b in crate.bodies:
        if "LongChain" not in b.path or "::tests::" in b.path:
            continue
        tr = Tracer(facts, b)

        def kind_of(node):
            node = strip(node)
            if node.kind == "call" and node[6] == "split_off" and "CowBytes" in node[2] and "Vec" not in node[2]:
                return "HALF"
            if node.kind == "call" and node[6] in ("split_off", "drain") and "Vec" in node[2] and \
                    any(is_data_place_node(x) for x in walk(node[3][0])):
                return "TAIL"
            return None
        halves = [bi for bi, t in b.calls() if callee(t) and callee(t)["name"] == "split_off" and "CowBytes" in callee(t)["path"] and "Vec" not in callee(t)["path"]
                  and any(x.kind == "call" and x[6] in ("index_mut", "get_mut", "index", "last_mut", "first_mut") for x in walk(tr.operand(t["args"][0])))]
        if not halves:
            continue
        rep.analysed(b)
        for hb in halves:
            n += 1
            where = "%s (%s)" % (loc_str(b.term(hb)["loc"]), b.path)
            # calls that put this half into a vector
            placed = None
            for bi, t in b.calls():
                c = callee(t)
                if not c or c["name"] not in ("push", "insert", "extend", "append") or "Vec" not in c["path"] + c.get("def", ""):
                    continue
                if any(x.kind == "call" and x[4] == hb for x in walk(tr.operand(t["args"][-1]))):
                    placed = (bi, t)
            if placed is None:
                rep.bad(rid, "%s/half-placed" % b.path, where, "cannot locate where the right half of the split chunk is stored (unrecognised construction; fail closed)")
                continue
            recv = strip(tr.operand(placed[1]["args"][0]))
            if recv.kind != "call":
                rep.bad(rid, "%s/half-placed" % b.path, where, "the split chunk's right half is inserted into `%s`, not into a freshly built vector" % fmt(recv)[:80])
                continue
            init_bb = recv[4]
            seq = []
            k0 = kind_of(recv)
            if k0:
                seq.append(k0)
            ops = []
            for bi, t in b.calls():
                c = callee(t)
                if not c or c["name"] not in ("push", "insert", "extend", "append"):
                    continue
                r2 = strip(tr.operand(t["args"][0]))
                if r2.kind == "call" and r2[4] == init_bb:
                    ops.append((bi, t, c["name"]))
            # total order by dominance
            ops.sort(key=lambda o: sum(1 for p in ops if p[0] != o[0] and b.dominates(p[0], o[0])))
            linear = all(b.dominates(ops[i][0], ops[i + 1][0]) for i in range(len(ops) - 1))
            undecided = not linear
            for bi, t, name in ops:
                k = kind_of(tr.operand(t["args"][-1])) or "?"
                if name in ("push", "extend", "append"):
                    seq.append(k)
                else:
                    idx = const_eval(tr.operand(t["args"][1]))
                    if idx == 0:
                        seq.insert(0, k)
                    else:
                        undecided = True
            if not undecided and "HALF" in seq and "TAIL" not in seq:
                rep.bad(rid, "%s/chunk-order" % b.path, where,
                        "the whole chunks that follow the split chunk are not moved to the new chain (sequence %s): they stay in the original chain "
                        "although its cached length was cut to the split position" % seq)
            elif undecided or "HALF" not in seq:
                rep.bad(rid, "%s/chunk-order" % b.path, where, "cannot decide the chunk order of the vector built here (ops %s; fail closed)" % [o[2] for o in ops])
            elif "TAIL" in seq and seq.index("TAIL") < seq.index("HALF"):
                rep.bad(rid, "%s/chunk-order" % b.path, where,
                        "the right half of the split chunk is placed AFTER the whole chunks that followed it (sequence %s): the bytes of the "
                        "returned chain are out of order whenever the split point is inside a chunk that is not the last" % seq)
            else:
                rep.ok(rid, "%s/chunk-order" % b.path, where, "sequence %s" % seq)
            # the whole-chunk tail starts right after the split chunk
            hidx = None
            for x in walk(tr.operand(b.term(hb)["args"][0])):
                if x.kind == "call" and x[6] in ("index_mut", "index") and len(x[3]) > 1:
                    hidx = strip(x[3][1])
            tails = [strip(x) for bi, t, name in ops for x in walk(tr.operand(t["args"][-1])) if kind_of(x) == "TAIL"]
            if kind_of(recv) == "TAIL":
                tails.append(recv)
            for tl in tails:
                ti = strip(tl[3][1]) if len(tl[3]) > 1 else None
                if ti is not None and ti.kind == "agg" and "RangeFrom" in str(ti[2]):
                    ti = strip(dict(ti[3]).get("start"))       # drain(i + 1..) = split_off(i + 1)
                good = hidx is not None and ti is not None and ti.kind == "bin" and ti[1] == "Add" and \
                    ((strip(ti[2]) == hidx and const_eval(ti[3]) == 1) or (strip(ti[3]) == hidx and const_eval(ti[2]) == 1))
                if good:
                    rep.ok(rid, "%s/tail-after-split-chunk" % b.path, where, "whole chunks taken from index (split chunk + 1)")
                else:
                    rep.bad(rid, "%s/tail-after-split-chunk" % b.path, where,
                            "the whole chunks moved to the new chain start at `%s`, not at (index of the split chunk `%s`) + 1: a chunk is "
                            "duplicated or lost" % (fmt(ti)[:60] if ti is not None else "?", fmt(hidx)[:40] if hidx is not None else "?"))
    rep.floor(rid, "mid-chunk splits of a chain", n, 1)


def check_r6(facts, rep, crate):
    rid = "C20.R6"
    rep.rule(rid, "chunk walk: the remaining-bytes counter of a walk over the chunks is decremented cumulatively by the length of the "
                  "chunk just passed (X = X - len(chunk)), so that counter + bytes of the chunks passed = the requested position")
    n = 0
    for b in crate.bodies:
        if "LongChain" not in b.path or "::tests::" in b.path:
            continue
        tr = Tracer(facts, b)
        for bi, blk in enumerate(b.blocks):
            if blk["cleanup"]:
                continue
            for s in blk["stmts"]:
                if s["k"] != "Assign" or s["lhs"].get("p") or s["rv"]["k"] not in ("BinaryOp", "CheckedBinaryOp"):
                    continue
                v = strip(tr.rvalue(s["rv"]))
                if v.kind != "bin" or not v[1].startswith("Sub"):
                    continue
                sub = strip(v[3])
                if not any(x.kind == "call" and x[6] in ("len", "remaining") and "CowBytes" in x[2] and "Vec" not in x[2] for x in walk(sub)):
                    continue
                X = s["lhs"]["l"]
                if b.locals[X]["s"] not in ("usize",):
                    continue
                n += 1
                rep.analysed(b)
                where = "%s (%s)" % (loc_str(s["loc"]), b.path)
                a = strip(v[2])
                cumulative = (a.kind == "cycle" and a[1] == X) or (a.kind == "phi" and any(y.kind == "cycle" and y[1] == X for y in walk(a)))
                if cumulative:
                    rep.ok(rid, "%s/%s" % (b.path, b.local_name(X)), where, "%s = %s - len(chunk)" % (b.local_name(X), b.local_name(X)))
                else:
                    rep.bad(rid, "%s/%s" % (b.path, b.local_name(X)), where,
                            "the walk counter `%s` is recomputed as `%s - len(chunk)` instead of being decremented: after the second whole "
                            "chunk it no longer equals (requested position - bytes passed), so the cut lands in the wrong place" % (
                                b.local_name(X), fmt(a)[:40]))
    rep.floor(rid, "cumulative walk-counter updates", n, 2)


def check_r7(facts, rep, crate):
    """In-place consumption of a chunk (Buf::advance on LongChain): amount pairing and removal of the exhausted chunk."""
    rid = "C20.R7"
    rep.rule(rid, "advancing inside a chain: the cached length is reduced by exactly the amount passed to the chunk's own advance, and "
                  "the chunk is removed as soon as (and only guarded by) its remaining() == 0, so no empty chunk stays at the front")
    n = 0
    for b in crate.bodies:
        if "LongChain" not in b.path or "::tests::" in b.path:
            continue
        tr = Tracer(facts, b)
        adv = [(bi, t) for bi, t in b.calls() if callee(t) and callee(t)["name"] == "advance" and "CowBytes" in callee(t)["path"]
               and "LongChain" not in callee(t)["path"]]
        if not adv:
            continue
        rep.analysed(b)
        for abi, at in adv:
            n += 1
            where = "%s (%s)" % (loc_str(at["loc"]), b.path)
            amt = strip(tr.operand(at["args"][1]))
            # (a) cached length delta == the amount advanced
            deltas = []
            for ob, obi, si, st, _d, how in stores(crate):
                if ob is b and how == "assign" and st["rv"]["k"] in ("BinaryOp", "CheckedBinaryOp"):
                    v = strip(tr.rvalue(st["rv"]))
                    if v.kind == "bin":
                        deltas.append((v[1], strip(v[3])))
            okd = [x for x in deltas if x[0].startswith("Sub") and x[1] == amt]
            if okd and len(okd) == len(deltas):
                rep.ok(rid, "%s/length-delta" % b.path, where, "total_remaining_len -= (amount passed to the chunk's advance)")
            else:
                rep.bad(rid, "%s/length-delta" % b.path, where,
                        "the cached length is not reduced by the amount actually advanced in the chunk (`%s`; deltas %s): len()/remaining() "
                        "disagree with the bytes left after a partial advance" % (fmt(amt)[:60], [(o, fmt(d)[:30]) for o, d in deltas]))
            # (b) removal of the exhausted chunk
            rem = [bi for bi, t in b.calls() if callee(t) and callee(t)["name"] in ("remove", "pop", "swap_remove", "drain")
                   and "Vec" in callee(t)["path"] and bi in b.reachable_from(b.term(abi)["t"], cut={abi})]
            if not rem:
                rep.bad(rid, "%s/exhausted-chunk-removed" % b.path, where, "an exhausted chunk is never removed after advancing it (empty chunk stays in the chain)")
                continue
            r = rem[0]
            between = [x for x in b.reachable_from(b.term(abi)["t"], cut={r, abi}) if r in b.reachable_from(x, cut={abi}) and b.term(x)["k"] == "SwitchInt"]
            bad = None
            for x in between:
                g = guard_at(facts, b, tr, x)
                pn = strip_casts_local(g.pred) if g is not None else None
                okg = False
                if g is not None and g.kind == "bool" and pn is not None:
                    calls = [y for y in walk(pn) if y.kind == "call" and y[6] in ("remaining", "len", "is_empty", "has_remaining")]
                    others = [y for y in walk(pn) if y.kind in ("param", "cycle") and y.kind == "param" and y[2] not in ("self",)]
                    okg = bool(calls) and not others
                if not okg:
                    bad = x
            if bad is None and between:
                rep.ok(rid, "%s/exhausted-chunk-removed" % b.path, where, "remove guarded only by the chunk's own remaining() == 0")
            else:
                rep.bad(rid, "%s/exhausted-chunk-removed" % b.path, "%s (%s)" % (loc_str(b.term(bad if bad is not None else r)["loc"]), b.path),
                        "the removal of the chunk just advanced depends on something other than that chunk being exhausted: an empty chunk can "
                        "stay at the front of the chain (chunk() returns an empty slice while bytes remain)")
    rep.floor(rid, "in-place chunk advances", n, 1)


def strip_casts_local(n):
    from an import strip_casts
    return strip_casts(n)


def check_r8(facts, rep, crate):
    rid = "C20.R8"
    rep.rule(rid, "borrowed and owned variants are indistinguishable through ==, ordering and hashing: the Eq/Ord/Hash impls of CowBytes "
                  "compare / hash the byte view only (no discriminant is hashed or compared)")
    BYTES = ("<[u8] as", "<&[u8] as", "<bytes::Bytes as", "<&[u8; N] as", "<[u8; N] as", "<alloc::vec::Vec<u8> as", "<&'", "<&[u8]")
    n = 0
    seen_traits = set()
    for b in crate.bodies:
        tr_ = b.j.get("impl_trait") or ""
        sf = (b.j.get("impl_self") or {}).get("adt", "")
        if not sf.endswith("CowBytes") or b.name not in ("hash", "eq", "cmp", "partial_cmp"):
            continue
        n += 1
        rep.analysed(b)
        seen_traits.add(b.name)
        where = "%s (%s)" % (loc_str(b.loc), b.path)
        bad = None
        for bi, t in b.calls():
            c = callee(t)
            if not c:
                continue
            if c["name"] in ("discriminant_value", "discriminant") and ("intrinsics" in c["def"] or "mem::" in c["def"]):
                bad = "the enum discriminant is read as a value (%s)" % c["path"][:60]
            if c["name"] in ("hash", "eq", "ne", "cmp", "partial_cmp", "hash_slice") and not c["path"].startswith(BYTES):
                bad = "`%s` is applied to something that is not a byte view (%s)" % (c["name"], c["path"][:70])
        for blk in b.blocks:
            for st in blk["stmts"]:
                if st["k"] == "Assign" and st["rv"]["k"] in ("BinaryOp",) and str(st["rv"].get("op")) in ("Eq", "Ne", "Lt", "Le", "Gt", "Ge", "Cmp"):
                    bad = bad or "a primitive comparison (of discriminants) decides the result"
        if bad:
            rep.bad(rid, "%s" % b.path, where, "%s: a borrowed and an owned CowBytes with the same bytes compare/hash differently "
                                               "(HashMap lookups by the other variant or by &[u8] miss)" % bad)
        else:
            rep.ok(rid, "%s" % b.path, where, "byte-view based")
    rep.floor(rid, "Eq/Ord/Hash impl bodies of CowBytes", n, 6)
    if "hash" not in seen_traits:
        rep.bad(rid, "hash-impl", "", "no Hash impl body for CowBytes found")


def check_r9(facts, rep, crate):
    rid = "C20.R9"
    rep.rule(rid, "length observers of LongChain read the cached length: len()/remaining() return it, is_empty() is `cached length == 0`")
    n = 0
    for b in crate.bodies:
        if "LongChain" not in b.path or "::tests::" in b.path or b.name not in ("is_empty", "len", "remaining"):
            continue
        tr = Tracer(facts, b)
        n += 1
        rep.analysed(b)
        where = "%s (%s)" % (loc_str(b.loc), b.path)
        r0 = strip(tr.local(0))
        if b.name == "is_empty":
            ok = r0.kind == "bin" and r0[1] == "Eq" and const_eval(r0[3]) == 0 and _is_len_load(strip(r0[2]))
        else:
            ok = _is_len_load(r0)
        if ok:
            rep.ok(rid, "%s" % b.path, where, "reads total_remaining_len")
        else:
            rep.bad(rid, "%s" % b.path, where, "%s() does not report the cached length (`%s`)" % (b.name, fmt(r0)[:60]))
    rep.floor(rid, "length observers", n, 3)


def check_r10_counts_used_as_given(facts, rep, crate):
    """A caller-supplied count (`at`, `len`, `cnt`, an index) enters the chain arithmetic as it is: the only operations the mutators
    apply to it are comparisons, min / max and adding / subtracting chunk lengths. A count that is masked, or-ed, shifted, scaled
    or offset by a constant makes the operation act on a different position than the model's, for some arguments."""
    rid = "C20.R10"
    rep.rule(rid, "caller-supplied counts and indices are used as given: in the LongChain / CowBytes operations no bit operation, multiplication, "
                  "division or constant offset is applied to a value derived from an integer parameter (only comparisons, min / max and +/- of "
                  "chunk lengths)")
    n = 0
    for b in crate.bodies:
        if "::tests::" in b.path or b.kind not in ("AssocFn", "Fn", "Closure"):
            continue
        ints = [i for i in range(1, b.argc + 1) if b.locals[i]["s"] in ("usize", "u32", "u64", "isize")]
        if not ints or not ("pbuf" in b.file or b.file.endswith("cow-bytes/src/lib.rs")):
            continue
        n += 1
        rep.analysed(b)
        tr = Tracer(facts, b)
        bad = None
        for bi, blk in enumerate(b.blocks):
            if blk["cleanup"] or bad:
                continue
            vals = [tr.rvalue(st["rv"]) for st in blk["stmts"] if st["k"] == "Assign"]
            t = blk["term"]
            if t["k"] == "Call":
                vals += [tr.operand(a) for a in t["args"]]
            for v in vals:
                for x in walk(v):
                    if x.kind != "bin":
                        continue
                    op = str(x[1])
                    a_, d_ = strip(x[2]), strip(x[3])
                    touches = any(y.kind == "param" and y[1] in ints for y in walk(x))
                    if not touches:
                        continue
                    if op.startswith(("BitOr", "BitAnd", "BitXor", "Shl", "Shr", "Mul", "Div", "Rem")):
                        bad = (bi, fmt(x)[:80])
                    elif op.startswith(("Add", "Sub")):
                        for side, other in ((a_, d_), (d_, a_)):
                            cv = const_eval(side)
                            if cv is not None and cv != 0 and any(y.kind == "param" and y[1] in ints for y in walk(other)):
                                bad = (bi, fmt(x)[:80])
                    if bad:
                        break
                if bad:
                    break
        where = "%s (%s)" % (loc_str(b.loc), b.path)
        key = "counts-as-given/%s" % b.path.split("::{")[0]
        if bad:
            rep.bad(rid, key, "%s (%s)" % (loc_str(b.term(bad[0])["loc"]), b.path),
                    "a caller-supplied count is not used as given: `%s` - for some arguments the operation splits / truncates / advances at a "
                    "position other than the one requested (and the cached length no longer matches the chunks)" % bad[1])
        else:
            rep.ok(rid, key, where, "counts enter the arithmetic as given", nontrivial=False)
    rep.floor(rid, "operations taking a count or index", n, 6)


def check_r11_end_position_is_in_range(facts, rep, crate):
    """split_to / split_off / truncate / advance / insert at exactly the end are in-range operations of a byte vector (they return or leave
    an empty part): a bounds test of the argument against the length that diverges (panic / assert) must let `arg == len` through."""
    rid = "C20.R11"
    rep.rule(rid, "arguments at the end boundary are in range: in split_to / split_off / truncate / advance / insert no comparison of the "
                  "position argument with the length sends `arg == len` to a panic (Vec and Bytes return an empty half / do nothing there)")
    n = 0
    TRUTH_AT_EQ = {"Lt": False, "Le": True, "Gt": False, "Ge": True, "Eq": True, "Ne": False}
    FLIP = {"Lt": "Gt", "Le": "Ge", "Gt": "Lt", "Ge": "Le", "Eq": "Eq", "Ne": "Ne"}
    for b in crate.bodies:
        if b.name not in ("split_to", "split_off", "truncate", "advance", "insert") or "::tests::" in b.path or b.kind != "AssocFn":
            continue
        ints = [i for i in range(1, b.argc + 1) if b.locals[i]["s"] == "usize"]
        if not ints:
            continue
        n += 1
        rep.analysed(b)
        tr = Tracer(facts, b)
        rets = set(r for r in range(len(b.blocks)) if b.term(r)["k"] == "Return")
        where = "%s (%s)" % (loc_str(b.loc), b.path)
        bad = None
        for gb in range(len(b.blocks)):
            if b.term(gb)["k"] != "SwitchInt":
                continue
            g = guard_at(facts, b, tr, gb)
            if g is None or g.kind != "bool":
                continue
            p_ = strip(g.pred)
            if p_.kind != "bin" or str(p_[1]) not in TRUTH_AT_EQ:
                continue
            l_, r_ = strip(p_[2]), strip(p_[3])
            is_arg = lambda x: x.kind == "param" and x[1] in ints
            is_len = lambda x: x.kind == "call" and x[6] in ("len", "remaining") or (x.kind == "field" and x[2] == "total_remaining_len")
            if is_arg(l_) and is_len(r_):
                op = str(p_[1])
            elif is_arg(r_) and is_len(l_):
                op = FLIP[str(p_[1])]
            else:
                continue
            taken = TRUTH_AT_EQ[op]
            for succ, v in g.edges:
                if v is taken and not (rets & (b.reachable_from(succ) | {succ})):
                    bad = (gb, fmt(p_)[:60])
        key = "end-position-in-range/%s" % b.path.split("::{")[0]
        if bad:
            rep.bad(rid, key, "%s (%s)" % (loc_str(b.term(bad[0])["loc"]), b.path),
                    "`%s` sends an argument equal to the length to a panic: %s at exactly the end is an in-range operation of a byte vector "
                    "(e.g. a Datagram frame with an empty payload is split there)" % (bad[1], b.name))
        else:
            rep.ok(rid, key, where, "arg == len does not diverge", nontrivial=False)
    rep.floor(rid, "position-taking operations", n, 5)


def check(facts, rep, tier, cfg):
    crate = facts.crate("cow_bytes")
    if crate is None:
        rep.bad("C20.R1", "crate", "", "cow_bytes facts missing")
        return
    check_r1(facts, rep, crate)
    check_r2(facts, rep, crate)
    check_r3(facts, rep, crate)
    check_r4(facts, rep, crate)
    check_r5(facts, rep, crate)
    check_r6(facts, rep, crate)
    check_r7(facts, rep, crate)
    check_r8(facts, rep, crate)
    check_r9(facts, rep, crate)
    check_r10_counts_used_as_given(facts, rep, crate)
    check_r11_end_position_is_in_range(facts, rep, crate)
    rep.rule("C20.S7", "no new process-wide mutable state (static cell / lock / once-cell) in the files this property is anchored in")
    import whomay
    whomay.check_new_statics(facts, rep, "C20.S7", "C20")
    whomay.check_new_trait_methods(facts, rep, "C20.S7", "C20")
