"""Analysis primitives over the fact base: provenance tracing (P4), guard polarity (P3),
constant mini-evaluator (P5), product-graph exploration (P6), call-site index (P1)."""
import re
from collections import defaultdict, deque

from mir import place_str, op_str, loc_str, is_noise


# --------------------------------------------------------------------------- helpers

def callee(t):
    """fn-info dict of a Call terminator (or None when the callee is not a constant fn item)."""
    if t["k"] not in ("Call", "TailCall"):
        return None
    f = t["func"]
    if f["k"] == "const" and "fn" in f:
        return f["fn"]
    return None


def callee_def(t):
    c = callee(t)
    return c["def"] if c else ""


def callee_path(t):
    c = callee(t)
    return c["path"] if c else ""


def callee_res(t):
    """Canonical def path of the resolved callee (impl method when resolvable), else the declared one."""
    c = callee(t)
    if not c:
        return ""
    return c.get("res") or c["dp"]


def norm_ty(s):
    """Strip lifetimes / references for loose type comparison."""
    s = re.sub(r"'[a-z_0-9]+ ?", "", s)
    s = s.replace("&mut ", "").replace("&", "")
    return s.strip()


# --------------------------------------------------------------------------- provenance

class Node(tuple):
    """Immutable expression node: (kind, ...)."""
    __slots__ = ()

    @property
    def kind(self):
        return self[0]


def N(*a):
    return Node(a)


TRANSPARENT_NAMES = {
    # value-preserving wrappers (P4 list)
    "into", "from", "clone", "deref", "deref_mut", "as_ref", "as_mut", "borrow", "borrow_mut",
    "to_owned", "into_static", "new_unchecked", "get_mut", "as_mut_ptr", "get_ref", "into_inner",
    "as_slice", "as_bytes", "to_vec", "copied", "cloned", "as_deref", "as_str", "to_string", "lock",
    "read", "write", "project", "get_unchecked_mut",
}


def _is_new_const(facts, item):
    try:
        import normalize
        inv = normalize.inventory()
    except Exception:
        return False
    known = inv.get("__consts__")
    return known is not None and item not in known


class Tracer:
    def __init__(self, facts, body, maxdepth=60):
        self.facts = facts
        self.body = body
        self.memo = {}
        self._open = set()
        self._hits = []
        self._budget = 20000     # recomputations allowed for values seen only inside an open cycle
        self._inprog = set()
        self.maxdepth = maxdepth

    # -- operands / places
    def operand(self, op, depth=0):
        k = op["k"]
        if k in ("copy", "move"):
            return self.place(op["p"], depth)
        if k == "const":
            if "fn" in op:
                return N("fnconst", op["fn"]["path"], op["fn"]["dp"])
            if "closure" in op:
                return N("closureconst", op["closure"])
            if "v" in op:
                return N("const", op["v"], op.get("ty"), op.get("item"))
            if "static" in op:
                return N("static", op["static"], op.get("ty"), op.get("static_path"))
            item = op.get("item")
            if item and depth < 6 and item in self.facts.by_dp and _is_new_const(self.facts, item):
                # a named constant introduced after the pinned tree (normalize.py inventory): read through to its initialiser
                cb = self.facts.by_dp[item]
                ct = getattr(cb, "_const_tracer", None)
                if ct is None:
                    ct = Tracer(self.facts, cb)
                    cb._const_tracer = ct
                return ct.local(0, depth + 1)
            return N("constx", op.get("s"), op.get("ty"), item)
        return N("unknown", k)

    def place(self, place, depth=0):
        projs = place.get("p") or []
        l = place["l"]
        # partial defs with the same projection prefix
        if projs and projs[0] != "*":
            pd = self.body.pdefs.get(l)
            pkey = (l, _proj_sig(projs))
            if pd and pkey not in self._inprog:
                self._inprog.add(pkey)
                try:
                    r = self._place_pdefs(place, l, projs, pd, depth)
                finally:
                    self._inprog.discard(pkey)
                if r is not None:
                    return r
        return self._project(self.local(l, depth), projs, depth)

    def _place_pdefs(self, place, l, projs, pd, depth):
        if True:
            if True:
                cands = []
                for (bi, si, s) in pd:
                    lhs = s["lhs"] if si != "term" else s["dest"]
                    lp = lhs.get("p") or []
                    if len(lp) <= len(projs) and _proj_eq(lp, projs[:len(lp)]):
                        cands.append((bi, si, s, lp))
                if cands and all(len(c[3]) == len(cands[0][3]) for c in cands):
                    k = len(cands[0][3])
                    nodes = [self._def_node(c[0], c[1], c[2], depth + 1) for c in cands]
                    base_defs = self.body.defs.get(l, [])
                    if base_defs or l <= self.body.argc:
                        # also whole-local defs may provide the value
                        nodes.append(self._project(self.local(l, depth + 1), projs[:k], depth))
                    node = nodes[0] if len(nodes) == 1 else N("phi", tuple(_dedup(nodes)))
                    return self._project(node, projs[k:], depth)
        return None

    def _project(self, node, projs, depth):
        for e in projs:
            if e == "*":
                node = node[1] if node.kind == "ref" else N("deref", node)
            elif isinstance(e, str):
                pass
            elif "f" in e:
                node = self._field(node, e)
            elif "as" in e:
                node = N("downcast", node, e["as"])
            elif "idx" in e:
                node = N("index", node, self.local(e["idx"], depth + 1))
            elif "cidx" in e:
                node = N("cindex", node, e["cidx"], e["end"])
            elif "sub" in e:
                node = N("subslice", node, tuple(e["sub"]), e["end"])
        return node

    def _field(self, node, e):
        f = e["f"]
        if node.kind == "agg":
            fields = dict(node[3])
            if f in fields:
                return fields[f]
        if node.kind == "downcast" and node[1].kind == "agg" and node[1][2].endswith("::" + node[2]):
            fields = dict(node[1][3])
            if f in fields:
                return fields[f]
        if node.kind == "phi":
            subs = [self._field(n, e) for n in node[1]]
            return N("phi", tuple(_dedup(subs)))
        return N("field", node, f, e.get("o"))

    def local(self, l, depth=0):
        if l in self.memo:
            m = self.memo[l]
            if m.kind == "cycle" and m[1] == l and l in self._open:
                self._hits.append(l)
            return m
        if depth > self.maxdepth:
            return N("unknown", "depth")
        b = self.body
        self.memo[l] = N("cycle", l)
        self._open.add(l)
        mark = len(self._hits)
        try:
            node = self._local_uncached(l, depth)
        finally:
            self._open.discard(l)
        # a value computed while an *enclosing* local was still open contains that local's cycle marker instead of its value:
        # it is valid only inside that computation and must not be remembered for later queries
        partial = any(h != l and h in self._open for h in self._hits[mark:])
        if not self._open:
            del self._hits[:]
        if partial and self._budget > 0:
            self._budget -= 1
            del self.memo[l]
        else:
            self.memo[l] = node
        return node

    def _local_uncached(self, l, depth):
        b = self.body
        if 1 <= l <= b.argc and not b.defs.get(l):
            node = N("param", l, b.names.get(l, "_%d" % l), b.locals[l]["s"])
        else:
            ds = b.defs.get(l, [])
            if not ds:
                if 1 <= l <= b.argc:
                    node = N("param", l, b.names.get(l, "_%d" % l), b.locals[l]["s"])
                else:
                    node = N("undef", l)
            else:
                nodes = [self._def_node(bi, si, s, depth + 1) for (bi, si, s) in ds]
                if 1 <= l <= b.argc:
                    nodes.append(N("param", l, b.names.get(l, "_%d" % l), b.locals[l]["s"]))
                node = nodes[0] if len(nodes) == 1 else N("phi", tuple(_dedup(nodes)))
        return node

    def _def_node(self, bi, si, s, depth):
        if si == "term":
            if s["k"] == "Call":
                return self.call_node(bi, s, depth)
            return N("resume", bi)
        return self.rvalue(s["rv"], depth, (bi, si))

    def call_node(self, bi, t, depth=0):
        c = callee(t)
        args = tuple(self.operand(a, depth + 1) for a in t["args"])
        if c is None:
            return N("calli", self.operand(t["func"], depth + 1), args, bi)
        if c["name"] in ("inspect", "inspect_err") and args and (c["dp"].startswith("core::option::") or c["dp"].startswith("core::result::")):
            return args[0]      # returns its receiver unchanged; the closure only observes it by reference
        return N("call", c["def"], c["path"], args, bi, c.get("res") or c["dp"], c["name"])

    def rvalue(self, rv, depth=0, at=None):
        k = rv["k"]
        if k == "Use":
            return self.operand(rv["ops"][0], depth)
        if k == "Ref" or k == "RawPtr":
            return N("ref", self.place(rv["place"], depth))
        if k == "Cast":
            return N("cast", self.operand(rv["ops"][0], depth), rv["ty"]["s"], rv["ck"])
        if k == "BinaryOp":
            return N("bin", rv["op"], self.operand(rv["ops"][0], depth), self.operand(rv["ops"][1], depth))
        if k == "UnaryOp":
            return N("un", rv["op"], self.operand(rv["ops"][0], depth))
        if k == "Discriminant":
            pl = rv["place"]
            ty = pl.get("ty") or self.body.locals[pl["l"]]
            return N("discr", self.place(pl, depth), ty.get("adt"))
        if k == "Aggregate":
            a = rv["agg"]
            ops = [self.operand(o, depth + 1) for o in rv["ops"]]
            if a["a"] == "Adt":
                return N("agg", "adt", a["adt"] + "::" + a["variant"], tuple(zip(a["fields"], ops)))
            if a["a"] in ("Closure", "Coroutine", "CoroutineClosure"):
                return N("agg", "closure", a["def"], tuple((str(i), o) for i, o in enumerate(ops)))
            return N("agg", a["a"].lower(), a["a"], tuple((str(i), o) for i, o in enumerate(ops)))
        if k == "Repeat":
            return N("repeat", self.operand(rv["ops"][0], depth), rv["n"])
        return N("unknown", k)


def _proj_sig(projs):
    out = []
    for e in projs:
        if isinstance(e, dict):
            if "f" in e:
                out.append(("f", e["i"]))
            elif "as" in e:
                out.append(("as", e.get("v", e["as"])))
            else:
                out.append(tuple(sorted((k, str(v)) for k, v in e.items())))
        else:
            out.append(e)
    return tuple(out)


def _proj_eq(a, b):
    if len(a) != len(b):
        return False
    for x, y in zip(a, b):
        if isinstance(x, dict) and isinstance(y, dict):
            if "f" in x and "f" in y:
                if x["i"] != y["i"]:
                    return False
                continue
            if "as" in x and "as" in y:
                if x["v"] != y["v"]:
                    return False
                continue
            if x != y:
                return False
        elif x != y:
            return False
    return True


def _dedup(nodes):
    out = []
    seen = set()
    for n in nodes:
        if n.kind == "phi":
            for m in n[1]:
                if m not in seen:
                    seen.add(m)
                    out.append(m)
        elif n not in seen:
            seen.add(n)
            out.append(n)
    return out


def strip(node, extra=()):
    """See through refs, derefs, casts and value-preserving wrapper calls."""
    while True:
        k = node.kind
        if k in ("ref", "deref"):
            node = node[1]
        elif k == "cast":
            node = node[1]
        elif k == "call" and (node[6] in TRANSPARENT_NAMES or node[6] in extra) and node[3]:
            node = node[3][0]
        elif k == "phi" and len(node[1]) == 1:
            node = node[1][0]
        else:
            return node


def walk(node, seen=None):
    """Pre-order iteration over a node DAG."""
    if seen is None:
        seen = set()
    st = [node]
    while st:
        n = st.pop()
        if id(n) in seen:
            continue
        seen.add(id(n))
        yield n
        k = n.kind
        if k in ("ref", "deref", "cast", "discr", "downcast", "repeat"):
            st.append(n[1])
        elif k == "un":
            st.append(n[2])          # ("un", operator, operand)
        elif k == "field":
            st.append(n[1])
        elif k in ("index",):
            st.append(n[1]); st.append(n[2])
        elif k in ("cindex", "subslice"):
            st.append(n[1])
        elif k == "bin":
            st.append(n[2]); st.append(n[3])
        elif k == "call":
            st.extend(n[3])
        elif k == "calli":
            st.append(n[1]); st.extend(n[2])
        elif k == "agg":
            st.extend(v for _, v in n[3])
        elif k == "phi":
            st.extend(n[1])


def leaves(node):
    """Set of leaf descriptors of an expression DAG (strings)."""
    out = set()
    for n in walk(node):
        k = n.kind
        if k == "param":
            out.add("param:%s" % n[2])
        elif k == "field":
            base = strip(n[1])
            out.add("field:%s.%s" % ((n[3] or "?").split("::")[-1], n[2]))
        elif k == "const":
            out.add("const:%s" % (n[1],))
        elif k == "constx":
            out.add("constx:%s" % (n[1],))
        elif k == "call":
            out.add("call:%s" % n[1])
        elif k in ("unknown", "undef", "resume"):
            out.add("%s" % k)
    return out


def field_reads(node):
    """Set of 'Owner.field' names read anywhere in the expression."""
    out = set()
    for n in walk(node):
        if n.kind == "field":
            out.add("%s.%s" % ((n[3] or "?").split("::")[-1], n[2]))
    return out


def calls_in(node):
    return [n for n in walk(node) if n.kind == "call"]


def fmt(node, depth=0):
    """Human-readable rendering of a node (bounded)."""
    if depth > 8:
        return "…"
    k = node.kind
    d = depth + 1
    if k == "param":
        return node[2]
    if k == "const":
        return str(node[1]) if not node[3] else "%s(=%s)" % (node[3].split("::")[-1], node[1])
    if k == "constx":
        return str(node[1])
    if k == "static":
        return "static " + str(node[3])
    if k == "fnconst":
        return "fn " + node[1]
    if k == "field":
        return "%s.%s" % (fmt(node[1], d), node[2])
    if k == "ref":
        return "&" + fmt(node[1], d)
    if k == "deref":
        return "*" + fmt(node[1], d)
    if k == "cast":
        return "(%s as %s)" % (fmt(node[1], d), node[2])
    if k == "bin":
        return "%s(%s, %s)" % (node[1], fmt(node[2], d), fmt(node[3], d))
    if k == "un":
        return "%s(%s)" % (node[1], fmt(node[2], d))
    if k == "call":
        return "%s(%s)" % (node[1], ", ".join(fmt(a, d) for a in node[3]))
    if k == "agg":
        return "%s{%s}" % (node[2].split("::", 1)[-1] if node[1] == "adt" else node[1],
                           ", ".join("%s: %s" % (f, fmt(v, d)) for f, v in node[3]))
    if k == "phi":
        return "phi(%s)" % " | ".join(fmt(a, d) for a in node[1][:6])
    if k == "discr":
        return "discr(%s)" % fmt(node[1], d)
    if k == "downcast":
        return "(%s as %s)" % (fmt(node[1], d), node[2])
    return k


# --------------------------------------------------------------------------- P5 const eval

def const_eval(node, env=None):
    """Evaluate an integer-valued node; returns int or None."""
    if node.kind == "cast":
        v = const_eval(node[1], env)
        if v is None:
            return None
        bits = {"u8": 8, "u16": 16, "u32": 32, "u64": 64, "usize": 64, "u128": 128}.get(node[2])
        if bits and node[3] == "IntToInt":
            return v & ((1 << bits) - 1)
        return v
    if node.kind == "phi" and len(node[1]) == 1:
        return const_eval(node[1][0], env)
    k = node.kind
    if k == "const":
        return node[1]
    if k == "param" and env is not None and node[1] in env:
        return env[node[1]]
    if k == "un" and node[1] == "Not":
        v = const_eval(node[2], env)
        return None if v is None else (0 if v else 1)
    if k == "bin":
        a = const_eval(node[2], env)
        b = const_eval(node[3], env)
        if a is None or b is None:
            return None
        op = node[1].replace("WithOverflow", "").replace("Unchecked", "")
        try:
            return {
                "Add": a + b, "Sub": a - b, "Mul": a * b, "BitAnd": a & b, "BitOr": a | b,
                "BitXor": a ^ b, "Shl": a << b, "Shr": a >> b,
                "Eq": int(a == b), "Ne": int(a != b), "Lt": int(a < b), "Le": int(a <= b),
                "Gt": int(a > b), "Ge": int(a >= b),
            }.get(op)
        except Exception:
            return None
    if k == "field" and node[2] == "0" and node[1].kind == "bin":
        # (AddWithOverflow(a,b)).0
        return const_eval(node[1], env)
    if k == "call":
        nm = node[1]
        if nm.endswith("mem::size_of"):
            m = re.search(r"size_of::<(\w+)>", node[2])
            if m:
                return {"u8": 1, "i8": 1, "u16": 2, "i16": 2, "u32": 4, "i32": 4, "u64": 8, "i64": 8,
                        "u128": 16, "i128": 16, "bool": 1}.get(m.group(1))
        if node[6] in ("from", "into") and node[3]:
            return const_eval(node[3][0], env)
    if k == "phi":
        vals = set(const_eval(n, env) for n in node[1])
        if len(vals) == 1:
            return vals.pop()
    if k == "cindex":
        bs = const_bytes(node[1], env)
        if bs is not None and isinstance(node[2], int) and 0 <= node[2] < len(bs):
            return bs[len(bs) - node[2]] if node[3] else bs[node[2]]
    if k == "call" and node[6] == "port" and node[3]:
        a = _new_args(node[3][0], "SocketAddr")
        if a and len(a) == 2:
            return const_eval(a[1], env)
    return None


def _new_args(node, what):
    """Arguments of a `<what..>::new(..)` constructor call that `node` evaluates to (through refs / moves), else None."""
    n = strip(node)
    while n.kind in ("ref", "deref"):
        n = strip(n[1])
    if n.kind == "call" and n[6] == "new" and what in n[1] + n[2]:
        return n[3]
    return None


def _const_ip(node, env=None):
    n = strip(node)
    while n.kind in ("ref", "deref"):
        n = strip(n[1])
    if n.kind == "call" and n[6] == "ip" and n[3]:
        a = _new_args(n[3][0], "SocketAddr")
        return _const_ip(a[0], env) if a else None
    if n.kind == "constx":
        nm, ty = (n[1] or ""), (n[2] or "")
        v6 = "Ipv6Addr" in ty or "Ipv6Addr" in nm
        if nm.endswith("UNSPECIFIED"):
            return [0] * (16 if v6 else 4)
        if nm.endswith("LOCALHOST"):
            return [0] * 15 + [1] if v6 else [127, 0, 0, 1]
        if nm.endswith("BROADCAST"):
            return [255] * 4
        return None
    a = _new_args(n, "Ipv4Addr")
    if a and len(a) == 4:
        vs = [const_eval(x, env) for x in a]
        return None if any(v is None for v in vs) else vs
    return None


def const_bytes(node, env=None):
    """Byte image of a constant-valued array expression (to_be_bytes / to_le_bytes of a constant, octets() of a constant address)."""
    n = strip(node)
    while n.kind in ("ref", "deref"):
        n = strip(n[1])
    if n.kind == "call" and n[6] in ("to_be_bytes", "to_le_bytes") and n[3]:
        v = const_eval(n[3][0], env)
        m = re.search(r"impl [ui](\d+)", n[1] + " " + n[2])
        if v is None or not m:
            return None
        w = int(m.group(1)) // 8
        bs = [(v >> (8 * i)) & 0xFF for i in range(w)]
        return bs if n[6] == "to_le_bytes" else bs[::-1]
    if n.kind == "call" and n[6] == "octets" and n[3]:
        return _const_ip(n[3][0], env)
    return None


def strip_casts(node):
    while node.kind == "cast" or (node.kind == "phi" and len(node[1]) == 1):
        node = node[1] if node.kind == "cast" else node[1][0]
    return node


# --------------------------------------------------------------------------- P3 guards

class Guard:
    """A branch: for each out-edge the literal that holds on it.
    literal = (pred_node, value) where value is True/False for boolean predicates,
    or a variant name for discriminant switches ('!A|B' for otherwise edges)."""

    def __init__(self, bb, pred, edges, kind, adt=None):
        self.adt = adt
        self.bb = bb
        self.pred = pred      # node (after removing Not)
        self.edges = edges    # list of (succ_bb, value)
        self.kind = kind      # 'bool' | 'discr' | 'int'


_MIRROR = {"Lt": "Gt", "Gt": "Lt", "Le": "Ge", "Ge": "Le", "Eq": "Eq", "Ne": "Ne"}


def canon_cmp(n):
    """One orientation for every comparison: a constant operand goes to the right; two non-constant operands are
    ordered by their printed form.  `0 < size` and `size > 0`, `max <= count` and `count >= max` give the same node."""
    if n.kind != "bin" or n[1] not in _MIRROR:
        return n
    a, b = n[2], n[3]
    ca, cb = const_eval(a) is not None, const_eval(b) is not None
    if ca and not cb:
        swap = True
    elif cb or ca:
        swap = False
    else:
        swap = fmt(strip(b)) < fmt(strip(a))
    if not swap:
        return n
    return N("bin", _MIRROR[n[1]], b, a)


def guard_at(facts, body, tracer, bb):
    t = body.term(bb)
    if t["k"] != "SwitchInt":
        return None
    node = tracer.operand(t["discr"])
    neg = False
    n = node
    while True:
        n2 = strip_casts(n)
        if n2.kind == "un" and n2[1] == "Not":
            neg = not neg
            n = n2[2]
            continue
        if n2.kind == "phi" and len(n2[1]) == 1:
            n = n2[1][0]
            continue
        n = n2
        break
    dty = t["discr"].get("p", {})
    if n.kind == "discr":
        adt = facts.adts.get(n[2]) if n[2] else None
        edges = []
        listed = []
        for v, b in t["targets"]:
            name = None
            if adt:
                for var in adt["variants"]:
                    if var["discr"] == v:
                        name = var["name"]
            if name is None:
                name = "#%d" % v
            listed.append(name)
            edges.append((b, name))
        rest = None
        if adt:
            others = [var["name"] for var in adt["variants"] if var["name"] not in listed]
            rest = "|".join(others) if others else None
        if rest is not None:
            edges.append((t["otherwise"], rest))
        else:
            edges.append((t["otherwise"], None))  # unreachable otherwise
        return Guard(bb, n[1], edges, "discr", n[2])
    # boolean?
    n = canon_cmp(n)
    vals = [v for v, _ in t["targets"]]
    if vals == [0]:
        f_edge = t["targets"][0][1]
        t_edge = t["otherwise"]
        if neg:
            f_edge, t_edge = t_edge, f_edge
        return Guard(bb, n, [(t_edge, True), (f_edge, False)], "bool")
    edges = [(b, v) for v, b in t["targets"]] + [(t["otherwise"], "other")]
    return Guard(bb, n, edges, "int")


def guards_dominating(facts, body, tracer, site_bb):
    """All (guard, value) literals that hold whenever `site_bb` executes (edge dominance)."""
    out = []
    for bb in range(len(body.blocks)):
        if body.term(bb)["k"] != "SwitchInt":
            continue
        if bb not in body.reach0 or not body.dominates(bb, site_bb) or bb == site_bb:
            continue
        g = guard_at(facts, body, tracer, bb)
        if g is None:
            continue
        # group successor blocks by value; an edge dominates the site if removing all other
        # out-edges' targets ... use edge_dominates per distinct target
        by_target = defaultdict(list)
        for succ, val in g.edges:
            by_target[succ].append(val)
        for succ, vals in by_target.items():
            if body.edge_dominates((bb, succ), site_bb):
                out.append((g, succ, vals))
    return out


# --------------------------------------------------------------------------- P6 explorer

def _is_try_branch(t):
    c = callee(t)
    return bool(c and c["name"] == "branch" and ("ops::Try" in c["path"] or "try_trait::Try" in c["def"]))


class Explorer:
    """Worklist exploration of (block, const-store, automaton state).

    `on_stmt(bb, idx, stmt, auto)` and `on_term(bb, term, auto)` return the new automaton
    state; `on_edge(bb, succ, auto, store)` may return None to prune an edge.  Constant
    integer/bool locals and enum-discriminant locals assigned from constant aggregates are
    tracked and used to prune `switchInt`s.  Returns the set of visited states and, per
    state, one predecessor (for witness paths)."""

    def __init__(self, facts, body, on_stmt=None, on_term=None, on_edge=None, budget=200000,
                 init_store=(), track_locals=None):
        self.facts = facts
        self.body = body
        self.on_stmt = on_stmt
        self.on_term = on_term
        self.on_edge = on_edge
        self.budget = budget
        self.init_store = tuple(sorted(init_store, key=lambda kv: str(kv[0])))
        self.parent = {}
        self.exhausted = False
        self.discr_locals = self._discr_locals(body)

    @staticmethod
    def _discr_locals(body):
        cache = getattr(body, "_discr_locals", None)
        if cache is not None:
            return cache
        out = set()
        copies = []
        fcopies = []     # dst = move (src.idx)
        tdefs = []       # lhs = Tuple(op locals)
        for blk in body.blocks:
            for s in blk["stmts"]:
                if s["k"] != "Assign":
                    continue
                rv = s["rv"]
                if rv["k"] == "Discriminant" and not rv["place"].get("p"):
                    out.add(rv["place"]["l"])
                elif rv["k"] == "Use" and not s["lhs"].get("p") and rv["ops"][0]["k"] in ("copy", "move") and not rv["ops"][0]["p"].get("p"):
                    copies.append((s["lhs"]["l"], rv["ops"][0]["p"]["l"]))
                elif rv["k"] == "Use" and not s["lhs"].get("p") and rv["ops"][0]["k"] in ("copy", "move"):
                    pr = rv["ops"][0]["p"].get("p") or []
                    if len(pr) == 1 and isinstance(pr[0], dict) and "f" in pr[0]:
                        fcopies.append((s["lhs"]["l"], rv["ops"][0]["p"]["l"], pr[0]["i"]))
                elif rv["k"] == "Aggregate" and rv["agg"]["a"] == "Tuple" and not s["lhs"].get("p"):
                    tdefs.append((s["lhs"]["l"], [o["p"]["l"] if o["k"] in ("copy", "move") and not o["p"].get("p") else None
                                                  for o in rv["ops"]]))
        need = set()
        for blk in body.blocks:
            t = blk["term"]
            if t["k"] == "Call" and _is_try_branch(t) and t["args"] and t["args"][0].get("p") and not t["args"][0]["p"].get("p"):
                out.add(t["args"][0]["p"]["l"])
        changed = True
        while changed:
            changed = False
            for dst, src in copies:
                if dst in out and src not in out:
                    out.add(src)
                    changed = True
                for (l, i) in list(need):
                    if l == dst and (src, i) not in need:
                        need.add((src, i))
                        changed = True
            # a variant carried through a tuple (`let (n, eof, err) = helper(..)`; `if let Some(e) = err`)
            for dst, src, i in fcopies:
                if dst in out and (src, i) not in need:
                    need.add((src, i))
                    changed = True
            for lhs, ops in tdefs:
                for (l, i) in list(need):
                    if l == lhs and i < len(ops) and ops[i] is not None and ops[i] not in out:
                        out.add(ops[i])
                        changed = True
        body._discr_locals = out
        return out

    def _const_of(self, op, store):
        k = op["k"]
        if k == "const":
            return op.get("v")
        if k in ("copy", "move"):
            p = op["p"]
            pr = p.get("p")
            if not pr:
                return store.get(p["l"])
            if len(pr) == 1 and isinstance(pr[0], dict) and "f" in pr[0]:
                base = store.get(p["l"])
                if isinstance(base, tuple) and base and base[0] == "T":
                    i = pr[0]["i"]
                    if i < len(base[1]):
                        return base[1][i]
                if p["l"] == 1:
                    return store.get(("u", pr[0]["i"]))
            if len(pr) == 2 and pr[0] == "*" and isinstance(pr[1], dict) and "f" in pr[1] and p["l"] == 1:
                return store.get(("u", pr[1]["i"]))
        return None

    def _transfer_stmt(self, s, store):
        if s["k"] != "Assign":
            return
        lhs = s["lhs"]
        if lhs.get("p"):
            # write through projection: kill if base tracked as scalar
            return
        l = lhs["l"]
        rv = s["rv"]
        val = None
        if rv["k"] == "Use":
            val = self._const_of(rv["ops"][0], store)
        elif rv["k"] == "UnaryOp" and rv["op"] == "Not":
            v = self._const_of(rv["ops"][0], store)
            if v is not None:
                val = 0 if v else 1
        elif rv["k"] == "BinaryOp":
            a = self._const_of(rv["ops"][0], store)
            b = self._const_of(rv["ops"][1], store)
            if a is not None and b is not None:
                op = rv["op"]
                val = {"Eq": int(a == b), "Ne": int(a != b), "Lt": int(a < b), "Le": int(a <= b),
                       "Gt": int(a > b), "Ge": int(a >= b), "BitAnd": a & b, "BitOr": a | b}.get(op)
        elif rv["k"] == "Aggregate" and rv["ops"] and (rv["agg"]["a"] == "Tuple" or (
                rv["agg"]["a"] in ("Closure", "Coroutine", "CoroutineClosure") and rv["agg"].get("spliced"))):
            # (captured constants of a coroutine whose body was spliced into this one by normalize.py are read back as `_env.N`)
            vs = [self._const_of(o, store) for o in rv["ops"]]
            vs = [None if (isinstance(v, tuple) and v[:1] != ("V",)) else v for v in vs]
            if any(v is not None for v in vs):
                val = ("T", tuple(vs))
        elif rv["k"] == "Aggregate" and rv["agg"]["a"] == "Adt" and (not rv["ops"] or l in self.discr_locals):
            # enum variant (payload ignored): remember as ('V', adt, variant index); variants with a payload
            # are tracked only for locals whose discriminant is inspected later (keeps the store small)
            val = ("V", rv["agg"]["adt"], rv["agg"]["vi"])
        elif rv["k"] == "Discriminant":
            pl = rv["place"]
            if not pl.get("p"):
                v = store.get(pl["l"])
                if isinstance(v, tuple) and v[0] == "V":
                    adt = self.facts.adts.get(v[1])
                    if adt:
                        for var in adt["variants"]:
                            if var["idx"] == v[2] and var["discr"] is not None:
                                val = var["discr"]
        if val is None:
            store.pop(l, None)
        else:
            store[l] = val

    def run(self, start_bb=0, auto0=None):
        body = self.body
        init = (start_bb, self.init_store, auto0)
        seen = {init}
        self.parent[init] = None
        wl = deque([init])
        finals = []
        while wl:
            if len(seen) > self.budget:
                self.exhausted = True
                break
            st = wl.popleft()
            bb, store_t, auto = st
            store = dict(store_t)
            blk = body.blocks[bb]
            autos = [auto]
            for i, s in enumerate(blk["stmts"]):
                self._transfer_stmt(s, store)
                if self.on_stmt:
                    self.cur_store = store
                    nxt = []
                    for a in autos:
                        r = self.on_stmt(bb, i, s, a)
                        if r is STOP:
                            continue
                        if isinstance(r, Multi):
                            nxt.extend(r.items)
                        else:
                            nxt.append(r)
                    autos = nxt
                    if not autos:
                        break
            if not autos:
                continue
            t = blk["term"]
            if self.on_term:
                self.cur_store = store
                nxt = []
                for a in autos:
                    r = self.on_term(bb, t, a, store)
                    if r is STOP:
                        continue
                    if isinstance(r, Multi):
                        nxt.extend(r.items)
                    else:
                        nxt.append(r)
                autos = nxt
                if not autos:
                    continue
            autos = list(dict.fromkeys(autos))
            k = t["k"]
            succs = body.succ[bb]
            if k == "SwitchInt":
                v = self._const_of(t["discr"], store)
                if v is not None and not isinstance(v, tuple):
                    tgt = t["otherwise"]
                    for val, b in t["targets"]:
                        if val == v:
                            tgt = b
                    succs = [tgt]
            elif k == "Call":
                d = t["dest"]
                if not d.get("p"):
                    store.pop(d["l"], None)
                    # `?` on a value whose variant is known on this path (a helper inlined by normalize.py returns
                    # Ok / Err / Some / None on distinct paths): Try::branch maps Ok|Some -> Continue, Err|None -> Break
                    cc = callee(t)
                    if cc and cc["name"] == "from_residual" and d["l"] in self.discr_locals:
                        # `?` inside an inlined helper: the helper's result on this path is the failure variant
                        dadt = (self.body.locals[d["l"]].get("adt") or "")
                        want = "Err" if dadt.endswith("result::Result") else "None" if dadt.endswith("option::Option") else None
                        fa = self.facts.adts.get(dadt)
                        if want and fa:
                            for var in fa["variants"]:
                                if var["name"] == want:
                                    store[d["l"]] = ("V", dadt, var["idx"])
                    if _is_try_branch(t) and t["args"]:
                        v = self._const_of(t["args"][0], store)
                        if isinstance(v, tuple) and v and v[0] == "V":
                            adt = self.facts.adts.get(v[1])
                            nm = None
                            if adt:
                                for var in adt["variants"]:
                                    if var["idx"] == v[2]:
                                        nm = var["name"]
                            cf = self.facts.adts.get("core::ops::control_flow::ControlFlow")
                            if nm in ("Ok", "Some", "Err", "None") and cf:
                                want = "Continue" if nm in ("Ok", "Some") else "Break"
                                for var in cf["variants"]:
                                    if var["name"] == want:
                                        store[d["l"]] = ("V", "core::ops::control_flow::ControlFlow", var["idx"])
            if k in ("Return", "Unreachable", "UnwindResume", "CoroutineDrop") or not succs:
                for auto in autos:
                    finals.append((st, auto, k))
                continue
            store_t2 = tuple(sorted(store.items(), key=lambda kv: str(kv[0])))
            for auto in autos:
                for s in dict.fromkeys(succs):
                    a2 = auto
                    if self.on_edge:
                        a2 = self.on_edge(bb, s, auto, store)
                        if a2 is STOP:
                            continue
                    ns = (s, store_t2, a2)
                    if ns not in seen:
                        seen.add(ns)
                        self.parent[ns] = st
                        wl.append(ns)
        self.seen = seen
        self.finals = finals
        return finals

    def witness(self, st):
        path = []
        while st is not None:
            path.append(st[0])
            st = self.parent.get(st)
        path.reverse()
        # compress consecutive duplicates
        out = []
        for b in path:
            if not out or out[-1] != b:
                out.append(b)
        return out


class _Stop:
    pass


class Multi:
    """on_term may return Multi([...]) to fork the automaton state."""

    def __init__(self, items):
        self.items = list(items)


STOP = _Stop()


# --------------------------------------------------------------------------- P1 call index

class CallIndex:
    def __init__(self, facts):
        self.facts = facts
        self.sites = []  # (body, bb, term, calleeinfo)
        self.by_name = defaultdict(list)
        self.callers = defaultdict(list)  # canonical dp of callee -> [(body, bb, term)]
        for b in facts.all_bodies():
            for bi, t in b.calls():
                c = callee(t)
                if c is None:
                    continue
                self.sites.append((b, bi, t, c))
                self.by_name[c["name"]].append((b, bi, t, c))
                self.callers[c.get("res") or c["dp"]].append((b, bi, t))
                if c.get("res"):
                    self.callers[c["dp"]].append((b, bi, t))
        # call sites replaced by an inlined copy of the callee (normalize.py): still the binding sites of its parameters
        for (b, bi, t) in getattr(facts, "inlined_sites", []):
            c = callee(t)
            if c is not None:
                self.callers[c.get("res") or c["dp"]].append((b, bi, t))

    def find(self, def_re=None, path_re=None, crate=None, name=None):
        rd = re.compile(def_re) if def_re else None
        rp = re.compile(path_re) if path_re else None
        src = self.by_name.get(name, []) if name else self.sites
        for (b, bi, t, c) in src:
            if crate and b.crate.name != crate:
                continue
            if rd and not rd.search(c["def"]):
                continue
            if rp and not rp.search(c["path"]):
                continue
            yield b, bi, t, c


def logical_root(facts, body):
    """Top-level fn/method that (transitively) contains this body (closures, coroutines)."""
    b = body
    while b.kind in ("Closure", "InlineConst", "SyntheticCoroutineBody") and b.parent and b.parent in facts.by_dp:
        b = facts.by_dp[b.parent]
    return b


def nested_bodies(facts, body):
    """All bodies nested in `body` (closures, coroutines), including itself."""
    out = [body]
    st = [body]
    while st:
        b = st.pop()
        for c in b.crate.children.get(b.dp, []):
            if c.kind in ("Closure", "InlineConst", "SyntheticCoroutineBody"):
                out.append(c)
                st.append(c)
    return out


def site_str(body, bb):
    t = body.term(bb)
    return "%s (%s, bb%d)" % (loc_str(t.get("fnloc") or t.get("loc")), body.path, bb)


# --------------------------------------------------------------------------- interprocedural expansion

class Inter:
    """Expand closure upvars and function parameters to the expressions bound at the creation / call
    sites inside the workspace (P4: closure upvars + callee parameters, depth-bounded)."""

    def __init__(self, facts, maxdepth=6, scope=None, root=None):
        self.facts = facts
        self.maxdepth = maxdepth
        self.scope = scope      # optional set of body dps whose call sites may bind parameters
        self.root = root        # optional body dp at which upvar expansion stops
        self.tracers = {}
        self.index = None
        self._creation = {}

    def tracer(self, body):
        t = self.tracers.get(body.dp)
        if t is None:
            t = Tracer(self.facts, body)
            self.tracers[body.dp] = t
        return t

    def call_index(self):
        if self.index is None:
            self.index = CallIndex(self.facts)
        return self.index

    def creation_site(self, body):
        """(parent_body, operands) of the Aggregate that creates this closure/coroutine."""
        if body.dp in self._creation:
            return self._creation[body.dp]
        res = None
        parent = self.facts.by_dp.get(body.parent) if body.parent else None
        if parent is not None:
            for blk in parent.blocks:
                for s in blk["stmts"]:
                    if s["k"] == "Assign" and s["rv"]["k"] == "Aggregate":
                        a = s["rv"]["agg"]
                        if a["a"] in ("Closure", "Coroutine", "CoroutineClosure") and a["def"] == body.dp:
                            res = (parent, s["rv"]["ops"])
        self._creation[body.dp] = res
        return res

    def expand(self, body, node, depth=0, seen=None):
        """Return a node where upvar reads / params are replaced (phi of call-site bindings)."""
        if depth > self.maxdepth:
            return node
        memo = {}

        def rec(n):
            key = id(n)
            if key in memo:
                return memo[key]
            memo[key] = n
            r = self._expand1(body, n, depth, rec)
            memo[key] = r
            return r
        return rec(node)

    def _expand1(self, body, n, depth, rec):
        k = n.kind
        if k == "field":
            base = n[1]
            b2 = base
            while b2.kind in ("deref", "ref"):
                b2 = b2[1]
            if b2.kind == "param" and b2[1] == 1 and body.kind == "Closure" and n[2].isdigit() and body.dp != self.root:
                cs = self.creation_site(body)
                if cs is not None:
                    parent, ops = cs
                    i = int(n[2])
                    if i < len(ops):
                        pn = self.tracer(parent).operand(ops[i])
                        return self.expand(parent, pn, depth + 1)
            return N("field", rec(n[1]), n[2], n[3])
        if k == "param":
            if body.kind in ("Fn", "AssocFn") and depth < self.maxdepth:
                sites = self.call_index().callers.get(body.dp, [])
                outs = []
                if self.scope is not None:
                    sites = [x for x in sites if x[0].dp in self.scope]
                for (cb, bi, t) in sites[:8]:
                    i = n[1] - 1
                    if i < len(t["args"]):
                        an = self.tracer(cb).operand(t["args"][i])
                        outs.append(self.expand(cb, an, depth + 1))
                if outs:
                    outs = _dedup(outs)
                    return outs[0] if len(outs) == 1 else N("phi", tuple(outs))
            return n
        if k == "un":
            return N("un", n[1], rec(n[2]))
        if k in ("ref", "deref", "discr", "repeat"):
            return N(k, rec(n[1]), *n[2:])
        if k == "cast":
            return N("cast", rec(n[1]), n[2], n[3])
        if k == "downcast":
            return N("downcast", rec(n[1]), n[2])
        if k == "bin":
            return N("bin", n[1], rec(n[2]), rec(n[3]))
        if k == "call":
            return N("call", n[1], n[2], tuple(rec(a) for a in n[3]), n[4], n[5], n[6])
        if k == "agg":
            return N("agg", n[1], n[2], tuple((f, rec(v)) for f, v in n[3]))
        if k == "phi":
            return N("phi", tuple(_dedup([rec(x) for x in n[1]])))
        return n


# ---------------------------------------------------------------- value preservation ("exactness")
_PRESERVING_CALLS = {"into", "from", "clone", "deref", "deref_mut", "as_ref", "as_mut", "borrow", "to_owned", "get", "load", "try_from", "try_into",
                     "expect", "unwrap", "copied", "cloned", "as_slice", "as_bytes", "to_vec", "into_static", "freeze", "branch", "into_inner",
                     "new", "as_str", "into_boxed_slice", "into_vec", "copy_from_slice", "from_static"}
_INT_BITS = {"u8": 8, "i8": 8, "u16": 16, "i16": 16, "u32": 32, "i32": 32, "u64": 64, "i64": 64, "usize": 64, "isize": 64, "u128": 128, "i128": 128,
             "bool": 1}


def inexact_steps(node, is_source, min_bits=None, extra_calls=()):
    """What lies between `node` and its sources (nodes for which is_source(n) holds) other than moves, joins and value-preserving
    conversions: arithmetic, non-conversion calls, and integer casts to fewer than `min_bits` bits. Empty list = the value IS the source."""
    out = []
    stk = [node]
    seen = set()
    while stk:
        x = stk.pop()
        if id(x) in seen:
            continue
        seen.add(id(x))
        if is_source(x):
            continue
        k = x.kind
        if k in ("ref", "deref", "downcast", "discr"):
            stk.append(x[1])
        elif k == "field":
            stk.append(x[1])
        elif k == "cast":
            bits = _INT_BITS.get(str(x[2]))
            if min_bits is not None and bits is not None and bits < min_bits and "IntToInt" in str(x[3]):
                out.append("narrowing cast to %s" % x[2])
            stk.append(x[1])
        elif k == "phi":
            stk.extend(x[1])
        elif k == "call" and (x[6] in _PRESERVING_CALLS or x[6] in extra_calls) and x[3]:
            stk.append(x[3][0])
        elif k == "agg" and x[1] == "adt" and str(x[2]).endswith(("Result::Ok", "Option::Some", "ControlFlow::Continue", "Poll::Ready")) and x[3]:
            stk.append(x[3][0][1])          # a success wrapper built around the value (an expanded map / map_err / `?`)
        elif k == "agg" and x[1] == "adt" and str(x[2]).endswith(("Result::Err", "Option::None", "ControlFlow::Break", "Poll::Pending")):
            continue                        # the failure alternative of such a wrapper carries no value of the success path
        elif k in ("param", "const", "constx", "agg", "cycle"):
            if k != "param":
                out.append(fmt(x)[:80])
        else:
            out.append(fmt(x)[:100])
    return out
