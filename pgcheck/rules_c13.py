"""C13 The stream-to-socket bridge: readiness / error discipline, half-close."""
from an import (Tracer, Explorer, guard_at, strip, walk, fmt, callee, STOP, const_eval)
from mir import loc_str
from shared import s2_unjustified_pending, is_poll_body, POLL_ADT
from muxcommon import *

EXPLANATION = (
    "Decided on every CFG path of the bridge's poll functions: (R1) no `Poll::Pending` is returned unless the "
    "path took the Pending edge of a poll that received the task context or registered a waker (product-graph "
    "exploration; the Ready(Err) edge of a `while let Poll::Ready(Ok(_))` shares the loop exit with the Pending "
    "edge and is told apart only by the path); (R2) every explicit match on an io::Result in the bridge sends "
    "its Err edge to an error return; (R3) end-of-stream becomes half-close: the mux->local Done state is "
    "stored only after the local side's poll_shutdown returned Ready, the local->mux Done state only after the "
    "stream's local-shutdown (Finish) call, and neither direction writes the other's state; (R4) nothing is "
    "consumed from the local side before the credit take, and each consume() takes the length of the chunk that "
    "was appended; (R5) byte counters are advanced by exactly the amounts consumed / queued.")
EXPLANATION_ADDED = "R4 also decides: local EOF -> Finish is reachable without a credit take, every credit take builds a Push, mux->local consumes what poll_write reported; (R5) every consume is counted and every count stored in a direction's state derives from the previous state's count; (R6) in the joint poll both `?` dominate every Pending exit."
EXPLANATION_ADDED2 = ' (R7) both directions start in the constant Transferring(0).'
EXPLANATION = EXPLANATION + " Added while testing against seeded changes: " + EXPLANATION_ADDED + EXPLANATION_ADDED2
EXPLANATION = EXPLANATION + ' Round 10: (R8) no read of one end waits for a flush of that same end; (R9) when the stream has nothing more to relay the bridge goes idle only after poll_flush of the local side (a dirty-flag shortcut is accepted only if the flag is cleared after a completed flush and set after every write).'
EXPLANATION = EXPLANATION + " Rounds 14-15: R5 also requires, path-wise, that the running byte total is written to the direction's state before the function can return Pending."
ASSUMPTIONS = ["AsyncBufRead/AsyncWrite implementations of the local side honour the tokio contracts "
               "(a Pending return has registered the waker)"]
NOT_DECIDED = "scripts of partial readiness and byte-exact relaying at run time"
BRIDGE_ADT = "penguin_mux::stream_tools::copy_bidirectional::CopyBidirectional"


def bridge_bodies(crate):
    out = []
    for b in crate.bodies:
        s = b.j.get("impl_self", {})
        if s.get("adt") == BRIDGE_ADT and is_poll_body(b):
            out.append(b)
    return out


def check(facts, rep, tier, cfg):
    crate = facts.crate("penguin_mux")
    if crate is None:
        rep.bad("C13.R1", "crate", "", "penguin_mux facts missing")
        return
    bodies = bridge_bodies(crate)
    rep.rule("C13.R1", "S2: no Poll::Pending without a justifying event on the path (bridge poll functions)")
    for b in bodies:
        rep.analysed(b)
        out, states, exh = s2_unjustified_pending(facts, b)
        rep.paths += states
        if exh:
            rep.bad("C13.R1", "%s/budget" % b.path, b.path, "state budget exceeded (fail closed)")
        if not out:
            rep.ok("C13.R1", b.path, "%s (%s)" % (loc_str(b.loc), b.path), "%d product states, every Pending justified" % states)
        for k, (wit, pb) in enumerate(out):
            rep.bad("C13.R1", "%s/pending#%d" % (b.path, k), "%s (%s)" % (loc_str(b.term(pb)["loc"]) if pb is not None else "?", b.path),
                    "Poll::Pending is returned on a path that neither took the Pending edge of a poll that received the "
                    "context nor registered a waker: the bridge parks with no wake-up although an operation already "
                    "completed (e.g. the Ready(Err) exit of `while let Poll::Ready(Ok(_))`)",
                    witness=["bb%d %s" % (x, loc_str(b.term(x)["loc"])) for x in wit[-16:]])
    rep.floor("C13.R1", "bridge poll functions", len(bodies), 3)
    check_r2(facts, rep, bodies)
    check_r3(facts, rep, crate, bodies)
    check_r4(facts, rep, crate, bodies)
    check_r5_counters(facts, rep, bodies)
    check_r5_saved_before_pending(facts, rep, bodies)
    check_r6_joint(facts, rep, crate, bodies)
    check_r7_initial_state(facts, rep, crate)
    check_r8_read_not_gated_on_flush(facts, rep, bodies)
    check_r9_flush_before_idle(facts, rep, bodies)
    # ---- R10 one unit of credit per frame sent by the bridge (= the C03 credit rules, instances in the bridge)
    rep.rule("C13.R10", "every Push the bridge queues is paid for by its own credit take: the queue send is dominated by the success edge of a take and "
                        "every cycle through it passes a take (= C03.R1 / R2 / R7 on the bridge)")
    import rules_c03
    sub = type(rep)(rep.prop, rep.tier, rep.config)
    rules_c03.check(facts, sub, tier, cfg)
    k10 = 0
    for i in sub.instances:
        if i["rule"] in ("C03.R1", "C03.R7") and "copy_bidirectional" in (i["where"] + i["key"]):
            k10 += 1
            rep.ok("C13.R10", "%s/%s" % (i["rule"], i["key"]), i["where"], i["detail"], nontrivial=False)
    for v in sub.violations:
        if v["rule"] in ("C03.R1", "C03.R2", "C03.R7") and "copy_bidirectional" in (v["where"] + v["key"]):
            k10 += 1
            rep.bad("C13.R10", v["key"], v["where"], v["msg"])
    rep.floor("C13.R10", "credit obligations of the bridge", k10, 1)
    rep.rule("C13.S7", "no new process-wide mutable state (static cell / lock / once-cell) in the files this property is anchored in")
    import whomay
    whomay.check(facts, rep, "C13.S7", "C13")
    whomay.check_new_statics(facts, rep, "C13.S7", "C13")
    whomay.check_new_trait_methods(facts, rep, "C13.S7", "C13")


def check_r2(facts, rep, bodies):
    rid = "C13.R2"
    rep.rule(rid, "every explicit match on an io::Result in the bridge sends the Err edge to an error return")
    n = 0
    for b in bodies:
        tr = Tracer(facts, b)

        def classify(s):
            if s["k"] == "Assign" and s["lhs"]["l"] == 0 and not s["lhs"].get("p"):
                rv = s["rv"]
                if rv["k"] == "Aggregate" and rv["agg"]["a"] == "Adt" and rv["agg"]["adt"] == POLL_ADT:
                    if rv["agg"]["variant"] == "Ready" and rv["ops"]:
                        inner = strip(tr.operand(rv["ops"][0]))
                        if inner.kind == "agg" and inner[2].endswith("Result::Err"):
                            return "Err"
                    return "NonErr"
                return "NonErr"
            return None

        for bb in range(len(b.blocks)):
            if b.term(bb)["k"] != "SwitchInt":
                continue
            g = guard_at(facts, b, tr, bb)
            if g is None or g.kind != "discr" or not g.adt or not g.adt.endswith("result::Result"):
                continue
            # only io results produced by polling / IO calls
            if not any(x.kind == "call" for x in walk(g.pred)):
                continue
            err_succ = [s for s, v in g.edges if v == "Err"]
            if not err_succ:
                continue
            n += 1

            def on_stmt(bb2, i, s, auto):
                c = classify(s)
                return c if c is not None else auto

            def on_term(bb2, t, auto, store):
                if t["k"] == "Call" and t["dest"]["l"] == 0 and not t["dest"].get("p"):
                    c = callee(t)
                    return "Err" if c and c["name"] == "from_residual" else "NonErr"
                return auto
            ex = Explorer(facts, b, on_stmt=on_stmt, on_term=on_term)
            finals = ex.run(err_succ[0], None)
            rep.paths += len(ex.seen)
            bad = [st for st, auto, kind in finals if kind == "Return" and auto != "Err"]
            where = "%s (%s)" % (loc_str(b.term(bb)["loc"]), b.path)
            key = "%s/result-match#%d" % (b.path, n)
            if bad:
                rep.bad(rid, "%s/err-edge" % b.path, where,
                        "the Err edge of a match on `%s` continues to a non-error return: the I/O error is dropped" % fmt(g.pred)[:160],
                        witness=["bb%d %s" % (x, loc_str(b.term(x)["loc"])) for x in ex.witness(bad[0])[-12:]])
            else:
                rep.ok(rid, key, where, "Err edge returns the error")
    rep.floor(rid, "explicit Result matches in the bridge", n, 1)


def check_r3(facts, rep, crate, bodies):
    rid = "C13.R3"
    rep.rule(rid, "EOF becomes half-close: Done states stored only after poll_shutdown Ready (mux->local) / the "
                  "local-shutdown Finish call (local->mux); directions do not touch each other's state")
    n = 0
    for b in bodies:
        tr = Tracer(facts, b)
        stores = []
        for bi, blk in enumerate(b.blocks):
            if blk["cleanup"]:
                continue
            for s in blk["stmts"]:
                if s["k"] == "Assign":
                    pr = s["lhs"].get("p") or []
                    fl = [e["f"] for e in pr if isinstance(e, dict) and "f" in e]
                    if fl and fl[-1] in ("read_state", "write_state"):
                        v = strip(tr.rvalue(s["rv"]))
                        var = v[2].split("::")[-1] if v.kind == "agg" else "?"
                        stores.append((bi, fl[-1], var, s))
        kinds = set(f for _, f, _, _ in stores)
        if len(kinds) > 1:
            rep.bad(rid, "%s/cross-state" % b.path, b.path, "one direction's poll function writes both read_state and write_state")
        for bi, f, var, s in stores:
            if var != "Done":
                continue
            n += 1
            where = "%s (%s)" % (loc_str(s["loc"]), b.path)
            if f == "read_state":
                sh = [bj for bj, t in b.calls() if callee(t) and callee(t)["name"] == "poll_shutdown"]
                ok = False
                for sc in sh:
                    if edge_literals_dominating(
                            facts, b, tr, bi,
                            lambda g: {"Ready"} if g.kind == "discr" and g.adt == POLL_ADT and derives_from_call(g.pred, sc) else None):
                        ok = True
                if ok:
                    rep.ok(rid, "%s/read-done" % b.path, where, "Done stored after poll_shutdown(local) returned Ready")
                else:
                    rep.bad(rid, "%s/read-done" % b.path, where, "mux->local direction is marked Done without the local side's poll_shutdown having returned Ready (EOF not propagated as half-close)")
            else:
                fin = [bj for bj, t in b.calls() if callee(t) and _sends_finish(facts, crate, callee(t))]
                ok = any(b.dominates(fc, bi) for fc in fin)
                if ok:
                    rep.ok(rid, "%s/write-done" % b.path, where, "Done stored after the stream's local shutdown (Finish)")
                else:
                    rep.bad(rid, "%s/write-done" % b.path, where, "local->mux direction is marked Done without sending Finish on the stream")
    rep.floor(rid, "Done-state stores", n, 4)


_finish_cache = {}


def _sends_finish(facts, crate, c):
    dp = c.get("res") or c["dp"]
    if dp in _finish_cache:
        return _finish_cache[dp]
    b = facts.by_dp.get(dp)
    r = False
    if b is not None:
        tr = Tracer(facts, b)
        for bi, t in b.calls():
            if is_queue_send(t) and "new_finish" in ctors_in(tr.operand(t["args"][1])):
                r = True
    _finish_cache[dp] = r
    return r


def check_r6_joint(facts, rep, crate, bodies):
    rid = "C13.R6"
    rep.rule(rid, "joint poll: both directions are polled on every poll, and an error of either direction is returned before any Pending "
                  "return (its `?` dominates every Poll::Pending exit), so a failure never waits for unrelated traffic")
    n = 0
    for b in bodies:
        dirs = {}
        for bi, t in b.calls():
            c = callee(t)
            if c and c["name"] in ("poll_read_us", "poll_write_us"):
                dirs[c["name"]] = bi
        if len(dirs) < 2:
            continue
        n += 1
        rep.analysed(b)
        tr = Tracer(facts, b)
        where = "%s (%s)" % (loc_str(b.loc), b.path)
        pend = [bi for bi, blk in enumerate(b.blocks) if not blk["cleanup"] for st in blk["stmts"]
                if st["k"] == "Assign" and st["lhs"]["l"] == 0 and not st["lhs"].get("p") and st["rv"]["k"] == "Aggregate"
                and st["rv"]["agg"].get("variant") == "Pending"]
        branches = {}
        for bi, t in b.calls():
            c = callee(t)
            if c and c["name"] == "branch":
                for name, cb in dirs.items():
                    if derives_from_call(tr.operand(t["args"][0]), cb):
                        branches.setdefault(name, []).append(bi)
        probs = []
        for name, cb in dirs.items():
            if not all(b.dominates(cb, p) for p in pend):
                probs.append("%s is not polled before a Pending return" % name)
            if not branches.get(name):
                probs.append("the result of %s is not propagated with `?`" % name)
            elif not all(any(b.dominates(br, p) for br in branches[name]) for p in pend):
                probs.append("the error of %s is examined only after a Pending return of the other direction" % name)
        if probs:
            rep.bad(rid, "%s/errors-before-pending" % b.path, where, "; ".join(probs) + ": a failed direction registered no waker, so the bridge "
                    "sleeps until the other side happens to produce traffic")
        else:
            rep.ok(rid, "%s/errors-before-pending" % b.path, where, "both `?` dominate the %d Pending exits" % len(pend))
    rep.floor(rid, "joint poll bodies", n, 1)


def check_r7_initial_state(facts, rep, crate):
    rid = "C13.R7"
    rep.rule(rid, "the bridge always starts with both directions in Transferring(0): what the peer queued before the bridge was built is "
                  "still relayed (no construction-time shortcut derived from the stream's momentary state)")
    n = 0
    for b, bi, st, fields in struct_inits(facts, crate, BRIDGE_ADT):
        tr = Tracer(facts, b)
        for f in ("read_state", "write_state"):
            if f not in fields:
                continue
            n += 1
            rep.analysed(b)
            where = "%s (%s)" % (loc_str(st["loc"]), b.path)
            v = strip(tr.operand(fields[f]))
            ok = v.kind == "agg" and v[2].endswith("State::Transferring") and v[3] and const_eval(v[3][0][1]) == 0
            if ok:
                rep.ok(rid, "initial/%s" % f, where, "Transferring(0)")
            else:
                rep.bad(rid, "initial/%s" % f, where,
                        "the bridge's %s is initialised with `%s` instead of the constant Transferring(0): depending on the stream's state at "
                        "construction a direction starts past the transfer phase and queued data is never relayed" % (f, fmt(v)[:70]))
    rep.floor(rid, "initial direction states", n, 2)


def check_r4_written_amount(facts, rep, bodies, rid="C13.R4"):
    """mux->local: what is consumed from the stream is what the local side's poll_write reported as written."""
    k = 0
    for b in bodies:
        tr = Tracer(facts, b)
        writes = [bj for bj, t in b.calls() if callee(t) and callee(t)["name"] == "poll_write"]
        if not writes:
            continue
        for bi, t in b.calls():
            c = callee(t)
            if not c or c["name"] != "consume":
                continue
            k += 1
            where = "%s (%s)" % (loc_str(t["loc"]), b.path)
            amt = tr.operand(t["args"][1])
            from_write = any(x.kind == "call" and x[6] == "poll_write" for x in walk(amt))
            if from_write and any(b.dominates(w, bi) for w in writes):
                rep.ok(rid, "%s/consume-written-amount" % b.path, where, "consume(n) with n = bytes accepted by the local side's poll_write")
            else:
                rep.bad(rid, "%s/consume-written-amount" % b.path, where,
                        "the amount consumed from the stream (`%s`) is not the byte count returned by the local side's poll_write: on a "
                        "short write the unwritten tail of the chunk is dropped silently" % fmt(strip(amt))[:80])
    rep.floor(rid, "consume sites after a local poll_write", k, 1)


def check_r5_counters(facts, rep, bodies):
    rid = "C13.R5"
    rep.rule(rid, "byte counters: every consume(n) is paired with an accumulation of the same n (X = n / X = X + n) on the same path, and the "
                  "accumulated value reaches the direction's state (Transferring / Done) and return value")
    k = 0
    for b in bodies:
        tr = Tracer(facts, b)
        accs = []
        for bi, blk in enumerate(b.blocks):
            if blk["cleanup"]:
                continue
            for st in blk["stmts"]:
                if st["k"] != "Assign" or st["lhs"].get("p"):
                    continue
                if b.locals[st["lhs"]["l"]]["s"] != "usize":
                    continue
                v = tr.rvalue(st["rv"])
                sv = strip(v)
                if st["rv"]["k"] in ("BinaryOp", "CheckedBinaryOp") and sv.kind == "bin" and sv[1].startswith("Add"):
                    accs.append((bi, st["lhs"]["l"], [strip(sv[2]), strip(sv[3])], "add"))
                elif st["rv"]["k"] == "Use":
                    accs.append((bi, st["lhs"]["l"], [sv], "init"))
        for bi, t in b.calls():
            c = callee(t)
            if not c or c["name"] != "consume":
                continue
            k += 1
            where = "%s (%s)" % (loc_str(t["loc"]), b.path)
            a = strip(tr.operand(t["args"][1]))
            hit = [x for x in accs if any(o == a for o in x[2]) and (b.dominates(x[0], bi) or b.dominates(bi, x[0]))
                   and b.local_name(x[1]) not in ("processed",)]
            added = set(x[1] for x in accs if x[3] == "add")
            hit = [x for x in hit if x[3] == "add" or x[1] in added]
            if hit:
                rep.ok(rid, "%s/consume#%d-counted" % (b.path, k), where, "consumed amount added to `%s`" % b.local_name(hit[0][1]))
            else:
                rep.bad(rid, "%s/consume-not-counted" % b.path, where,
                        "bytes consumed here (`%s`) are not added to the direction's byte counter: the totals returned by the bridge "
                        "under-report what was transferred" % fmt(a)[:60])
    rep.floor(rid, "consume sites", k, 3)
    # the count kept in the direction's state is the running total, the same variable that is returned
    m = 0
    for b in bodies:
        tr = Tracer(facts, b)
        stored = []
        for bi, blk in enumerate(b.blocks):
            if blk["cleanup"]:
                continue
            for st in blk["stmts"]:
                if st["k"] != "Assign":
                    continue
                pr = st["lhs"].get("p") or []
                fl = [e["f"] for e in pr if isinstance(e, dict) and "f" in e]
                if not fl or fl[-1] not in ("read_state", "write_state"):
                    continue
                pass
            for st in blk["stmts"]:
                if st["k"] == "Assign" and st["rv"]["k"] == "Aggregate" and st["rv"]["agg"].get("adt", "").endswith(("::ReadState", "::WriteState")):
                    for o in st["rv"]["ops"]:
                        stored.append((bi, st, st["rv"]["agg"].get("variant"), o))
        if not stored:
            continue
        m += 1
        where = "%s (%s)" % (loc_str(b.loc), b.path)
        # locals that carry the running total: bound from the previous state's payload, copies of such, or such + something
        total = set()
        changed = True

        def opl(o):
            return o["p"]["l"] if o.get("p") and not o["p"].get("p") else None
        while changed:
            changed = False
            for blk2 in b.blocks:
                for s2 in blk2["stmts"]:
                    if s2["k"] != "Assign" or s2["lhs"].get("p"):
                        continue
                    L = s2["lhs"]["l"]
                    if L in total:
                        continue
                    rv = s2["rv"]
                    hit = False
                    if rv["k"] == "Use":
                        o = rv["ops"][0]
                        if opl(o) in total:
                            hit = True
                        elif o.get("p") and o["p"].get("p"):
                            pr2 = o["p"]["p"]
                            if any(isinstance(e, dict) and "as" in e for e in pr2) and \
                                    any(isinstance(e, dict) and e.get("f") in ("read_state", "write_state") for e in pr2):
                                hit = True
                    elif rv["k"] in ("BinaryOp", "CheckedBinaryOp") and str(rv.get("op", "")).startswith("Add"):
                        if any(opl(o) in total for o in rv["ops"]):
                            hit = True
                    if hit:
                        total.add(L)
                        changed = True

        def from_state(op):
            return opl(op) in total
        odd = [(var, st) for bi, st, var, node in stored if not from_state(node)]
        if not odd:
            rep.ok(rid, "%s/state-holds-total" % b.path, where, "%d state stores all carry a count derived from the previous state's count" % len(stored))
        else:
            rep.bad(rid, "%s/state-holds-total" % b.path, "%s (%s)" % (loc_str(odd[0][1]["loc"]), b.path),
                    "the byte count stored with %s does not derive from the count held in the previous state (it is not the running total): the "
                    "totals reported when the bridge completes later omit what was transferred before" % odd[0][0])
    rep.floor(rid, "directions with counted state", m, 2)


def check_r5_saved_before_pending(facts, rep, bodies):
    """A direction keeps its running byte total in its state between polls. After the local accumulator has grown in this poll, the
    function must not leave through Poll::Pending (or an error-free suspension) before the new total is written to the state:
    the bytes are relayed but missing from the count the bridge finally returns."""
    rid = "C13.R5"
    from an import Explorer
    k = 0
    for b in bodies:
        tr = Tracer(facts, b)
        acc_locals = set()
        for blk in b.blocks:
            for st in blk["stmts"]:
                if st["k"] == "Assign" and not st["lhs"].get("p") and b.locals[st["lhs"]["l"]]["s"] == "usize" and \
                        st["rv"]["k"] in ("BinaryOp", "CheckedBinaryOp") and str(st["rv"].get("op", "")).startswith("Add"):
                    ops = st["rv"].get("ops", [])
                    if any(o.get("k") in ("copy", "move") and o["p"]["l"] == st["lhs"]["l"] and not o["p"].get("p") for o in ops):
                        acc_locals.add(st["lhs"]["l"])
        if not acc_locals:
            continue
        alias = set(acc_locals)
        for blk in b.blocks:
            for st in blk["stmts"]:
                if st["k"] == "Assign" and not st["lhs"].get("p") and st["rv"]["k"] == "Use" and st["rv"]["ops"][0].get("k") in ("copy", "move") \
                        and not st["rv"]["ops"][0]["p"].get("p") and st["rv"]["ops"][0]["p"]["l"] in acc_locals:
                    alias.add(st["lhs"]["l"])
        k += 1
        dirty_pend = []

        def on_stmt(bb, idx, st, auto):
            if st["k"] != "Assign":
                return auto
            if not st["lhs"].get("p") and st["lhs"]["l"] in acc_locals and st["rv"]["k"] in ("BinaryOp", "CheckedBinaryOp"):
                return "dirty"
            if st["rv"]["k"] == "Aggregate" and str(st["rv"]["agg"].get("adt", "")).endswith("State") and \
                    any(o.get("k") in ("copy", "move") and o["p"]["l"] in alias for o in st["rv"]["ops"]):
                return "clean"
            if st["lhs"]["l"] == 0 and not st["lhs"].get("p") and st["rv"]["k"] == "Aggregate" and st["rv"]["agg"].get("variant") == "Pending" \
                    and auto == "dirty":
                dirty_pend.append(bb)
            return auto
        ex = Explorer(facts, b, on_stmt=on_stmt)
        ex.run(0, "clean")
        rep.paths += len(ex.seen)
        where = "%s (%s)" % (loc_str(b.loc), b.path)
        if dirty_pend:
            rep.bad(rid, "%s/total-saved-before-pending" % b.path, "%s (%s)" % (loc_str(b.term(dirty_pend[0])["loc"]), b.path),
                    "this direction can return Poll::Pending after its byte total has grown in this poll but before the new total is written to "
                    "its state: the progress of that poll is lost from the count the bridge returns at the end")
        else:
            rep.ok(rid, "%s/total-saved-before-pending" % b.path, where, "the running total is in the state whenever the function yields")
    rep.floor(rid, "directions with a running total", k, 2)


def check_r4(facts, rep, crate, bodies):
    rid = "C13.R4"
    rep.rule(rid, "local->mux: nothing consumed before the credit take; each consume() takes the length of the appended chunk; "
                  "counters advance by the consumed/queued amounts")
    takes = set(b.dp for b in credit_take_bodies(facts, crate))
    n = 0
    for b in bodies:
        tr = Tracer(facts, b)
        tcalls = [bj for bj, t in b.calls() if callee(t) and ((callee(t).get("res") or callee(t)["dp"]) in takes)]
        if not tcalls:
            continue
        for bi, t in b.calls():
            c = callee(t)
            if not c or c["name"] != "consume":
                continue
            n += 1
            where = "%s (%s)" % (loc_str(t["loc"]), b.path)
            if not any(b.dominates(tc, bi) for tc in tcalls):
                rep.bad(rid, "%s/consume-before-credit" % b.path, where, "data is consumed from the local side before a unit of credit was obtained (lost on Pending)")
                continue
            amt = strip(tr.operand(t["args"][1]))
            if amt.kind == "call" and amt[6] == "len":
                rep.ok(rid, "%s/consume#%d" % (b.path, n), where, "consume(len of the chunk) after the credit take")
            else:
                rep.bad(rid, "%s/consume-amount" % b.path, where, "consume() amount `%s` is not the length of the chunk just appended" % fmt(amt))
    rep.floor(rid, "consume sites after credit take", n, 2)
    check_r4_written_amount(facts, rep, bodies)
    # one unit of credit per Push frame; local EOF -> Finish is not credit-gated
    m = 0
    for b in bodies:
        tr = Tracer(facts, b)
        tcalls = [bj for bj, t in b.calls() if callee(t) and ((callee(t).get("res") or callee(t)["dp"]) in takes)]
        if not tcalls:
            continue
        pushes = set(bj for bj, t in b.calls() if callee(t) and callee(t)["name"] == "new_push")
        fins = [bj for bj, t in b.calls() if callee(t) and _sends_finish(facts, crate, callee(t))]
        if fins:
            m += 1
            free = b.reachable_from(0, cut=set(tcalls))
            ungated = [fc for fc in fins if fc in free]
            if ungated:
                rep.ok(rid, "%s/finish-not-gated-on-credit" % b.path, "%s (%s)" % (loc_str(b.term(ungated[0])["loc"]), b.path),
                       "the local-EOF Finish call is reachable without passing a credit take")
            else:
                rep.bad(rid, "%s/finish-gated-on-credit" % b.path, "%s (%s)" % (loc_str(b.term(fins[0])["loc"]), b.path),
                        "every Finish-sending call of the local->mux direction lies behind a credit take (%s): with the send window "
                        "exhausted the local side's EOF waits for an Acknowledge that may never come instead of being propagated as a half-close"
                        % loc_str(b.term(tcalls[0])["loc"]))
        FAIL = ("Pending", "None", "Break", "Err")
        for tc in tcalls:
            m += 1
            where = "%s (%s)" % (loc_str(b.term(tc)["loc"]), b.path)
            # forward walk over the success edges of every switch derived from this take
            seen, st, leak = set(), [x for x in b.succ[tc] if not b.blocks[x]["cleanup"]], None
            while st and leak is None:
                x = st.pop()
                if x in seen or x in pushes:
                    continue
                seen.add(x)
                t = b.term(x)
                if t["k"] == "Return" or x == tc:
                    leak = x
                    break
                g = guard_at(facts, b, tr, x)
                for y in b.succ[x]:
                    if b.blocks[y]["cleanup"]:
                        continue
                    if g is not None and g.kind == "discr" and derives_from_call(g.pred, tc):
                        val = [v for sb, v in g.edges if sb == y]
                        if val and all(v in FAIL for v in val):
                            continue
                    st.append(y)
            if leak is not None:
                rep.bad(rid, "%s/credit-without-push" % b.path, where,
                        "a unit of send credit taken here can reach %s without a Push frame being built: credit is consumed "
                        "for something that is not a frame sent" % ("the end of the poll" if b.term(leak)["k"] == "Return" else "the next take"))
            else:
                rep.ok(rid, "%s/credit-implies-push" % b.path, where, "every success path after the credit take builds a Push frame")
    rep.floor(rid, "credit/Finish ordering obligations in the bridge", m, 2)


def _side(tr, op):
    """Which end of the bridge a poll call is made on: the name of the bridge field its receiver derives from."""
    for x in walk(tr.operand(op)):
        if x.kind == "field" and x[2] in ("us", "other"):
            return x[2]
    return None


def check_r8_read_not_gated_on_flush(facts, rep, bodies):
    rid = "C13.R8"
    rep.rule(rid, "no read of one end (poll_fill_buf / poll_read) waits for a flush or write of that same end to complete: an application that "
                  "writes before it reads would otherwise stall its own direction (and, through back-pressure, both)")
    k = 0
    for b in bodies:
        tr = Tracer(facts, b)
        reads = [(bi, t) for bi, t in b.calls() if callee(t) and callee(t)["name"] in ("poll_fill_buf", "poll_read") and t["args"]]
        flushes = {bi: _side(tr, t["args"][0]) for bi, t in b.calls()
                   if callee(t) and callee(t)["name"] in ("poll_flush",) and t["args"]}
        for bi, t in reads:
            side = _side(tr, t["args"][0])
            if side is None:
                continue
            k += 1
            where = "%s (%s)" % (loc_str(t["loc"]), b.path)
            key = "%s/read-%s-not-gated-on-flush" % (b.path, side)

            def want(g, side=side):
                if g.kind == "discr" and (g.adt or "").endswith("poll::Poll"):
                    for fb, fs in flushes.items():
                        if fs == side and derives_from_call(g.pred, fb):
                            return {"Ready"}
                if g.kind == "discr" and (g.adt or "").endswith("ControlFlow"):
                    for fb, fs in flushes.items():
                        if fs == side and derives_from_call(g.pred, fb):
                            return {"Continue"}
                return None
            gates = edge_literals_dominating(facts, b, tr, bi, want)
            # a loop back-edge (second read after a completed write of the *other* end) is not a gate: only dominance counts
            if gates:
                rep.bad(rid, key, where,
                        "this read of `%s` is only reached after poll_flush(%s) returned Ready: while that end cannot take more output (its "
                        "application is itself blocked writing) nothing is read from it any more, so the direction stalls and the bridge can "
                        "deadlock with the application" % (side, side))
            else:
                rep.ok(rid, key, where, "read of `%s` not dominated by a completed flush of `%s`" % (side, side))
    rep.floor(rid, "bridge read sites", k, 2)


def _field_of_place(pl):
    """Name of the (last) struct field a place projects to, or None."""
    for e in reversed(pl.get("p") or []):
        if isinstance(e, dict) and "f" in e:
            return e["f"]
    return None


def _flag_writes(b, tr, field):
    """(block, kind) for every write of the bool bridge field `field` in b: kind 'set' (const true), 'clear' (const false,
    mem::take, mem::replace(.., false)) or 'other'."""
    out = []
    refs = {}
    for bi, blk in enumerate(b.blocks):
        for s in blk["stmts"]:
            if s["k"] != "Assign":
                continue
            if s["rv"]["k"] == "Ref" and s["rv"].get("mut") and _field_of_place(s["rv"]["place"]) == field:
                refs[s["lhs"]["l"]] = bi
            if _field_of_place(s["lhs"]) == field and (s["lhs"].get("p") or [None])[-1] == "*" or \
                    (_field_of_place(s["lhs"]) == field and s["lhs"].get("ty", {}).get("s") == "bool"):
                ops = s["rv"].get("ops") or []
                if s["rv"]["k"] == "Use" and ops and ops[0].get("k") == "const":
                    out.append((bi, "set" if ops[0].get("v") else "clear"))
                else:
                    out.append((bi, "other"))
    for bi, t in b.calls():
        c = callee(t)
        if not c or c["name"] not in ("take", "replace", "swap") or "mem::" not in c["path"]:
            continue
        a0 = t["args"][0] if t["args"] else None
        if a0 and a0.get("k") in ("move", "copy") and a0["p"]["l"] in refs and not a0["p"].get("p"):
            if c["name"] == "take":
                out.append((bi, "clear"))
            elif c["name"] == "replace" and len(t["args"]) > 1 and t["args"][1].get("k") == "const":
                out.append((bi, "set" if t["args"][1].get("v") else "clear"))
            else:
                out.append((bi, "other"))
    return out


def check_r9_flush_before_idle(facts, rep, bodies):
    rid = "C13.R9"
    rep.rule(rid, "mux->local: when the stream has nothing more to relay (poll_fill_buf of the mux side is Pending) the bridge returns "
                  "Pending only after poll_flush of the local side (so relayed bytes never sit in the local writer's buffer waiting for "
                  "unrelated traffic); a flush skipped under a dirty flag is accepted only if the flag is cleared after a completed flush "
                  "and set after every write to the local side")
    k = 0
    for b in bodies:
        tr = Tracer(facts, b)
        flushes = [bi for bi, t in b.calls() if callee(t) and callee(t)["name"] == "poll_flush" and t["args"] and _side(tr, t["args"][0]) == "other"]
        rets = [x for x in range(len(b.blocks)) if b.term(x)["k"] == "Return"]
        for bi, t in b.calls():
            c = callee(t)
            if not c or c["name"] != "poll_fill_buf" or not t["args"] or _side(tr, t["args"][0]) != "us":
                continue
            # Pending edges of switches on this call's result
            pend = []
            for gb in range(len(b.blocks)):
                if b.term(gb)["k"] != "SwitchInt":
                    continue
                g = guard_at(facts, b, tr, gb)
                if g is None or g.kind != "discr" or not (g.adt or "").endswith("poll::Poll"):
                    continue
                root = strip(g.pred)
                if root.kind != "call" or root[4] != bi:      # the poll result itself, not a later poll that merely uses its value
                    continue
                pend += [sb for sb, v in g.edges if v == "Pending"]
            if not pend:
                continue
            k += 1
            where = "%s (%s)" % (loc_str(t["loc"]), b.path)
            key = "%s/idle-after-flush" % b.path.split("::{")[0]
            escaping = [p0 for p0 in pend if any(r in b.reachable_from(p0, cut=set(flushes)) for r in rets)]
            if not escaping:
                rep.ok(rid, key, where, "every return after the mux side's Pending passes poll_flush of the local side")
                continue
            # dirty-flag idiom: the flush-free paths all leave through the 'clean' edge of a test of one bool field
            accepted = None
            why = "no poll_flush of the local side on a path from the mux side's Pending to the return"
            for gb in range(len(b.blocks)):
                if b.term(gb)["k"] != "SwitchInt" or not any(gb in b.reachable_from(p0, cut=set(flushes)) or gb == p0 for p0 in escaping):
                    continue
                g = guard_at(facts, b, tr, gb)
                if g is None or g.kind != "bool":
                    continue
                flds = [x[2] for x in walk(g.pred) if x.kind == "field" and x[2] not in ("us", "other")]
                if not flds:
                    continue
                fld = flds[0]
                clean = [sb for sb, v in g.edges if v is False]
                if not clean:
                    continue
                if any(r in b.reachable_from(p0, cut=set(flushes) | set(clean)) for p0 in escaping for r in rets):
                    continue
                # the flag discipline, over all bridge bodies
                bad = None
                for b2 in bodies:
                    tr2 = tr if b2 is b else Tracer(facts, b2)
                    fl2 = {x: _side(tr2, tt["args"][0]) for x, tt in b2.calls() if callee(tt) and callee(tt)["name"] == "poll_flush" and tt["args"]}
                    wr2 = [x for x, tt in b2.calls() if callee(tt) and callee(tt)["name"] in ("poll_write", "poll_write_vectored") and tt["args"] and _side(tr2, tt["args"][0]) == "other"]
                    writes = _flag_writes(b2, tr2, fld)
                    sets = set(x for x, kd in writes if kd == "set")

                    def want(gg):
                        if gg.kind == "discr" and (gg.adt or "").endswith("poll::Poll"):
                            for fb, fs in fl2.items():
                                if fs == "other" and derives_from_call(gg.pred, fb):
                                    return {"Ready"}
                        return None
                    for x, kd in writes:
                        if kd == "other":
                            bad = (b2, x, "the flag `%s` is written with a value the analysis cannot read" % fld)
                        elif kd == "clear" and not edge_literals_dominating(facts, b2, tr2, x, want):
                            bad = (b2, x, "the flag `%s` is cleared before poll_flush of the local side has returned Ready: if that flush is "
                                          "Pending (or fails) it is never retried and the relayed bytes stay in the local writer's buffer" % fld)
                    rets2 = [x for x in range(len(b2.blocks)) if b2.term(x)["k"] == "Return"]
                    for w in wr2:
                        # Ready edge of the write must reach a set before any return
                        for gb2 in range(len(b2.blocks)):
                            if b2.term(gb2)["k"] != "SwitchInt":
                                continue
                            g2 = guard_at(facts, b2, tr2, gb2)
                            if g2 is None or g2.kind != "discr" or not (g2.adt or "").endswith("poll::Poll"):
                                continue
                            r2 = strip(g2.pred)
                            if r2.kind != "call" or r2[4] != w:
                                continue
                            for sb, v in g2.edges:
                                if v == "Ready" and any(r in b2.reachable_from(sb, cut=sets) for r in rets2) and sb not in sets:
                                    # error returns after a failed write are fine: only the Ok continuation matters; approximate by
                                    # requiring a set on the path to the *next* read of the mux side or a non-error return
                                    nxt = [x for x, tt in b2.calls() if callee(tt) and callee(tt)["name"] == "poll_fill_buf"]
                                    if any(n in b2.reachable_from(sb, cut=sets) for n in nxt):
                                        bad = bad or (b2, w, "after a write to the local side the flag `%s` is not set on every path: those bytes are never flushed" % fld)
                    if bad:
                        break
                if bad:
                    why = bad[2]
                    where = "%s (%s)" % (loc_str(bad[0].term(bad[1])["loc"]), bad[0].path)
                else:
                    accepted = fld
                break
            if accepted:
                rep.ok(rid, key, where, "flush skipped only while the dirty flag `%s` is clear; the flag is cleared after a completed flush and set after every write" % accepted)
            else:
                rep.bad(rid, key, where,
                        "the bridge can go idle (return Pending because the mux side has nothing more to relay) without a completed poll_flush "
                        "of the local side: %s. Bytes the peer sent stay in a buffering local writer until unrelated traffic arrives" % why)
    rep.floor(rid, "mux-side reads whose Pending leads to the bridge going idle", k, 1)
