"""C18 SOCKS4/4a/5 messages per the RFCs: layouts, bounds, terminators."""
from an import (logical_root, inexact_steps, Tracer, Explorer, STOP, guard_at, strip, strip_casts, walk, fmt, callee, const_eval, leaves, N)
from layout import consume_paths, s4_check, lin, lin_str
from mir import loc_str
import re

EXPLANATION = (
    "SOCKS message layouts are decided against field tables transcribed from RFC 1928 and the SOCKS4/4a "
    "convention: (R1) the UDP relay header builder's ordered byte emissions (zeros, ATYP constant, address "
    "octets by width, big-endian port, payload) equal RSV(2) FRAG(1) ATYP ADDR PORT DATA for both address "
    "families and agree with the parser; (R2) reply writers produce the RFC byte images (array literals and "
    "indexed stores resolved by constant evaluation); (R3) request readers perform the RFC's read sequence "
    "with the right widths and bind the results to command/address/port in that role; the SOCKS4a "
    "predicate is evaluated over a representative byte-pattern domain and must select exactly 0.0.0.x, x!=0; "
    "(R4) parse_udp_relay_header: bounds check = consumption (S4) and layout per address type; (R5) a "
    "NUL-terminated field's terminator is checked before it is stripped.")
EXPLANATION_ADDED2 = '(R6) the reply codes passed by the client front end belong to the protocol version of the writer and are the success code exactly after the channel is established.'
EXPLANATION = EXPLANATION + " Added while testing against seeded changes: " + EXPLANATION_ADDED2
EXPLANATION = EXPLANATION + " Rounds 12-13: (R7) the request / negotiation readers read from the caller's reader itself (no take / chain / buffering adaptor between the reader parameter and a read call)."
EXPLANATION = EXPLANATION + ' Rounds 14-15 and the value sweep: ports are exact in the writers and readers (R1-R4); the domain buffer length is the length octet itself (R3); (R8) no normalising conversion (to_canonical, case folding, trimming, lossy UTF-8, byte swapping) in penguin-socks.'
EXPLANATION = EXPLANATION + " Rounds 16-17: (R9) no branch on a request's contents leads to a return that has not passed a reply writer (infrastructure failures aside)."
EXPLANATION = EXPLANATION + ' Round 18: saturating / wrapping arithmetic on 8- and 16-bit operands is no longer read as plain + / - by the bounds rules (a length octet of 254 + 2 saturates).'
ASSUMPTIONS = [
    "tokio AsyncReadExt::read_uN read big-endian fixed widths; read_exact fills the whole buffer; "
    "read_until stops at the delimiter or EOF (library contracts)",
    "RFC 1928 / SOCKS4a field tables transcribed by hand into the checker",
]
NOT_DECIDED = "string conversions (Ipv4Addr::to_string etc.) and the behaviour of the I/O traits; only layouts, order, roles and checks are decided"

ATYP = {1: ("ipv4", 4), 4: ("ipv6", 16)}


def bodies(crate, path_re):
    r = re.compile(path_re)
    return [b for b in crate.bodies if r.search(b.path)]


def _port_inexact(node):
    """Steps other than moves / conversions / the await machinery between a result's port element and the 16-bit read it comes from."""
    return inexact_steps(node, lambda y: y.kind == "call" and (y[6] in ("get_u16", "read_u16", "get_u16_le", "read_u16_le", "from_be_bytes")), 16,
                         extra_calls=("poll", "map_err", "into_future", "new_unchecked", "get_context", "map", "ok_or", "ok_or_else"))


# ------------------------------------------------------------------ R1 builder
def builder_events(facts, b):
    tr = Tracer(facts, b)
    guards = {bb: guard_at(facts, b, tr, bb) for bb in range(len(b.blocks)) if b.term(bb)["k"] == "SwitchInt"}

    def desc(node, c):
        sn = strip(node)
        # width from the generic argument of extend::<[u8; N]> / <&[u8; N]>
        m = re.search(r"extend::<&?\[u8; (\d+)\]>", c["path"])
        width = int(m.group(1)) if m else None
        while sn.kind in ("ref", "deref", "cast"):
            sn = strip(sn[1])
        if sn.kind == "agg" and sn[1] == "array":
            vals = [strip(v) for _, v in sn[3]]
            if all(v.kind == "const" for v in vals):
                return ("const", [v[1] for v in vals], [v[3].split("::")[-1] if v[3] else None for v in vals])
        if sn.kind == "const" and c["name"] == "push":
            return ("const", [sn[1]], [sn[3].split("::")[-1] if sn[3] else None])      # one byte pushed
        if sn.kind == "repeat" and const_eval(sn[1]) is not None and re.match(r"\d+", str(sn[2])):
            return ("fillv", const_eval(sn[1]), int(re.match(r"\d+", str(sn[2])).group(0)))                                  # extend_from_slice(&[v; n])
        for x in walk(node):
            if x.kind == "call" and x[6] == "octets":
                fam6 = "Ipv6" in x[1] + x[2]
                return ("addr", width if width is not None else (16 if fam6 else 4), "v6" if fam6 else "v4")
            if x.kind == "call" and x[6] in ("to_be_bytes", "to_le_bytes", "to_ne_bytes"):
                inner = [y[6] for y in walk(x) if y.kind == "call"]
                mw = re.search(r"impl [ui](\d+)", x[1] + " " + x[2])
                exact_ = not inexact_steps(x[3][0], lambda y: y.kind == "call" and y[6] == "port", 16) if x[3] else True
                return ("int", width if width is not None else (int(mw.group(1)) // 8 if mw else None), x[6][3:5],
                        ("port" if exact_ else "port(computed, not the address's port itself)") if "port" in inner else "?")
        if sn.kind == "param":
            return ("rest", sn[2])
        return ("?", fmt(node))

    def on_term(bb, t, auto, store):
        if t["k"] != "Call":
            return auto
        c = callee(t)
        if not c:
            return auto
        ev = None
        if c["name"] == "from_elem" and len(t["args"]) == 2:
            v = const_eval(tr.operand(t["args"][0]))
            n = const_eval(tr.operand(t["args"][1]))
            ev = ("fill", v, n, bb)
        elif c["name"] in ("extend", "extend_from_slice", "push") and "Vec" in c["path"] and len(t["args"]) == 2:
            ev = ("emit", desc(tr.operand(t["args"][1]), c), bb)
        if ev is not None:
            ev = _hashable(ev)
            if ev not in auto:
                return auto + (ev,)
        return auto

    def on_edge(bb, succ, auto, store):
        g = guards.get(bb)
        if g is None or g.kind != "discr":
            return auto
        vals = [v for s2, v in g.edges if s2 == succ and v]
        if not vals:
            return auto
        # `match target` and `match target.ip()` select the same family: key the match by the value it inspects
        pk = ",".join(sorted(x for x in leaves(g.pred) if x.startswith("param:"))) or fmt(strip(g.pred))[:200]
        for e in auto:
            if e[0] == "variant" and len(e) > 2 and e[2] == pk and e[1] != vals[0]:
                return STOP            # a second match on the same value cannot take a different arm on this path
        ev = ("variant", vals[0], pk)
        return auto + (ev,) if ev not in auto else auto

    ex = Explorer(facts, b, on_term=on_term, on_edge=on_edge)
    finals = ex.run(0, ())
    return [(auto, ex.witness(st)) for st, auto, kind in finals if kind == "Return" and not b.blocks[st[0]]["cleanup"]], ex


def _hashable(x):
    if isinstance(x, list):
        return tuple(_hashable(y) for y in x)
    if isinstance(x, tuple):
        return tuple(_hashable(y) for y in x)
    return x


def check_r1(facts, rep, crate):
    rid = "C18.R1"
    rep.rule(rid, "UDP relay header builder emits RSV(2)=0 FRAG(1)=0 ATYP ADDR PORT(be) DATA, for IPv4 and IPv6")
    bs = [b for b in crate.bodies if b.name == "udp_relay_response" and b.kind == "Fn"]
    if not bs:
        rep.bad(rid, "builder", "", "udp_relay_response not found (anchor missing)")
        return
    b = bs[0]
    rep.analysed(b)
    paths, ex = builder_events(facts, b)
    rep.paths += len(ex.seen)
    where = "%s (%s)" % (loc_str(b.loc), b.path)
    seen = set()
    for auto, wit in paths:
        fam = [e[1] for e in auto if e[0] == "variant"]
        fam = fam[0] if fam else "?"
        seen.add(fam)
        got = []
        for e in auto:
            if e[0] == "fill":
                got.append(("zeros" if e[1] == 0 else "fill%s" % e[1], e[2]))
            elif e[0] == "emit":
                d = e[1]
                if d[0] == "const":
                    got.append(("const", tuple(d[1])))
                elif d[0] == "addr":
                    got.append(("addr", d[1]))
                elif d[0] == "int":
                    got.append(("int", d[1], d[2], d[3]))
                elif d[0] == "fillv":
                    got.append(("zeros" if d[1] == 0 else "fill%s" % d[1], d[2]))
                elif d[0] == "rest":
                    got.append(("rest",))
                else:
                    got.append(("?", d[1]))
        atyp, alen = (1, 4) if fam == "V4" else (4, 16)
        want = [("zeros", 3), ("const", (atyp,)), ("addr", alen), ("int", 2, "be", "port"), ("rest",)]
        key = "builder/%s" % fam
        if got == want:
            rep.ok(rid, key, where, "emits %s" % got)
        else:
            rep.bad(rid, key, where, "UDP relay header for %s is emitted as\n  %s\nRFC 1928 section 7 requires\n  %s "
                                     "(RSV, FRAG, ATYP, DST.ADDR, DST.PORT, DATA)" % (fam, got, want))
    for fam in ("V4", "V6"):
        if fam not in seen:
            rep.bad(rid, "builder/%s" % fam, where, "no builder path for address family %s" % fam)


# ------------------------------------------------------------------ R4 parser
def check_r4(facts, rep, crate):
    rid = "C18.R4"
    rep.rule(rid, "parse_udp_relay_header: S4 bounds check = consumption; layout per ATYP = RFC 1928; result roles")
    bs = [b for b in crate.bodies if b.name == "parse_udp_relay_header" and b.kind == "Fn"]
    if not bs:
        rep.bad(rid, "parser", "", "parse_udp_relay_header not found (anchor missing)")
        return
    b = bs[0]
    rep.analysed(b)
    paths, tr, rg, ex = consume_paths(facts, b)
    rep.paths += len(ex.seen)
    where = "%s (%s)" % (loc_str(b.loc), b.path)
    okp = [p for p in paths if any(e[0] == "ret" and e[1] == "Ok" for e in p["events"])]
    by_case = {}
    for p in okp:
        case = [e[2] for e in p["events"] if e[0] == "case"]
        by_case[case[0] if case else None] = p
    want = {
        1: [("get", 2), ("get", 1), ("get", 1), ("get", 4), ("get", 2)],
        3: [("get", 2), ("get", 1), ("get", 1), ("get", 1), ("split_to",), ("get", 2)],
        4: [("get", 2), ("get", 1), ("get", 1), ("get", 16), ("get", 2)],
    }
    for case, w in want.items():
        p = by_case.get(case)
        key = "atyp=%d" % case
        if p is None:
            rep.bad(rid, key, where, "no successful parse path for ATYP %d" % case)
            continue
        got = []
        for e in p["events"]:
            if e[0] == "get":
                if e[3] != "be":
                    got.append(("get", e[2], e[3]))
                else:
                    got.append(("get", e[2]))
            elif e[0] == "split_to":
                got.append(("split_to",))
        if got == w:
            rep.ok(rid, key + "/layout", where, "reads %s" % got)
        else:
            rep.bad(rid, key + "/layout", where, "parser reads %s for ATYP %d, RFC 1928 layout is %s" % (got, case, w))
        probs, total = s4_check(p)
        if not probs:
            rep.ok(rid, key + "/bounds", where, "checks == consumption (%s)" % lin_str(total))
        for kind, msg, bb in probs:
            gl = [e[2] for e in p["events"] if e[0] == "ge"]
            idx = gl.index(bb) if bb in gl else -1
            rep.bad(rid, "%s/%s@check%d" % (key, kind, idx), "%s (%s)" % (loc_str(b.term(bb)["loc"]), b.path), msg)
        # FRAG must be rejected when non-zero
        if not any(e[0] == "cond" and "Ne(" in e[1] and e[2] is False for e in p["events"]) and \
                not any(e[0] == "cond" and "Eq(" in e[1] and e[2] is True for e in p["events"]):
            rep.bad(rid, key + "/frag", where, "successful path does not pass a FRAG == 0 test")
    extra = [c for c in by_case if c not in want]
    if extra:
        rep.bad(rid, "atyp/extra", where, "parser accepts address types %s outside {1,3,4}" % extra)
    # result roles: (dst, port, rest)
    rt = Tracer(facts, b)
    for x in walk(rt.local(0)):
        if x.kind == "agg" and x[1] == "tuple" and len(x[3]) == 3:
            f = dict(x[3])
            third = strip(f["2"])
            second = f["1"]
            ok3 = third.kind == "param" and third[1] == 1
            ok2 = any(y.kind == "call" and y[6] == "get_u16" for y in walk(second))
            if ok3 and ok2 and _port_inexact(second):
                rep.bad(rid, "result-port-exact", where, "the returned port is computed from the 16 bits that were read (`%s`), not those bits themselves" % _port_inexact(second)[0])
            elif ok3 and ok2:
                rep.ok(rid, "result-roles", where, "(dst, port<-get_u16, data<-remaining buffer)")
            else:
                rep.bad(rid, "result-roles", where, "result tuple is not (address, port, remaining payload)")
            break
    else:
        rep.bad(rid, "result-roles", where, "no result tuple found")
    panics = [p for p in paths if any(e[0] == "panic" for e in p["events"])]
    if panics:
        rep.bad(rid, "panic", where, "a panic-capable call is reachable in the UDP header parser")
    rep.floor(rid, "successful parse arms", len(okp), 3)


# ------------------------------------------------------------------ R2 reply writers
def array_literals(facts, b):
    tr = Tracer(facts, b)
    out = []
    for bi, blk in enumerate(b.blocks):
        for s in blk["stmts"]:
            if s["k"] == "Assign" and s["rv"]["k"] == "Aggregate" and s["rv"]["agg"]["a"] == "Array" and s["rv"]["agg"]["ty"] == "u8":
                items = []
                for o in s["rv"]["ops"]:
                    n = strip(tr.operand(o))
                    if n.kind == "const":
                        items.append(("c", n[1], n[3].split("::")[-1] if n[3] else None))
                    elif const_eval(n) is not None:
                        items.append(("c", const_eval(n), None))      # e.g. a byte of a constant address / port handed to a general writer
                    else:
                        items.append(("v", _var_name(b, n)))
                out.append((items, s["loc"]))
    return out


def _var_name(b, n):
    n = strip(n)
    if n.kind == "param":
        return n[2]
    if n.kind == "field" and strip(n[1]).kind == "param":
        try:
            return b.upvar_names.get(int(n[2]), n[2])
        except ValueError:
            return n[2]
    return fmt(n)


def check_r2(facts, rep, crate):
    rid = "C18.R2"
    rep.rule(rid, "reply writers produce the RFC byte images (VER, REP/method, RSV, ATYP, BND.ADDR, BND.PORT)")
    n = 0
    specs = [
        (r"^v5::write_auth_method::\{closure#0\}$", [("c", 5), ("v", "method")]),
        (r"^v5::write_response_unspecified::\{closure#0\}$", [("c", 5), ("v", "response"), ("c", 0), ("c", 1)] + [("c", 0)] * 6),
        (r"^v4::write_response::\{closure#0\}$", [("c", 0), ("v", "response")] + [("c", 0)] * 6),
        (r"^v5::read_address::\{closure#0\}$", [("c", 5), ("c", 8), ("c", 0), ("c", 1)] + [("c", 0)] * 6),
    ]
    for pat, want in specs:
        bs = bodies(crate, pat)
        if not bs and "read_address" in pat:
            # the address reader written inline in read_request: the "address type not supported" reply lives there
            bs = bodies(crate, r"^v5::read_request::\{closure#0\}$")
        if not bs:
            rep.bad(rid, pat, "", "writer body not found (anchor missing)")
            continue
        b = bs[0]
        rep.analysed(b)
        lits = array_literals(facts, b)
        where = "%s (%s)" % (loc_str(b.loc), b.path)
        key = b.path.split("::{")[0]
        got = None
        for items, loc in lits:
            g = [(k, v) for k, v, *_ in items]
            if len(g) == len(want):
                got = g
                if g == want:
                    break
        n += 1
        if got == want:
            rep.ok(rid, key, where, "byte image %s" % (got,))
        else:
            rep.bad(rid, key, where, "reply byte image is %s, RFC requires %s" % (got, want))
        # image must be what is written
        wr = [t for _, t in b.calls() if callee(t) and callee(t)["name"] == "write_all"]
        if not wr:
            rep.bad(rid, key + "/written", where, "byte image is never passed to write_all")
    # v5::write_response: indexed stores
    bs = bodies(crate, r"^v5::write_response::\{closure#0\}$")
    if not bs:
        rep.bad(rid, "v5::write_response", "", "writer body not found (anchor missing)")
    else:
        b = bs[0]
        rep.analysed(b)
        n += 1
        _check_indexed_writer(facts, rep, rid, b)
        # every reply of this writer is the image decided above: no address is handed to a different writer
        other = [(bi, t) for bi, t in b.calls() if callee(t) and (callee(t).get("res") or callee(t)["dp"]) in facts.by_dp
                 and facts.by_dp[(callee(t).get("res") or callee(t)["dp"])].crate is crate
                 and facts.by_dp[(callee(t).get("res") or callee(t)["dp"])].path.split("::{")[0] != b.path.split("::{")[0]
                 and callee(t)["name"].startswith(("write_", "send_", "reply"))]
        if other:
            t0 = other[0][1]
            rep.bad(rid, "v5::write_response/delegated", "%s (%s)" % (loc_str(t0["loc"]), b.path),
                    "for some bound addresses the reply is produced by `%s` instead of the image VER REP RSV ATYP BND.ADDR BND.PORT of this writer: "
                    "address family / port of those replies are not the bound address (RFC 1928 section 6)" % callee(t0)["name"])
        else:
            rep.ok(rid, "v5::write_response/not-delegated", "%s (%s)" % (loc_str(b.loc), b.path), "every reply is built by this writer", nontrivial=False)
    rep.floor(rid, "reply writers", n, 5)


def _check_indexed_writer(facts, rep, rid, b):
    tr = Tracer(facts, b)
    guards = {bb: guard_at(facts, b, tr, bb) for bb in range(len(b.blocks)) if b.term(bb)["k"] == "SwitchInt"}
    where = "%s (%s)" % (loc_str(b.loc), b.path)

    def idx_of(node):
        """index expression -> ('abs', i) | ('range', a, b) | ('tail', k, 0)"""
        n = strip(node)
        v = const_eval(n)
        if v is not None:
            return ("abs", v)
        if n.kind == "agg" and n[2].endswith("Range::Range"):
            f = dict(n[3])
            s, e = strip(f["start"]), strip(f["end"])
            vs, ve = const_eval(s), const_eval(e)
            if vs is not None and ve is not None:
                return ("range", vs, ve)
            # len-k .. len
            if e.kind == "call" and e[6] == "len" and s.kind == "bin" and s[1].startswith("Sub"):
                k = const_eval(s[3])
                if strip(s[2]) == e and k is not None:
                    return ("tail", k)
        return ("?", fmt(n))

    def on_stmt(bb, i, s, auto):
        if s["k"] == "Assign" and s["lhs"].get("p") == ["*"]:
            base = strip_ref(tr.local(s["lhs"]["l"]))
            if base is not None and base.kind == "call" and base[6] == "index_mut":
                idx = idx_of(base[3][1])
                val = strip(tr.rvalue(s["rv"]))
                if val.kind == "const":
                    d = ("c", val[1])
                else:
                    d = ("v", _var_name(b, val))
                ev = ("set", idx, d)
                return auto + (ev,) if ev not in auto else auto
        return auto

    def strip_ref(n):
        while n.kind in ("ref", "deref") or (n.kind == "phi" and len(n[1]) == 1):
            n = n[1] if n.kind != "phi" else n[1][0]
        return n

    def on_term(bb, t, auto, store):
        if t["k"] != "Call":
            return auto
        c = callee(t)
        if not c:
            return auto
        ev = None
        if c["name"] == "from_elem":
            ev = ("alloc", const_eval(tr.operand(t["args"][0])), const_eval(tr.operand(t["args"][1])))
        elif c["name"] == "copy_from_slice":
            dst = tr.operand(t["args"][0])
            im = [x for x in walk(dst) if x.kind == "call" and x[6] == "index_mut"]
            src = tr.operand(t["args"][1])
            sd = "?"
            for x in walk(src):
                if x.kind == "call" and x[6] == "octets":
                    sd = "ip-octets"
                    break
                if x.kind == "call" and x[6] in ("to_be_bytes", "to_le_bytes"):
                    inner = [y[6] for y in walk(x) if y.kind == "call"]
                    exact_ = not inexact_steps(x[3][0], lambda y: y.kind == "call" and y[6] == "port", 16) if x[3] else True
                    sd = ("port-%s" % x[6][3:5] if exact_ else "port(computed)-%s" % x[6][3:5]) if "port" in inner else "int-%s" % x[6][3:5]
                    break
            if im:
                ev = ("copy", idx_of(im[0][3][1]), sd)
        if ev is not None and ev not in auto:
            return auto + (ev,)
        return auto

    def on_edge(bb, succ, auto, store):
        g = guards.get(bb)
        if g is None or g.kind != "discr" or not g.adt or not g.adt.endswith("SocketAddr"):
            return auto
        vals = [v for s2, v in g.edges if s2 == succ and v]
        if not vals:
            return auto
        # `match target` and `match target.ip()` select the same family: key the match by the value it inspects
        pk = ",".join(sorted(x for x in leaves(g.pred) if x.startswith("param:"))) or fmt(strip(g.pred))[:200]
        for e in auto:
            if e[0] == "variant" and len(e) > 2 and e[2] == pk and e[1] != vals[0]:
                return STOP            # a second match on the same value cannot take a different arm on this path
        ev = ("variant", vals[0], pk)
        return auto + (ev,) if ev not in auto else auto

    ex = Explorer(facts, b, on_stmt=on_stmt, on_term=on_term, on_edge=on_edge)
    finals = ex.run(0, ())
    rep.paths += len(ex.seen)
    words = set()
    for st, auto, kind in finals:
        if kind == "Return" and not b.blocks[st[0]]["cleanup"] and any(e[0] == "copy" and e[2].startswith("port") for e in auto):
            words.add(auto)
    seen = set()
    for auto in words:
        fam = [e[1] for e in auto if e[0] == "variant"]
        fam = fam[0] if fam else "?"
        seen.add(fam)
        alloc = [e for e in auto if e[0] == "alloc"]
        image = {}
        total = alloc[0][2] if alloc else None
        problems = []
        if not alloc or alloc[0][1] != 0 or total is None:
            problems.append("buffer is not a zero-filled vector of constant length")
        for e in auto:
            if e[0] == "set" and e[1][0] == "abs":
                image[e[1][1]] = e[2]
            elif e[0] == "copy" and total is not None:
                idx = e[1]
                if idx[0] == "range":
                    for i in range(idx[1], idx[2]):
                        image[i] = ("x", e[2])
                elif idx[0] == "tail":
                    for i in range(total - idx[1], total):
                        image[i] = ("x", e[2])
                else:
                    problems.append("unrecognised copy target %s" % (idx,))
            elif e[0] == "set":
                problems.append("unrecognised store index %s" % (e[1],))
        alen, atyp = (4, 1) if fam == "V4" else (16, 4)
        want = {0: ("c", 5), 1: ("v", "response"), 2: ("c", 0), 3: ("c", atyp)}
        for i in range(4, 4 + alen):
            want[i] = ("x", "ip-octets")
        want[4 + alen] = ("x", "port-be")
        want[5 + alen] = ("x", "port-be")
        full = {i: image.get(i, ("c", 0)) for i in range(total or 0)}
        key = "v5::write_response/%s" % fam
        if not problems and total == 6 + alen and full == want:
            rep.ok(rid, key, where, "image VER RSP RSV ATYP=%d ADDR(%d) PORT(be), %d bytes" % (atyp, alen, total))
        else:
            rep.bad(rid, key, where, "reply image for %s is %s (len %s)%s; RFC 1928 section 6 requires %s" % (
                fam, full, total, "; " + "; ".join(problems) if problems else "", want))
    for fam in ("V4", "V6"):
        if fam not in seen:
            rep.bad(rid, "v5::write_response/%s" % fam, where, "no writer path for bound-address family %s" % fam)


# ------------------------------------------------------------------ R3 request readers
READ_W = {"read_u8": 1, "read_u16": 2, "read_u32": 4, "read_u64": 8, "read_u128": 16,
          "read_u16_le": (2, "le"), "read_u32_le": (4, "le")}


def reader_words(facts, b):
    tr = Tracer(facts, b)
    guards = {bb: guard_at(facts, b, tr, bb) for bb in range(len(b.blocks)) if b.term(bb)["k"] == "SwitchInt"}

    def buf_len(node):
        """length of the buffer passed to read_exact"""
        for x in walk(node):
            if x.kind == "repeat":
                return ("c", const_eval(strip_len(x[2])) if not isinstance(x[2], str) else _parse_int(x[2]))
            if x.kind == "call" and x[6] == "from_elem" and len(x[3]) == 2:
                l = lin(x[3][1])
                if l is not None and set(l) == {"c"}:
                    return ("c", l["c"])
                if inexact_steps(x[3][1], lambda y: y.kind == "call" and y[6].startswith("read_u"), 8,
                                 extra_calls=("poll", "map_err", "into_future", "new_unchecked", "get_context")):
                    return ("computed-length",)
                return ("var",)
        return ("?",)

    def strip_len(x):
        return x

    def _parse_int(s):
        m = re.match(r"(\d+)", s.strip())
        return int(m.group(1)) if m else None

    def on_term(bb, t, auto, store):
        if t["k"] != "Call":
            return auto
        c = callee(t)
        if not c:
            return auto
        nm = c["name"]
        ev = None
        if nm in READ_W and "AsyncReadExt" in c.get("trait", c["def"]):
            w = READ_W[nm]
            ev = ("read", w if isinstance(w, int) else w[0], "be" if isinstance(w, int) else w[1], bb)
        elif nm == "read_exact":
            ev = ("read_exact", buf_len(tr.operand(t["args"][1])), bb)
        elif nm == "read_until":
            ev = ("read_until", const_eval(tr.operand(t["args"][1])), bb)
        elif nm == "write_all":
            ev = ("write", bb)
        elif nm in ("read_address",):
            ev = ("call", nm, bb)
        if ev is not None and ev not in auto:
            return auto + (ev,)
        return auto

    def on_edge(bb, succ, auto, store):
        g = guards.get(bb)
        if g is None:
            return auto
        if g.kind == "int":
            vals = [v for s2, v in g.edges if s2 == succ]
            ev = ("case", "|".join(str(v) for v in vals), bb)
            return auto + (ev,) if ev not in auto else auto
        if g.kind == "bool":
            p = strip(g.pred)
            if p.kind == "bin" and not any(x.kind == "call" and x[6] in ("poll",) for x in walk(p)):
                vals = [v for s2, v in g.edges if s2 == succ]
                from mir import is_noise
                if is_noise(b.term(bb)["loc"]):
                    return auto
                ev = ("cond", bb, vals[0])
                return auto + (ev,) if ev not in auto else auto
        return auto

    def on_stmt(bb, i, s, auto):
        if s["k"] == "Assign" and s["lhs"]["l"] == 0 and not s["lhs"].get("p") and s["rv"]["k"] == "Aggregate" \
                and s["rv"]["agg"]["a"] == "Adt" and s["rv"]["agg"]["adt"].endswith("result::Result"):
            ev = ("ret", s["rv"]["agg"]["variant"], bb)
            return auto + (ev,)
        return auto

    ex = Explorer(facts, b, on_stmt=on_stmt, on_term=on_term, on_edge=on_edge, budget=100000)
    finals = ex.run(0, ())
    out = []
    for st, auto, kind in finals:
        if kind == "Return" and not b.blocks[st[0]]["cleanup"]:
            out.append(auto)
    return out, tr, guards, ex


def role_source(tr, node):
    """(kind, site) of the read whose awaited result this node derives from."""
    for x in walk(node):
        if x.kind == "call" and (x[6] in READ_W or x[6] in ("read_exact", "read_until", "read_address")):
            return (x[6], x[4])
    return None


V5_ADDR_WANT = {
    "1": (("read", 1), ("read_exact", ("c", 4))),
    "3": (("read", 1), ("read", 1), ("read_exact", ("var",))),
    "4": (("read", 1), ("read_exact", ("c", 16))),
}


def _v5_merged(facts, rep, rid, b, words, tr, guards, where):
    """read_request with the address reader written inline: VER CMD RSV, then per ATYP the address octets, then PORT."""
    table = {}
    okw = []
    for w in words:
        case = [e[1] for e in w if e[0] == "case"]
        if not case:
            continue
        ok = any(e[0] == "ret" and e[1] == "Ok" for e in w)
        seq = tuple((e[0], e[1]) for e in w if e[0] in ("read", "read_exact", "write"))
        if ok:
            okw.append(w)
        if ok or "other" in case[0]:
            table.setdefault(case[0], set()).add((ok, seq))
    pre = (("read", 1),) * 3
    want = {k: {(True, pre + v + (("read", 2),))} for k, v in V5_ADDR_WANT.items()}
    got = {k: v for k, v in table.items() if k in want}
    if got == want and all(e[2] == "be" for w in okw for e in w if e[0] == "read"):
        rep.ok(rid, "v5::read_request/sequence", where, "VER CMD RSV ATYP ADDR PORT(2,be) (address reader inline)")
        rep.ok(rid, "v5::read_address/table", where, "ATYP 1->4 octets, 3->len+len octets, 4->16 octets (inline)")
    else:
        rep.bad(rid, "v5::read_request/sequence", where, "reads per address type are %s, RFC 1928 sections 4-5 require %s" % (got, want))
    other = table.get("other")
    if other and all((not ok) and any(s_[0] == "write" for s_ in seq) for ok, seq in other):
        rep.ok(rid, "v5::read_address/unsupported", where, "unknown ATYP -> reply written, Err returned (inline)")
    else:
        rep.bad(rid, "v5::read_address/unsupported", where, "unknown ATYP is not answered with a reply + error: %s" % other)
    # roles: command <- 2nd octet, port <- the trailing read_u16; version check on the 1st octet
    rolesok = bool(okw)
    vchk = False
    for w in okw:
        sites = [e[-1] for e in w if e[0] == "read"]
        rt = None
        for x in walk(tr.local(0)):
            if x.kind == "agg" and x[1] == "tuple" and len(x[3]) == 3:
                rt = dict(x[3])
                break
        if not rt or len(sites) < 5:
            rolesok = False
            continue
        c0, c2 = role_source(tr, rt["0"]), role_source(tr, rt["2"])
        if c0 != ("read_u8", sites[1]) or not c2 or c2[0] != "read_u16":
            rolesok = False
        for bb, g in guards.items():
            if g and g.kind == "bool":
                p = strip(g.pred)
                if p.kind == "bin" and p[1] in ("Ne", "Eq") and const_eval(p[3]) == 5 and role_source(tr, p[2]) and role_source(tr, p[2])[1] == sites[0]:
                    vchk = True
    if rolesok:
        rep.ok(rid, "v5::read_request/roles", where, "(command<-2nd octet, port<-read_u16) (address reader inline)")
    else:
        rep.bad(rid, "v5::read_request/roles", where, "result roles are not (command<-2nd octet, address, port<-read_u16)")
    if vchk:
        rep.ok(rid, "v5::read_request/version", where, "first octet compared with VER_5")
    else:
        rep.bad(rid, "v5::read_request/version", where, "first octet is not compared with VER_5 (=5)")
    return 1


def check_r3(facts, rep, crate):
    rid = "C18.R3"
    rep.rule(rid, "request readers: RFC read sequence (order, widths), result roles (command, address, port), "
                  "address-type table, SOCKS4a predicate")
    n = 0
    # ---- v5::read_request
    bs = bodies(crate, r"^v5::read_request::\{closure#0\}$")
    if bs:
        b = bs[0]
        rep.analysed(b)
        words, tr, guards, ex = reader_words(facts, b)
        rep.paths += len(ex.seen)
        where = "%s (%s)" % (loc_str(b.loc), b.path)
        ok = [w for w in words if any(e[0] == "ret" and e[1] == "Ok" for e in w)]
        n += 1
        merged = not bodies(crate, r"^v5::read_address::\{closure#0\}$")
        if merged:
            n += _v5_merged(facts, rep, rid, b, words, tr, guards, where)
        elif len(ok) != 1:
            rep.bad(rid, "v5::read_request/paths", where, "expected one success path, found %d" % len(ok))
        else:
            seq = [(e[0], e[1]) for e in ok[0] if e[0] in ("read", "call", "read_exact", "read_until")]
            want = [("read", 1), ("read", 1), ("read", 1), ("call", "read_address"), ("read", 2)]
            if seq == want and all(e[2] == "be" for e in ok[0] if e[0] == "read"):
                rep.ok(rid, "v5::read_request/sequence", where, "VER CMD RSV ADDR PORT(2,be)")
            else:
                rep.bad(rid, "v5::read_request/sequence", where, "reads %s, RFC 1928 section 4 requires %s" % (seq, want))
            # roles
            sites = [e[-1] for e in ok[0] if e[0] in ("read", "call")]
            rt = None
            for x in walk(tr.local(0)):
                if x.kind == "agg" and x[1] == "tuple" and len(x[3]) == 3:
                    rt = dict(x[3])
                    break
            if rt and len(sites) == 5:
                src = [role_source(tr, rt[k]) for k in ("0", "1", "2")]
                wsrc = [("read_u8", sites[1]), ("read_address", sites[3]), ("read_u16", sites[4])]
                if src == wsrc and _port_inexact(rt["2"]):
                    rep.bad(rid, "v5::read_request/port-exact", where, "the returned port is computed from DST.PORT (`%s`), not the value read" % _port_inexact(rt["2"])[0])
                elif src == wsrc:
                    rep.ok(rid, "v5::read_request/roles", where, "(command<-2nd octet, address<-read_address, port<-read_u16)")
                else:
                    rep.bad(rid, "v5::read_request/roles", where, "result roles %s, expected %s" % (src, wsrc))
            else:
                rep.bad(rid, "v5::read_request/roles", where, "result tuple not found")
            # version check: first read compared with VER_5, failing edge returns Err
            vchk = False
            for bb, g in guards.items():
                if g and g.kind == "bool":
                    p = strip(g.pred)
                    if p.kind == "bin" and p[1] in ("Ne", "Eq"):
                        a, c = p[2], p[3]
                        if const_eval(c) == 5 and role_source(tr, a) and role_source(tr, a)[1] == sites[0]:
                            vchk = True
            if vchk:
                rep.ok(rid, "v5::read_request/version", where, "first octet compared with VER_5")
            else:
                rep.bad(rid, "v5::read_request/version", where, "first octet is not compared with VER_5 (=5)")
    else:
        rep.bad(rid, "v5::read_request", "", "reader not found (anchor missing)")
    # ---- v5::read_address
    bs = bodies(crate, r"^v5::read_address::\{closure#0\}$")
    if not bs and bodies(crate, r"^v5::read_request::\{closure#0\}$"):
        pass    # decided together with read_request (address reader written inline): _v5_merged
    elif bs:
        b = bs[0]
        rep.analysed(b)
        words, tr, guards, ex = reader_words(facts, b)
        rep.paths += len(ex.seen)
        where = "%s (%s)" % (loc_str(b.loc), b.path)
        n += 1
        table = {}
        for w in words:
            case = [e[1] for e in w if e[0] == "case"]
            if not case:
                continue
            ok = any(e[0] == "ret" and e[1] == "Ok" for e in w)
            seq = [(e[0], e[1]) for e in w if e[0] in ("read", "read_exact", "write")]
            if ok or "other" in case[0]:
                table.setdefault(case[0], set()).add((ok, tuple(seq)))
        want = {
            "1": {(True, (("read", 1), ("read_exact", ("c", 4))))},
            "3": {(True, (("read", 1), ("read", 1), ("read_exact", ("var",))))},
            "4": {(True, (("read", 1), ("read_exact", ("c", 16))))},
        }
        got = {k: v for k, v in table.items() if k in want}
        if got == want:
            rep.ok(rid, "v5::read_address/table", where, "ATYP 1->4 octets, 3->len+len octets, 4->16 octets")
        else:
            rep.bad(rid, "v5::read_address/table", where, "address-type table is %s, RFC 1928 section 5 requires %s" % (got, want))
        other = table.get("other")
        if other and all((not ok) and any(s[0] == "write" for s in seq) for ok, seq in other):
            rep.ok(rid, "v5::read_address/unsupported", where, "unknown ATYP -> reply written, Err returned")
        else:
            rep.bad(rid, "v5::read_address/unsupported", where, "unknown ATYP is not answered with a reply + error: %s" % other)
    else:
        rep.bad(rid, "v5::read_address", "", "reader not found (anchor missing)")
    # ---- v4::read_request
    bs = bodies(crate, r"^v4::read_request::\{closure#0\}$")
    if bs:
        b = bs[0]
        rep.analysed(b)
        words, tr, guards, ex = reader_words(facts, b)
        rep.paths += len(ex.seen)
        where = "%s (%s)" % (loc_str(b.loc), b.path)
        n += 1
        ok = [w for w in words if any(e[0] == "ret" and e[1] == "Ok" for e in w)]
        seqs = set()
        for w in ok:
            seqs.add(tuple((e[0], e[1]) for e in w if e[0] in ("read", "read_until")))
        want = {(("read", 1), ("read", 2), ("read", 4), ("read_until", 0)),
                (("read", 1), ("read", 2), ("read", 4), ("read_until", 0), ("read_until", 0))}
        if seqs == want:
            rep.ok(rid, "v4::read_request/sequence", where, "CD PORT(2) IP(4) USERID\\0 [DOMAIN\\0]")
        else:
            rep.bad(rid, "v4::read_request/sequence", where, "reads %s, SOCKS4/4a requires %s" % (sorted(seqs), sorted(want)))
        # roles
        rt = None
        for x in walk(tr.local(0)):
            if x.kind == "agg" and x[1] == "tuple" and len(x[3]) == 3:
                rt = dict(x[3])
                break
        if rt:
            s0, s2 = role_source(tr, rt["0"]), role_source(tr, rt["2"])
            if s0 and s0[0] == "read_u8" and s2 and s2[0] == "read_u16" and _port_inexact(rt["2"]):
                rep.bad(rid, "v4::read_request/port-exact", where, "the returned port is computed from DSTPORT (`%s`), not the value read" % _port_inexact(rt["2"])[0])
            elif s0 and s0[0] == "read_u8" and s2 and s2[0] == "read_u16":
                rep.ok(rid, "v4::read_request/roles", where, "(command<-CD, port<-DSTPORT)")
            else:
                rep.bad(rid, "v4::read_request/roles", where, "command/port roles are %s/%s" % (s0, s2))
        else:
            rep.bad(rid, "v4::read_request/roles", where, "result tuple not found")
        # 4a predicate: which DSTIP values reach the second (domain) read_until? Finite-domain abstract evaluation
        # over representative byte patterns, path-wise (handles `a && b` lowered to nested branches).
        reps = []
        for b3 in (0, 1, 255):
            for b2 in (0, 1, 255):
                for b1 in (0, 1, 255):
                    for b0 in (0, 1, 255):
                        reps.append((b3 << 24) | (b2 << 16) | (b1 << 8) | b0)
        ru = [bi for bi, t in b.calls() if callee(t) and callee(t)["name"] == "read_until"]
        ipg = {}
        for bb, g in guards.items():
            if g and g.kind == "bool":
                rs = role_source(tr, g.pred)
                if rs and rs[0] == "read_u32" and strip(g.pred).kind in ("bin", "un") and _eval_ip_node(tr, g.pred, 0) is not None:
                    ipg[bb] = g
        if not ipg or len(ru) < 2:
            rep.bad(rid, "v4::read_request/4a-predicate", where, "unrecognised idiom: no evaluable predicate on DSTIP selects the SOCKS4a domain form")
        else:
            from an import STOP
            dom_site = ru[-1]
            reached = set()

            def on_edge(bb, succ, auto, store):
                g = ipg.get(bb)
                if g is None:
                    return auto
                keep = []
                for ip in auto:
                    v = _eval_ip_node(tr, g.pred, ip)
                    if any(s2 == succ and val == bool(v) for s2, val in g.edges):
                        keep.append(ip)
                return frozenset(keep) if keep else STOP

            def on_term(bb, t, auto, store):
                if bb == dom_site:
                    reached.update(auto)
                return auto
            ex4 = Explorer(facts, b, on_term=on_term, on_edge=on_edge, budget=100000)
            ex4.run(0, frozenset(reps))
            rep.paths += len(ex4.seen)
            want = set(ip for ip in reps if (ip >> 8) == 0 and ip != 0)
            wrong = sorted((reached - want) | (want - reached))
            if wrong:
                def dq(ip):
                    return "%d.%d.%d.%d" % ((ip >> 24) & 255, (ip >> 16) & 255, (ip >> 8) & 255, ip & 255)
                gb = sorted(ipg)[0]
                rep.bad(rid, "v4::read_request/4a-predicate", "%s (%s)" % (loc_str(b.term(gb)["loc"]), b.path),
                        "SOCKS4a form (domain read) must be selected exactly for DSTIP 0.0.0.x with x != 0; the reader's "
                        "predicate disagrees for %s%s" % (", ".join(dq(x) for x in wrong[:6]), " ..." if len(wrong) > 6 else ""))
            else:
                rep.ok(rid, "v4::read_request/4a-predicate", where, "domain form selected exactly for 0.0.0.x, x != 0 (%d representative addresses, path-wise)" % len(reps))
    else:
        rep.bad(rid, "v4::read_request", "", "reader not found (anchor missing)")
    # v5::read_auth_methods: read_u8 n then read_exact(n)
    bs = bodies(crate, r"^v5::read_auth_methods::\{closure#0\}$")
    if bs:
        b = bs[0]
        rep.analysed(b)
        words, tr, guards, ex = reader_words(facts, b)
        where = "%s (%s)" % (loc_str(b.loc), b.path)
        n += 1
        ok = [w for w in words if any(e[0] == "ret" and e[1] == "Ok" for e in w)]
        seqs = set(tuple((e[0], e[1]) for e in w if e[0] in ("read", "read_exact")) for w in ok)
        if seqs == {(("read", 1), ("read_exact", ("var",)))}:
            rep.ok(rid, "v5::read_auth_methods/sequence", where, "NMETHODS then that many octets")
        else:
            rep.bad(rid, "v5::read_auth_methods/sequence", where, "reads %s" % sorted(seqs))
    rep.floor(rid, "request readers", n, 4)


def _eval_ip_node(tr, node, ip):
    """Evaluate an expression over the u32 produced by read_u32 (None when not evaluable)."""
    n = node
    while n.kind == "phi" and len(n[1]) == 1:
        n = n[1][0]
    if n.kind == "cast":
        return _eval_ip_node(tr, n[1], ip)
    if n.kind == "const":
        return n[1]
    if n.kind == "un" and n[1] == "Not":
        v = _eval_ip_node(tr, n[2], ip)
        return None if v is None else int(not v)
    if n.kind == "bin":
        a, c = _eval_ip_node(tr, n[2], ip), _eval_ip_node(tr, n[3], ip)
        if a is None or c is None:
            return None
        try:
            return {"Shr": a >> c, "Shl": (a << c) & 0xFFFFFFFF, "BitAnd": a & c, "BitOr": a | c, "BitXor": a ^ c,
                    "Eq": int(a == c), "Ne": int(a != c), "Lt": int(a < c), "Le": int(a <= c),
                    "Gt": int(a > c), "Ge": int(a >= c), "Sub": a - c, "Add": a + c}.get(n[1])
        except Exception:
            return None
    rs = role_source(tr, n)
    if rs and rs[0] == "read_u32" and n.kind in ("field", "downcast", "call", "deref", "ref"):
        return ip
    return None


# ------------------------------------------------------------------ R5 terminators
def check_r5(facts, rep, crate):
    rid = "C18.R5"
    rep.rule(rid, "a NUL-terminated field read with read_until(0, v) has its terminator checked before/when it is stripped")
    n = 0
    for b in crate.bodies:
        ru = [(bi, t) for bi, t in b.calls() if callee(t) and callee(t)["name"] == "read_until"]
        if not ru:
            continue
        rep.analysed(b)
        tr = Tracer(facts, b)
        for k, (bi, t) in enumerate(ru):
            vec = strip(tr.operand(t["args"][2]))
            n += 1
            where = "%s (%s)" % (loc_str(t["loc"]), b.path)
            key = "%s/read_until#%d" % (b.path.split("::{")[0], k)
            checked = False
            stripped = False
            for bj, t2 in b.calls():
                c2 = callee(t2)
                if not c2 or not t2["args"]:
                    continue
                if strip(tr.operand(t2["args"][0])) != vec:
                    continue
                if c2["name"] == "pop":
                    stripped = True
                    d = t2["dest"]
                    if not d.get("p") and _local_used(b, d["l"]):
                        checked = True
                elif c2["name"] in ("ends_with", "last", "strip_suffix", "split_last"):
                    checked = True
                elif c2["name"] == "truncate":
                    stripped = True
            if checked:
                rep.ok(rid, key, where, "terminator checked")
            else:
                rep.bad(rid, key, where,
                        "the byte removed after read_until(0, ..) is never compared with the delimiter: at end of "
                        "input read_until returns without a terminator, so a request truncated inside this field is "
                        "accepted (and loses its last byte) instead of failing")
    rep.floor(rid, "NUL-terminated reads", n, 2)


def _local_used(b, l):
    """True if local `l` is read anywhere (operand / place base) other than drops."""
    def op_uses(o):
        return o["k"] in ("copy", "move") and o["p"]["l"] == l
    for blk in b.blocks:
        for s in blk["stmts"]:
            if s["k"] != "Assign":
                continue
            rv = s["rv"]
            for o in rv.get("ops", []):
                if op_uses(o):
                    return True
            pl = rv.get("place")
            if pl and pl["l"] == l:
                return True
        t = blk["term"]
        if t["k"] == "Call":
            if any(op_uses(a) for a in t["args"]):
                return True
        elif t["k"] == "SwitchInt" and op_uses(t["discr"]):
            return True
    return False


def check(facts, rep, tier, cfg):
    crate = facts.crate("penguin_socks")
    if crate is None:
        rep.bad("C18.R1", "crate", "", "penguin_socks facts missing")
        return
    check_r1(facts, rep, crate)
    check_r2(facts, rep, crate)
    check_r3(facts, rep, crate)
    check_r4(facts, rep, crate)
    check_r5(facts, rep, crate)
    check_r6_callsite_codes(facts, rep)
    check_r7_reads_on_callers_reader(facts, rep, crate)
    check_r8_no_normalising_conversion(facts, rep, crate)
    check_r9_every_request_answered(facts, rep)
    rep.rule("C18.S7", "no new process-wide mutable state (static cell / lock / once-cell) in the files this property is anchored in")
    import whomay
    whomay.check_new_statics(facts, rep, "C18.S7", "C18")
    whomay.check_new_trait_methods(facts, rep, "C18.S7", "C18")


def check_r7_reads_on_callers_reader(facts, rep, crate):
    """Every read of a request / negotiation reader is made on the caller's reader itself (reborrows only): an adaptor in between
    changes which inputs are accepted or what is left in the stream - `take(n)` rejects (or cuts) well-formed fields longer than n,
    a fresh BufReader swallows the bytes that follow the message."""
    rid = "C18.R7"
    rep.rule(rid, "request / negotiation readers read from the caller's reader itself (no take / chain / new buffering adaptor between the "
                  "reader parameter and a read call): every field length the RFC allows is accepted and nothing past the message is consumed")
    n = 0
    names = set(READ_W) | {"read_exact", "read_until", "read", "read_buf", "read_to_end", "fill_buf"}
    for b in crate.bodies:
        root = logical_root(facts, b)
        if not root.name.startswith("read_"):
            continue
        tr = None
        for bi, t in b.calls():
            c = callee(t)
            if not c or c["name"] not in names or not t["args"]:
                continue
            tr = tr or Tracer(facts, b)
            recv = tr.operand(t["args"][0])
            n += 1
            where = "%s (%s)" % (loc_str(t["loc"]), b.path)
            adaptors = [x for x in walk(recv) if x.kind == "call" and x[6] not in ("deref", "deref_mut", "as_mut", "borrow_mut", "get_mut", "by_ref")]
            key = "%s/%s" % (root.path, c["name"])
            if adaptors:
                rep.bad(rid, key, where,
                        "this read is made through `%s`, not on the caller's reader itself: inputs the RFC allows (e.g. a NUL-terminated field "
                        "longer than the adaptor's limit) are rejected or cut, or bytes after the message are consumed" % fmt(adaptors[0])[:100])
            else:
                rep.ok(rid, key, where, "read on the reader parameter", nontrivial=False)
    rep.floor(rid, "read calls in the SOCKS readers", n, 10)


_LOSSY = {"to_canonical", "to_ipv4", "to_ipv4_mapped", "to_ipv6_mapped", "to_ipv6_compatible", "to_lowercase", "to_uppercase",
          "to_ascii_lowercase", "to_ascii_uppercase", "make_ascii_lowercase", "make_ascii_uppercase", "trim", "trim_end", "trim_start",
          "trim_matches", "trim_end_matches", "trim_start_matches", "from_utf8_lossy", "to_string_lossy", "strip_prefix", "strip_suffix",
          "swap_bytes", "reverse_bits", "to_le", "from_le", "rotate_left", "rotate_right", "dedup", "sort", "retain", "replace", "replacen",
          "to_bits", "is_loopback"}


def check_r8_no_normalising_conversion(facts, rep, crate):
    """The readers return exactly the address / host bytes that were on the wire: nothing on the way from the bytes read to the value
    returned (and from the writer's argument to the bytes written) normalises, folds or trims them."""
    rid = "C18.R8"
    rep.rule(rid, "the SOCKS readers and writers pass addresses, host names and ports on as they are: no normalising or folding conversion "
                  "(to_canonical, to_ipv4_mapped, case folding, trimming, lossy UTF-8, byte swapping) is applied in penguin-socks - the value "
                  "returned for a request is exactly what RFC 1928 / SOCKS4 assign to the bytes received")
    n = 0
    bad = 0
    for b in crate.bodies:
        if "::tests::" in b.path:
            continue
        for bi, t in b.calls():
            c = callee(t)
            if not c:
                continue
            n += 1
            if c["name"] in _LOSSY and not c["path"].startswith("tracing"):
                bad += 1
                rep.bad(rid, "normalising-conversion/%s/%s" % (b.path.split("::{")[0], c["name"]), "%s (%s)" % (loc_str(t["loc"]), b.path),
                        "`%s` is applied to protocol data in penguin-socks: for some addresses / names (e.g. an IPv4-mapped IPv6 address, a host "
                        "name with capitals or trailing dot) the value handed on is not the one that was received" % c["name"])
    if not bad:
        rep.ok(rid, "no-normalising-conversion", "", "%d calls inspected in penguin-socks, none normalises protocol data" % n, nontrivial=False)
    rep.floor(rid, "calls inspected in penguin-socks", n, 40)


def check_r9_every_request_answered(facts, rep):
    """Once a SOCKS request has been read, what the handler does next is decided by the request - and every such decision ends in a
    reply: no value of the command / address / port makes the handler return without having called a reply writer (directly or through
    handle_connect / handle_associate)."""
    rid = "C18.R9"
    rep.rule(rid, "every request that could be read is answered: in the SOCKS4 / SOCKS5 handlers no branch on the request's contents (command, "
                  "address, port) leads to a return that has not passed a reply writer - an unsupported command gets its failure reply "
                  "(5B / 07), not a silent close")
    crate = facts.crate("rusty_penguin_lib")
    if crate is None or "client" not in crate.features:
        return
    REPLY = ("write_response", "write_response_unspecified", "handle_connect", "handle_associate")
    n = 0
    for b in crate.bodies:
        if "/socks.rs" not in b.file or "::tests::" in b.path:
            continue
        rr = [bi for bi, t in b.calls() if callee(t) and callee(t)["name"] == "read_request"]
        if not rr:
            continue
        n += 1
        rep.analysed(b)
        tr = Tracer(facts, b)
        replies = set(bi for bi, t in b.calls() if callee(t) and callee(t)["name"] in REPLY)
        rets = set(r for r in range(len(b.blocks)) if b.term(r)["k"] == "Return")
        where = "%s (%s)" % (loc_str(b.term(rr[0])["loc"]), b.path)
        bad = None
        gcache = {}
        for gb in b.reachable_from(rr[0]):
            if b.term(gb)["k"] != "SwitchInt":
                continue
            g = guard_at(facts, b, tr, gb)
            if g is None:
                continue
            calls_ = [x for x in walk(g.pred) if x.kind == "call"]
            if not any(x[6] == "read_request" for x in calls_):
                continue
            if any(b.dominates(rp, gb) for rp in replies):
                continue            # already past a reply
            p_ = strip(g.pred)
            # the read itself failing (its own Poll / Result / ControlFlow) is not a decision on the request's contents
            direct = [x[6] for x in calls_ if x[6] not in ("poll", "into_future", "new_unchecked", "get_context", "branch", "read_request", "deref", "as_mut")]
            if g.kind == "discr" and not direct and (g.adt or "").endswith(("Poll", "ControlFlow", "Result")):
                continue
            for succ in set(b.succ[gb]):
                if succ in replies:
                    continue
                # walk from this edge; failure edges of steps that do not depend on the request (no room on the request queue, I/O
                # errors of the writers) are infrastructure failures, not decisions on the request
                seen_, st_ = set(), [succ]
                hit = False
                while st_ and not hit:
                    x = st_.pop()
                    if x in seen_ or x in replies:
                        continue
                    seen_.add(x)
                    if x in rets:
                        hit = True
                        break
                    nxt = list(b.succ[x])
                    if b.term(x)["k"] == "SwitchInt":
                        g2 = gcache.get(x) if x in gcache else gcache.setdefault(x, guard_at(facts, b, tr, x))
                        if g2 is not None and g2.kind == "discr" and not any(y.kind == "call" and y[6] == "read_request" for y in walk(g2.pred)):
                            nxt = [s2 for s2, v2 in g2.edges if v2 not in ("Break", "Err")]
                    st_.extend(nxt)
                if hit:
                    bad = gb
        key = "request-answered/%s" % b.path.split("::{")[0]
        if bad is not None:
            rep.bad(rid, key, "%s (%s)" % (loc_str(b.term(bad)["loc"]), b.path),
                    "for some request contents the handler returns without any reply writer having been called: the client that sent a "
                    "well-formed request (e.g. with an unsupported command byte) sees the connection close instead of the failure reply")
        else:
            rep.ok(rid, key, where, "every branch on the request ends in a reply")
    rep.floor(rid, "SOCKS request handlers", n, 2)


def check_r6_callsite_codes(facts, rep):
    """The reply code each caller passes belongs to the protocol version of the writer it calls, and is the success code exactly
    on the path that established the channel."""
    rid = "C18.R6"
    rep.rule(rid, "callers of the reply writers: SOCKS4 writer gets 90 (granted) only after the channel is established and 91..93 otherwise; "
                  "SOCKS5 writers get 0 only after success and a code in 1..=8 otherwise; the unknown-command path uses 7 (SOCKS5) / 91 (SOCKS4)")
    crate = facts.crate("rusty_penguin_lib")
    if crate is None or "client" not in crate.features:
        rep.info("client feature disabled: no SOCKS front end")
        return
    n = 0
    for b in crate.bodies:
        if "/src/client/" not in b.file:
            continue
        tr = None
        for bi, t in b.calls():
            c = callee(t)
            if not c or c["name"] not in ("write_response", "write_response_unspecified") or not ("v4::" in c["path"] or "v5::" in c["path"]):
                continue
            tr = tr or Tracer(facts, b)
            n += 1
            rep.analysed(b)
            where = "%s (%s)" % (loc_str(t["loc"]), b.path)
            code = const_eval(tr.operand(t["args"][1]))
            v4 = "v4::" in c["path"]
            after_channel = any(callee(t2) and callee(t2)["name"] == "request_tcp_channel" and b.dominates(bj, bi) for bj, t2 in b.calls()) or \
                (c["name"] == "write_response" and not v4)
            if code is None:
                rep.bad(rid, "reply-code/%s#%d" % (b.path.split("::{")[0], n), where, "the reply code passed to %s is not a constant" % c["path"])
                continue
            dom = set(range(90, 94)) if v4 else set(range(0, 9))
            succ = 90 if v4 else 0
            okc = code in dom and ((code == succ) == bool(after_channel))
            if okc:
                rep.ok(rid, "reply-code/%s#%d" % (b.path.split("::{")[0], n), where, "%s <- %d" % (c["name"], code))
            else:
                rep.bad(rid, "reply-code/%s" % b.path.split("::{")[0], where,
                        "%s is called with reply code %d: %s" % (c["path"], code,
                                                                 "not a SOCKS%s reply code (the client cannot interpret the answer)" % ("4" if v4 else "5") if code not in dom
                                                                 else "success/failure code on the wrong path"))
    rep.floor(rid, "reply-writer call sites in the client", n, 6)
