"""Effect vocabulary (P7) helpers for the penguin-mux rules."""
import re
from an import (Tracer, Explorer, STOP, guard_at, strip, strip_casts, walk, fmt, callee, const_eval,
                leaves, field_reads, Inter, N)
from mir import loc_str
from shared import atomic_call, field_of_receiver

FRAME_CTORS = {"new_connect", "new_acknowledge", "new_reset", "new_finish", "new_push", "new_push_owned",
               "new_push_vectored", "new_bind", "new_datagram", "new_datagram_owned"}


def is_queue_send(t):
    c = callee(t)
    return bool(c and c["name"] == "send" and "mpsc::UnboundedSender" in c["def"] and "ws::Message" in c["path"])


def ctors_in(node):
    """Frame constructors / Message variants in the provenance of a queued message."""
    out = set()
    for x in walk(node):
        if x.kind == "call" and x[6] in FRAME_CTORS and "frame::Frame" in x[1]:
            out.add(x[6])
        elif x.kind == "agg" and x[1] == "adt" and "ws::Message::" in x[2]:
            out.add("Message::" + x[2].split("::")[-1])
    return out


def ctor_calls(node, names):
    return [x for x in walk(node) if x.kind == "call" and x[6] in names and "frame::Frame" in x[1]]


def queue_sends(facts, crate):
    for b in crate.bodies:
        tr = None
        for bi, t in b.calls():
            if is_queue_send(t):
                if tr is None:
                    tr = Tracer(facts, b)
                yield b, bi, t, tr, tr.operand(t["args"][1])


CREDIT_FIELD = "psh_send_remaining"
TAKE_OPS = {"compare_exchange", "compare_exchange_weak", "fetch_update", "fetch_sub"}


def credit_take_bodies(facts, crate):
    out = []
    for b in crate.bodies:
        tr = None
        for bi, t in b.calls():
            a = atomic_call(t)
            if a in TAKE_OPS and t["args"]:
                if tr is None:
                    tr = Tracer(facts, b)
                f = field_of_receiver(tr, t["args"][0])
                if f and f.endswith("." + CREDIT_FIELD):
                    out.append(b)
                    break
    return out


def struct_inits(facts, crate, adt_dp):
    """All struct-literal constructions of `adt_dp`: (body, bb, stmt, {field: operand})."""
    for b in crate.bodies:
        for bi, blk in enumerate(b.blocks):
            if blk["cleanup"]:
                continue
            for s in blk["stmts"]:
                if s["k"] == "Assign" and s["rv"]["k"] == "Aggregate":
                    a = s["rv"]["agg"]
                    if a["a"] == "Adt" and a["adt"] == adt_dp:
                        yield b, bi, s, dict(zip(a["fields"], s["rv"]["ops"]))


def field_stores(crate, owner_dp, field):
    """Assignments through a place ending in `.field` of `owner_dp`."""
    for b in crate.bodies:
        for bi, blk in enumerate(b.blocks):
            if blk["cleanup"]:
                continue
            for si, s in enumerate(blk["stmts"]):
                if s["k"] == "Assign":
                    pr = s["lhs"].get("p") or []
                    if pr and isinstance(pr[-1], dict) and pr[-1].get("f") == field and pr[-1].get("o") == owner_dp:
                        yield b, bi, si, s


def edge_literals_dominating(facts, b, tr, site, want):
    """Search dominating guards; `want(guard) -> set of accepted edge values` (or None).
    Returns list of (guard_bb, value) for guards one of whose accepted edges dominates `site`."""
    out = []
    for bb in range(len(b.blocks)):
        if b.term(bb)["k"] != "SwitchInt" or bb == site or not b.dominates(bb, site):
            continue
        g0 = guard_at(facts, b, tr, bb)
        if g0 is None:
            continue
        for g in (g0, as_variant_guard(g0)):
            if g is None:
                continue
            acc = want(g)
            if not acc:
                continue
            by_t = {}
            for succ, v in g.edges:
                by_t.setdefault(succ, []).append(v)
            hit = False
            for succ, vals in by_t.items():
                if all(v in acc for v in vals) and b.edge_dominates((bb, succ), site):
                    out.append((bb, vals[0]))
                    hit = True
            if hit:
                break
    return out


_PRED_VARIANT = {"is_some": ("core::option::Option", "Some", "None"), "is_none": ("core::option::Option", "None", "Some"),
                 "is_ok": ("core::result::Result", "Ok", "Err"), "is_err": ("core::result::Result", "Err", "Ok")}


def as_variant_guard(g):
    """`if x.is_some()` / `is_none()` / `is_ok()` / `is_err()` read as the equivalent match on the variant of x."""
    from an import Guard
    if g.kind != "bool":
        return None
    p = strip(g.pred)
    if p.kind != "call" or p[6] not in _PRED_VARIANT or not p[3]:
        return None
    adt, tv, fv = _PRED_VARIANT[p[6]]
    if not (("option::Option" in (p[2] or "") or "Option::<" in (p[1] or "")) if "option" in adt else
            ("result::Result" in (p[2] or "") or "Result::<" in (p[1] or ""))):
        return None
    subj = p[3][0]
    while subj.kind in ("ref", "deref"):
        subj = subj[1]
    edges = [(succ, tv if v is True else fv) for succ, v in g.edges]
    return Guard(g.bb, subj, edges, "discr", adt)


def derives_from_call(node, call_bb):
    return any(x.kind == "call" and x[4] == call_bb for x in walk(node))


def in_cycle_without(b, site, cut):
    """True if there is a path from `site` back to `site` that avoids all blocks in `cut`."""
    for s in b.succ[site]:
        if s in cut:
            continue
        if site in b.reachable_from(s, cut=set(cut)):
            return True
    return False


def credit_leak_after_take(facts, b, tr, tc, pushes):
    """Forward walk from the credit-take call `tc` over the success edges of every switch derived from its result.
    Returns the block where a Return (or the take itself) is reached without passing a Push construction, else None."""
    FAIL = ("Pending", "None", "Break", "Err")
    seen, st = set(), [x for x in b.succ[tc] if not b.blocks[x]["cleanup"]]
    while st:
        x = st.pop()
        if x in seen or x in pushes:
            continue
        seen.add(x)
        t = b.term(x)
        if t["k"] == "Return" or x == tc:
            return x
        g = guard_at(facts, b, tr, x)
        if g is not None and g.kind == "bool":
            g = as_variant_guard(g) or g
        for y in b.succ[x]:
            if b.blocks[y]["cleanup"]:
                continue
            if g is not None and g.kind == "discr" and derives_from_call(g.pred, tc):
                val = [v for sb, v in g.edges if sb == y]
                if val and all(v in FAIL for v in val):
                    continue
            st.append(y)
    return None


def channel_capacity_roles(facts, crate):
    """[(body, bb, term, element type, roles of the capacity argument)] for every bounded mpsc::channel construction."""
    from an import Inter
    import rules_c03
    it = Inter(facts)
    out = []
    for b in crate.bodies:
        for bi, t in b.calls():
            c = callee(t)
            if c and c["name"] == "channel" and "mpsc" in c["def"] and t["args"]:
                tr = it.tracer(b)
                roles = sorted(rules_c03.top_roles(it.expand(b, tr.operand(t["args"][0]))))
                el = c["path"].split("channel::<", 1)[-1].rstrip(">") if "channel::<" in c["path"] else "?"
                out.append((b, bi, t, el, roles))
    return out


def check_capacity_role(facts, rep, crate, rid, elem_substr, want_role, what):
    k = 0
    for b, bi, t, el, roles in channel_capacity_roles(facts, crate):
        if elem_substr not in el:
            continue
        k += 1
        rep.analysed(b)
        where = "%s (%s)" % (loc_str(t["loc"]), b.path)
        if roles == [want_role]:
            rep.ok(rid, "capacity/%s" % what, where, "capacity <- %s" % want_role)
        else:
            rep.bad(rid, "capacity/%s" % what, where,
                    "the %s is sized from %s instead of %s: the configured size has no effect and items are dropped / senders "
                    "blocked at a different fill level" % (what, roles, want_role))
    rep.floor(rid, "%s constructions" % what, k, 1)


def refusal_sources(facts, crate):
    """Functions whose `Poll<Option<()>>` result says "the stream is closed for writing" with None: the credit take and
    every function of that return type that calls one of them."""
    takes = credit_take_bodies(facts, crate)
    src = {b.dp: b for b in takes}
    changed = True
    while changed:
        changed = False
        for b in crate.bodies:
            if b.dp in src or "Poll<core::option::Option<()>>" not in b.locals[0]["s"].replace("std::", "core::"):
                continue
            if any(callee(t) and ((callee(t).get("res") or callee(t)["dp"]) in src) for _, t in b.calls()):
                src[b.dp] = b
                changed = True
    return src


def check_refusal_is_broken_pipe(facts, rep, crate, rid):
    """Every io-level write entry point maps a refused write (stream closed) to Err(BrokenPipe), never to Ok(n)."""
    src = refusal_sources(facts, crate)
    k = 0
    for b in crate.bodies:
        rt = b.locals[0]["s"].replace("std::", "core::")
        if "Poll<core::result::Result<" not in rt or "io::Error" not in rt and "io::error::Error" not in rt:
            continue
        tr = None
        for tc, t in b.calls():
            c = callee(t)
            if not c or (c.get("res") or c["dp"]) not in src:
                continue
            tr = tr or Tracer(facts, b)
            rep.analysed(b)
            where = "%s (%s)" % (loc_str(t["loc"]), b.path)
            key = "refusal-is-broken-pipe/%s" % b.path.split("::{")[0]
            seen, st = set(), [x for x in b.succ[tc] if not b.blocks[x]["cleanup"]]
            decided = False
            outs = []
            while st:
                x = st.pop()
                if x in seen:
                    continue
                seen.add(x)
                for s in b.blocks[x]["stmts"]:
                    if decided and s["k"] == "Assign" and s["lhs"]["l"] == 0 and not s["lhs"].get("p") and s["rv"]["k"] == "Aggregate":
                        outs.append((x, strip(tr.rvalue(s["rv"]))))
                tt = b.term(x)
                if decided and tt["k"] == "Call" and (tt.get("dest") or {}).get("l") == 0 and not (tt.get("dest") or {}).get("p"):
                    outs.append((x, strip(tr.call_node(x, tt))))
                if tt["k"] == "Return":
                    continue
                g = guard_at(facts, b, tr, x)
                if g is not None and g.kind == "bool":
                    g = as_variant_guard(g) or g
                nxt = [y for y in b.succ[x] if not b.blocks[y]["cleanup"]]
                if g is not None and g.kind == "discr" and derives_from_call(g.pred, tc):
                    adt = g.adt or ""
                    keep = []
                    for y in nxt:
                        vals = [v for sb, v in g.edges if sb == y]
                        if adt.endswith("poll::Poll"):
                            if vals and all(v == "Ready" for v in vals):
                                keep.append(y)
                        elif vals and all(v in ("None", "Break", "Err") for v in vals):
                            keep.append(y)
                            decided_here = True
                    if not adt.endswith("poll::Poll") and keep:
                        decided = True
                    nxt = keep
                st.extend(nxt)
            if not decided:
                rep.info("%s: the refusal edge of the credit take in %s is not a recognisable variant test; not decided" % (rid, b.path))
                continue
            k += 1
            bad = None
            for x, n in outs:
                txt = fmt(n)
                if n.kind == "agg" and n[2].endswith("Poll::Ready") and n[3]:
                    inner = strip(n[3][0][1])
                    if inner.kind == "agg" and inner[2].endswith("Result::Ok"):
                        bad = (x, "returns Ok(..)")
                    elif inner.kind == "agg" and inner[2].endswith("Result::Err") and "BrokenPipe" not in txt:
                        bad = (x, "fails with an error other than BrokenPipe")
                elif n.kind == "call" and n[6] == "from_residual" and "BrokenPipe" not in txt:
                    bad = (x, "fails with an error other than BrokenPipe")
            if bad:
                rep.bad(rid, key, "%s (%s)" % (loc_str(b.term(bad[0])["loc"]), b.path),
                        "a write refused because the stream is closed for writing (connection ended, peer reset, local shutdown) %s here: "
                        "the caller never sees BrokenPipe; with Ok(0) a write loop spins forever on a dead stream" % bad[1])
            elif outs:
                rep.ok(rid, key, where, "refused write -> Err(BrokenPipe)")
            else:
                rep.bad(rid, key, where, "no return is reached on the refusal edge of the credit take")
    rep.floor(rid, "write entry points that can be refused", k, 3 if "std" in crate.features else 0)  # no io::Error without std


def check_dropped_flow_senders(facts, rep, crate, rid):
    """Who may report a flow id as dropped: the stream handle's Drop (its own id) and the Multiplexor's Drop (the reserved 0).
    Any other unconditional report outlives the resolution of the slot it was made for and closes whichever flow reuses the id."""
    from an import Tracer, callee, strip, fmt, const_eval, walk
    from mir import loc_str
    k = 0
    for b in crate.bodies:
        tr = None
        for bi, t in b.calls():
            c = callee(t)
            if not c or c["name"] != "send" or "UnboundedSender::<u32>" not in c["path"]:
                continue
            tr = tr or Tracer(facts, b)
            k += 1
            where = "%s (%s)" % (loc_str(t["loc"]), b.path)
            owner = (b.j.get("impl_self") or {}).get("adt") or ""
            v = strip(tr.operand(t["args"][1]))
            key = "dropped-flow-report/%s" % (b.path.split("::{")[0])
            if b.name == "drop" and owner.endswith("::MuxStream") and v.kind == "field" and v[2] == "flow_id":
                rep.ok(rid, key, where, "the stream handle reports its own id when it is dropped")
            elif b.name == "drop" and owner.endswith("::Multiplexor") and const_eval(v) == 0:
                rep.ok(rid, key, where, "the multiplexor handle reports the reserved id 0")
            else:
                rets = [x for x in range(len(b.blocks)) if b.term(x)["k"] == "Return"]
                uncond = not any(r in b.reachable_from(0, cut={bi}) for r in rets)
                if uncond:
                    rep.bad(rid, key, where,
                            "a flow id (`%s`) is reported on the dropped-flows queue by something other than the stream handle's Drop, on every path: "
                            "the report is still delivered after the slot it was made for has been resolved and freed, and then closes "
                            "(Reset / false) whichever request or stream has re-used the id in the meantime" % fmt(v)[:80])
                else:
                    rep.bad(rid, key, where,
                            "a flow id (`%s`) is reported on the dropped-flows queue outside the stream handle's Drop (on some paths): the handle's "
                            "Drop reports the same id again later, and that second report closes (Reset / end-of-stream) whichever stream has "
                            "re-used the id in the meantime" % fmt(v)[:80])
    rep.floor(rid, "reports on the dropped-flows queue", k, 2)


def check_option_setters(facts, rep, crate, rid, fields, adt="penguin_mux::config::Options"):
    """The builder method that configures `field` stores a value derived from its argument into that field (a setter that forgets
    the store leaves the default in place: the configured window / buffer / keepalive value is silently ignored)."""
    from an import Tracer, walk, strip
    from mir import loc_str
    for f in fields:
        found = None
        for b in crate.bodies:
            if (b.j.get("impl_self") or {}).get("adt") != adt or not b.j.get("pub") or b.argc != 2:
                continue
            tr = None
            stores = []
            for bi, blk in enumerate(b.blocks):
                if bi not in b.reach0:
                    continue
                for s in blk["stmts"]:
                    if s["k"] != "Assign":
                        continue
                    pr = s["lhs"].get("p") or []
                    fl = [e for e in pr if isinstance(e, dict) and "f" in e]
                    if fl and fl[-1]["f"] == f and (fl[-1].get("o") or "").endswith(adt.split("::")[-1]):
                        tr = tr or Tracer(facts, b)
                        v = tr.rvalue(s["rv"])
                        stores.append(any(x.kind == "param" and x[1] == 2 for x in walk(v)))
            if stores:
                found = (b, any(stores))
                if any(stores):
                    break
            elif b.name == f and found is None:
                found = (b, False)
        key = "setter/%s" % f
        if found is None:
            rep.info("%s: no builder method stores into Options.%s (field only set by the constructor); not decided" % (rid, f))
        elif found[1]:
            rep.ok(rid, key, "%s (%s)" % (loc_str(found[0].loc), found[0].path), "Options.%s <- argument of %s" % (f, found[0].name), nontrivial=False)
        else:
            rep.bad(rid, key, "%s (%s)" % (loc_str(found[0].loc), found[0].path),
                    "the builder method `%s` does not store its argument into Options.%s: the configured value is silently ignored and the default stays in effect" % (found[0].name, f))


def import_outbound_queue_rule(facts, rep, tier, cfg, rid):
    """S1 as a precondition of every property whose frames travel through the outbound queue: whatever is taken off the queue is handed to
    the WebSocket sink (no message is dropped, deduplicated or held back by the send loop), by the two draining loops only."""
    import rules_c02
    sub = type(rep)(rep.prop, rep.tier, rep.config)
    rules_c02.check_r2_outbound(facts, sub, facts.crate("penguin_mux"))
    k = 0
    for i in sub.instances:
        if i["rule"] == "C02.R2":
            k += 1
            rep.ok(rid, "C02.R2/" + i["key"], i["where"], i["detail"], nontrivial=False)
    for v in sub.violations:
        if v["rule"] == "C02.R2":
            k += 1
            rep.bad(rid, v["key"], v["where"], v["msg"])
    rep.floor(rid, "outbound-queue obligations (S1)", k, 2)


def import_constructor_rule(facts, rep, rid, names):
    """Re-register C09.R8 (frame constructors store their arguments as they are) for the constructors a property depends on."""
    import rules_c09
    crate = facts.crate("penguin_mux")
    rep.rule(rid, "the frame constructors this property relies on (%s) store each argument into the frame as it is (= C09.R8)" % ", ".join(names))
    sub = type(rep)(rep.prop, rep.tier, rep.config)
    rules_c09.check_constructors(facts, sub, crate)
    for i in sub.instances:
        if i["key"].split("/")[-1] in names:
            rep.ok(rid, i["key"], i["where"], i["detail"], nontrivial=False)
    for v in sub.violations:
        k = v["key"].split("/", 1)[1]
        if k.split("/")[-1] in names or "floor" in k:
            rep.bad(rid, k, v["where"], v["msg"])
