"""C14 The server opens a tunnel only for fully valid, authenticated upgrade requests."""
from an import (Tracer, Explorer, guard_at, strip, strip_casts, walk, fmt, callee, const_eval, Inter, STOP)
from mir import loc_str, is_noise

EXPLANATION = (
    "The upgrade gate is decided by path exploration of the WebSocket handler: every CFG path that reaches the "
    "upgrade site (tokio::spawn of the upgrade future / the 101 response) must carry the passing literal of each "
    "guard: method == GET; (no PSK configured) or (x-penguin-psk == configured PSK under HeaderValue equality, "
    "byte-exact); Sec-WebSocket-Key present; eq_ignore_ascii_case of Connection/'upgrade', Upgrade/'websocket', "
    "Sec-WebSocket-Version/'13', Sec-WebSocket-Protocol/PROTOCOL_VERSION; OnUpgrade extension present. Guards "
    "are identified by the header-name constant and expected-value static in their operands' provenance and by "
    "the comparison callee; polarity comes from the branch edge. (R2) every other exit returns the result of the "
    "backend-or-404 handler; (R3) routing: /ws -> gate, /health and /version only with obfs == false, the rest -> "
    "fallback; (R4) the 101 response carries the same constants and the RFC 6455 accept hash "
    "(SHA-1 over key then GUID, base64).")
EXPLANATION_ADDED = 'R3 requires the routed value to be the raw request path (a trimmed / transformed copy is a different literal).'
EXPLANATION_ADDED2 = ' R1 also decides the converse for the PSK (upgrade reachable with PSK configured + equal header, and with no PSK configured).'
EXPLANATION = EXPLANATION + " Added while testing against seeded changes: " + EXPLANATION_ADDED + EXPLANATION_ADDED2
EXPLANATION = EXPLANATION + " Rounds 12-13: (R5) the I/O type the upgrade task downcasts hyper's Upgraded to is the type every serve_connection_with_upgrades call of the tunnel service is given (a 101 answer is followed by a tunnel)."
EXPLANATION = EXPLANATION + " Rounds 14-15: R5 also forbids pipeline_flush on the server's connections."
EXPLANATION = EXPLANATION + " Rounds 16-17: (R6) no panicking Instant +/- Duration on a configured duration in the serving path; (R7) only the /ws handler touches the request's OnUpgrade extension."
ASSUMPTIONS = ["http::HeaderValue equality is byte-exact; HeaderMap::get returns the first value of the named header",
               "sha1/base64 crates implement SHA-1 and standard base64"]
NOT_DECIDED = "byte-equality of fallback responses with unknown-path responses (hyper / backend behaviour)"
QUICK_CONFIGS = ["default"]
THOROUGH_CONFIGS = ["penguin-server-only", "penguin-native-tls"]

WANT_HEADERS = {
    "CONNECTION": "upgrade",
    "UPGRADE": "websocket",
    "SEC_WEBSOCKET_VERSION": "13",
    "SEC_WEBSOCKET_PROTOCOL": "penguin-v7",
}
GUID = 'b"258EAFA5-E914-47DA-95CA-C5AB0DC85B11"'


def const_str_of(facts, node, depth=0):
    """String literal value reachable from a static / const item / literal node."""
    n = strip(node)
    if n.kind == "constx":
        s = n[1] or ""
        if n[3] and n[3] in facts.by_dp and depth < 4:
            b = facts.by_dp[n[3]]
            return const_str_of(facts, Tracer(facts, b).local(0), depth + 1)
        if s.startswith("const "):
            s = s[6:]
        if s.startswith('"') and s.endswith('"'):
            return s[1:-1]
        return None
    if n.kind == "static" and n[1] in facts.by_dp and depth < 4:
        b = facts.by_dp[n[1]]
        v = Tracer(facts, b).local(0)
        for x in walk(v):
            if x.kind == "call" and x[6] in ("from_static", "from_str", "from"):
                return const_str_of(facts, x[3][0], depth + 1)
        return const_str_of(facts, v, depth + 1)
    if n.kind == "call" and n[6] in ("as_bytes", "as_str", "as_ref", "deref"):
        return const_str_of(facts, n[3][0], depth)
    return None


_FACTS = None


def header_of_get(node):
    """Header identity of a HeaderMap::get(..) call in the provenance of node."""
    for x in walk(node):
        if x.kind == "call" and x[6] in ("get", "remove") and "HeaderMap" in x[1] and len(x[3]) > 1:
            k = strip(x[3][1])
            if k.kind == "constx":
                if k[3] and _FACTS is not None and k[3] in _FACTS.by_dp:
                    # a const item of this workspace naming the header: its string value
                    v = const_str_of(_FACTS, k)
                    if v is not None:
                        return v
                if k[3]:
                    return k[3].split("::")[-1]
                s = (k[1] or "").replace("const ", "")
                return s.strip('"')
    return None


def literal_of(facts, b, tr, g):
    """Descriptor of a guard in the handler (None when not a gate guard)."""
    p = strip_casts(g.pred)
    sp = strip(p)
    if g.kind == "bool":
        if sp.kind == "call" and sp[6] in ("ne", "eq") and len(sp[3]) == 2:
            a0, a1 = sp[3]
            if any(x.kind == "call" and x[6] == "method" for x in walk(a0)):
                k = strip(a1)
                if k.kind == "constx" and (k[3] or "").endswith("Method::GET") or "Method::GET" in (k[1] or ""):
                    return ("method==GET", sp[6] == "eq")
                return ("method==?", sp[6] == "eq")
            h = header_of_get(a0) or header_of_get(a1)
            psk_side = any(x.kind == "field" and x[2] == "ws_psk" for x in walk(a0)) or any(x.kind == "field" and x[2] == "ws_psk" for x in walk(a1))
            if h == "x-penguin-psk" and psk_side:
                exact = "Option<&http::HeaderValue> as std::cmp::PartialEq" in sp[2] or "HeaderValue as std::cmp::PartialEq" in sp[2] or \
                    "Option<&http::HeaderValue> as core::cmp::PartialEq" in sp[2]
                return ("psk==" if exact else "psk~=", sp[6] == "eq")
        if sp.kind == "call" and sp[6] in ("is_some", "is_none") and any(x.kind == "field" and x[2] == "ws_psk" for x in walk(sp)):
            return ("psk_configured", sp[6] == "is_some")
        if sp.kind == "call" and sp[6] in ("unwrap_or_else", "unwrap_or", "is_some_and", "map_or"):
            h = header_of_get(sp)
            if h:
                want = None
                cmpname = None
                default_false = False
                PURE = {"as_bytes", "as_ref", "deref", "as_str", "borrow", "as_slice"}

                def cmp_of(node, ftr=None):
                    """(name, wanted constant) when `node` IS a comparison of the header value itself with a constant."""
                    r = strip(node)
                    if r.kind != "call" or r[6] not in ("eq_ignore_ascii_case", "eq", "ne"):
                        return None
                    w = None
                    for a in r[3]:
                        v = const_str_of(facts, a)
                        if v is not None:
                            w = v
                        elif any(y.kind == "call" and y[6] not in PURE and y[6] not in ("get", "headers", "map", "unwrap_or_else", "unwrap_or") for y in walk(a)):
                            return (r[6] + "(transformed value)", None)     # compared after split / trim / case folding ...: not the header value itself
                    return (r[6], w)
                # closure form: headers.get(H).map(|v| v.as_bytes().eq_ignore_ascii_case(W)) ...
                direct = set()
                for x in walk(sp):
                    if x.kind == "call" and x[6] in ("map", "is_some_and", "map_or", "and_then", "is_none_or") and header_of_get(x[3][0] if x[3] else x):
                        for a in x[3][1:]:
                            sa = strip(a)
                            if sa.kind == "agg" and sa[1] == "closure":
                                direct.add(sa[2])
                            elif sa.kind == "closureconst":
                                direct.add(sa[1])
                for x in walk(sp):
                    if x.kind == "agg" and x[1] == "closure" and x[2] in facts.by_dp:
                        cb = facts.by_dp[x[2]]
                        ctr = Tracer(facts, cb)
                        r = strip(ctr.local(0))
                        if x[2] in direct:
                            c0 = cmp_of(r)
                            if c0:
                                cmpname, want = c0
                            elif not (r.kind == "const" and r[1] == 0):
                                cmpname = cmpname or "?"
                        elif r.kind == "const" and r[1] == 0:
                            default_false = True
                    if x.kind == "const" and x[1] == 0 and sp[6] in ("unwrap_or", "map_or"):
                        default_false = True
                    # expanded form (normalize.py): match headers.get(H) { Some(v) => Some(<comparison>), None => None }
                    if x.kind == "agg" and x[1] == "adt" and x[2].endswith("Option::Some") and not direct and x[3]:
                        c0 = cmp_of(x[3][0][1])
                        if c0:
                            cmpname, want = c0
                        else:
                            cmpname = cmpname or "?"
                if cmpname == "eq_ignore_ascii_case" and default_false:
                    return ("hdr:%s~%s" % (h, want), True)
                return ("hdr:%s?%s/%s" % (h, cmpname, want), True)
        if sp.kind == "field" and sp[2] == "obfs":
            return ("obfs", True)
        if sp.kind == "call" and sp[6] == "eq" and any(x.kind == "call" and x[6] == "path" for x in walk(sp)):
            # the compared value must be the request path itself, not a normalised / trimmed / lower-cased copy of it
            other = [a for a in sp[3] if const_str_of(facts, a) is None]
            transformed = sorted(set(x[6] for a in other for x in walk(a) if x.kind == "call" and x[6] not in
                                     ("path", "uri", "as_str", "deref", "as_ref", "borrow", "eq", "headers", "method")
                                     and (x[1].startswith(("core::str", "alloc::str", "alloc::string", "<str", "<alloc::string", "core::slice", "http::uri"))
                                          and x[6] not in ("path", "uri"))))
            for a in sp[3]:
                v = const_str_of(facts, a)
                if v is not None:
                    if transformed:
                        return ("path~%s(%s)" % (v, ",".join(transformed)), True)
                    return ("path==%s" % v, True)
        return None
    if g.kind == "discr" and g.adt and g.adt.endswith("option::Option"):
        h = header_of_get(p)
        if h:
            return ("has:%s" % h, "Some")
        if any(x.kind == "call" and x[6] == "remove" and "OnUpgrade" in x[2] for x in walk(p)):
            return ("has:on_upgrade", "Some")
    return None


def handler_paths(facts, b):
    """Explore the handler; return list of (literals frozenset, reached_spawn, reached_fallback, ret)."""
    tr = Tracer(facts, b)
    lits = {}
    guards = {}
    for bb in range(len(b.blocks)):
        if b.term(bb)["k"] == "SwitchInt" and not is_noise(b.term(bb)["loc"]):
            g = guard_at(facts, b, tr, bb)
            if g is None:
                continue
            l = literal_of(facts, b, tr, g)
            if l is not None:
                guards[bb] = g
                lits[bb] = l

    def on_edge(bb, succ, auto, store):
        g = guards.get(bb)
        if g is None:
            return auto
        name, pos = lits[bb]
        vals = [v for s2, v in g.edges if s2 == succ]
        v = vals[0]
        if g.kind == "bool":
            truth = (v == pos) if isinstance(pos, bool) else v
            if isinstance(pos, bool):
                truth = v if pos else (not v)
        else:
            truth = (v == "Some")
        return (auto[0] | frozenset([(name, bool(truth))]), auto[1], auto[2])

    def on_term(bb, t, auto, store):
        if t["k"] == "Call":
            c = callee(t)
            if c and c["name"] == "spawn" and "tokio" in c["def"]:
                return (auto[0], True, auto[2])
            if c and c["name"] == "backend_or_404_handler":
                return (auto[0], auto[1], True)
        return auto
    ex = Explorer(facts, b, on_term=on_term, on_edge=on_edge, budget=300000)
    finals = ex.run(0, (frozenset(), False, False))
    out = []
    for st, auto, kind in finals:
        if kind == "Return" and not b.blocks[st[0]]["cleanup"]:
            out.append((auto, ex.witness(st)))
    return out, tr, lits, ex


def check(facts, rep, tier, cfg):
    global _FACTS
    _FACTS = facts
    crate = facts.crate("rusty_penguin_lib")
    if crate is None:
        rep.bad("C14.R1", "crate", "", "rusty_penguin_lib facts missing")
        return
    if "server" not in crate.features:
        rep.info("server feature not enabled in configuration %s" % cfg)
        return
    hs = [b for b in crate.bodies if b.kind == "Closure" and b.j.get("coroutine") and any(
        callee(t) and callee(t)["name"] == "spawn" and "tokio" in callee(t)["def"] for _, t in b.calls()) and
        any(callee(t) and callee(t)["name"] == "get" and "HeaderMap" in callee(t)["def"] for _, t in b.calls())]
    rep.rule("C14.R1", "upgrade gate: every path to the upgrade site carries the passing literal of all 8 guards")
    if not hs:
        rep.bad("C14.R1", "handler", "", "upgrade handler not found (anchor missing)")
        return
    b = hs[0]
    rep.analysed(b)
    paths, tr, lits, ex = handler_paths(facts, b)
    rep.paths += len(ex.seen)
    if ex.exhausted:
        rep.bad("C14.R1", "budget", b.path, "state budget exceeded (fail closed)")
    where = "%s (%s)" % (loc_str(b.loc), b.path)
    up = [(a, w) for a, w in paths if a[1]]
    if not up:
        rep.bad("C14.R1", "upgrade-site", where, "no path reaches the upgrade site")
    required = [("method==GET", True), ("has:SEC_WEBSOCKET_KEY", True), ("has:on_upgrade", True)] + \
               [("hdr:%s~%s" % (h, v), True) for h, v in WANT_HEADERS.items()]
    missing_any = {}
    for a, w in up:
        L = a[0]
        for r in required:
            if r not in L:
                missing_any.setdefault(r[0], w)
        if ("psk_configured", False) not in L and ("psk==", True) not in L:
            missing_any.setdefault("psk", w)
    known = set(n for n, _ in lits.values())
    for r, _ in required:
        key = "gate/%s" % r
        if r in missing_any:
            near = sorted(k for k in known if k.split("~")[0].split("?")[0] == r.split("~")[0])
            rep.bad("C14.R1", key, where,
                    "a path reaches the WebSocket upgrade without passing the check `%s`%s" % (
                        r, " (the handler instead tests %s)" % near if near and near != [r] else ""),
                    witness=["bb%d %s" % (x, loc_str(b.term(x)["loc"])) for x in missing_any[r][-10:]])
        else:
            rep.ok("C14.R1", key, where, "all %d upgrade paths pass it" % len(up))
    if "psk" in missing_any:
        rep.bad("C14.R1", "gate/psk", where,
                "a path reaches the upgrade with a PSK configured and without the byte-exact comparison x-penguin-psk == PSK "
                "(tests present: %s)" % sorted(k for k in known if k.startswith("psk")),
                witness=["bb%d %s" % (x, loc_str(b.term(x)["loc"])) for x in missing_any["psk"][-10:]])
    else:
        rep.ok("C14.R1", "gate/psk", where, "psk not configured, or x-penguin-psk == PSK (HeaderValue equality)")
    # converse ("if"): both PSK situations can reach the upgrade
    with_psk = [a for a, w in up if ("psk_configured", True) in a[0] and ("psk==", True) in a[0]]
    without_psk = [a for a, w in up if ("psk_configured", False) in a[0] and not any(n.startswith("psk=") or n.startswith("psk~") for n, _ in a[0])]
    if up and with_psk and without_psk:
        rep.ok("C14.R1", "gate/psk-admits", where, "upgrade reachable with (PSK configured, header equal) and with (no PSK configured, header not examined)")
    elif up:
        rep.bad("C14.R1", "gate/psk-admits", where,
                "the upgrade is not reachable %s: valid clients are turned away" % (
                    "when a PSK is configured and the request carries exactly that PSK" if not with_psk else
                    "when no PSK is configured unless the request satisfies a PSK comparison"))
    rep.floor("C14.R1", "gate guards recognised", len(set(lits.values())), 9)
    # ---- R2
    rep.rule("C14.R2", "every exit that does not upgrade returns the backend-or-404 handler's result")
    bad2 = [(a, w) for a, w in paths if not a[1] and not a[2]]
    both = [(a, w) for a, w in paths if a[1] and a[2]]
    if bad2:
        rep.bad("C14.R2", "non-upgrade-exit", where, "a rejecting path returns without delegating to the backend-or-404 handler (distinguishable from an unknown path)",
                witness=["bb%d %s" % (x, loc_str(b.term(x)["loc"])) for x in bad2[0][1][-10:]])
    elif both:
        rep.bad("C14.R2", "non-upgrade-exit", where, "a path both upgrades and runs the fallback")
    else:
        rep.ok("C14.R2", "non-upgrade-exit", where, "%d rejecting paths all return the fallback handler's response" % len([1 for a, _ in paths if a[2]]))
    # the request handed to the fallback is the original request (moved)
    for bi, t in b.calls():
        c = callee(t)
        if c and c["name"] == "backend_or_404_handler":
            r = strip(tr.operand(t["args"][1]))
            if not (r.kind == "field" and strip(r[1]).kind == "param"):
                rep.bad("C14.R2", "fallback-request", "%s (%s)" % (loc_str(t["loc"]), b.path), "the fallback is not given the original request")
    # the request handed to the fallback is unmodified: nothing on a path to the fallback changed its headers / uri / method /
    # version / body (the same request on an unknown path reaches the backend as it arrived)
    MUT = ("headers_mut", "uri_mut", "method_mut", "version_mut", "body_mut")
    fbs = [bi for bi, t in b.calls() if callee(t) and callee(t)["name"] == "backend_or_404_handler"]
    nmut = 0
    for bi, t in b.calls():
        c = callee(t)
        if c and c["name"] in MUT and "Request" in (c["path"] + c["def"]):
            reach = b.reachable_from(bi)
            if any(f in reach for f in fbs):
                nmut += 1
                rep.bad("C14.R2", "fallback-request-unmodified/%s" % c["name"], "%s (%s)" % (loc_str(t["loc"]), b.path),
                        "the request is modified (`%s`) on a path that hands it to the backend-or-404 handler: a rejected /ws request no longer "
                        "reaches the backend as it arrived, so its answer can differ from the same request on an unknown path" % c["name"])
    if fbs and not nmut:
        rep.ok("C14.R2", "fallback-request-unmodified", where, "no headers_mut / uri_mut / method_mut / version_mut / body_mut before any of the %d fallback calls" % len(fbs))
    # ---- R4
    rep.rule("C14.R4", "101 response: status, Connection/Upgrade/Sec-WebSocket-Protocol constants, accept hash of the request key")
    hdrs = {}
    status = None
    for bi, t in b.calls():
        c = callee(t)
        if c and c["name"] == "header" and "response::Builder" in c["def"]:
            k = strip(tr.operand(t["args"][1]))
            v = tr.operand(t["args"][2])
            name = (k[3] or "").split("::")[-1] if k.kind == "constx" else fmt(k)
            hdrs[name] = v
        if c and c["name"] == "status" and "response::Builder" in c["def"]:
            s = strip(tr.operand(t["args"][1]))
            status = (s[3] or s[1]) if s.kind == "constx" else fmt(s)
    ok4 = status and status.endswith("SWITCHING_PROTOCOLS")
    for h in ("CONNECTION", "UPGRADE", "SEC_WEBSOCKET_PROTOCOL"):
        v = hdrs.get(h)
        if v is None or const_str_of(facts, v) != WANT_HEADERS[h]:
            ok4 = False
    acc = hdrs.get("SEC_WEBSOCKET_ACCEPT")
    acc_ok = acc is not None and any(x.kind == "call" and x[6] == "make_sec_websocket_accept" and header_of_get(x[3][0]) == "SEC_WEBSOCKET_KEY" for x in walk(acc))
    if ok4 and acc_ok:
        rep.ok("C14.R4", "response-101", where, "101 + Connection: upgrade, Upgrade: websocket, Sec-WebSocket-Protocol: penguin-v7, Sec-WebSocket-Accept: hash(key)")
    else:
        rep.bad("C14.R4", "response-101", where, "the Switching Protocols response does not carry status 101 / the accepted protocol / the accept hash of the request's key (status=%s headers=%s accept_ok=%s)" % (
            status, {k: const_str_of(facts, v) for k, v in hdrs.items()}, acc_ok))
    for hb in crate.bodies:
        if hb.name == "make_sec_websocket_accept" and hb.kind == "Fn":
            rep.analysed(hb)
            htr = Tracer(facts, hb)
            ups = [(bi, t) for bi, t in hb.calls() if callee(t) and callee(t)["name"] == "update"]
            ok = len(ups) == 2 and hb.dominates(ups[0][0], ups[1][0]) and \
                any(x.kind == "param" for x in walk(htr.operand(ups[0][1]["args"][1]))) and \
                (strip(htr.operand(ups[1][1]["args"][1]))[1] or "").replace("const ", "") == GUID and \
                any(callee(t) and callee(t)["name"] == "new" and "Sha1" in callee(t)["path"] for _, t in hb.calls()) and \
                any(callee(t) and callee(t)["name"] == "encode" and "base64" in callee(t)["def"] for _, t in hb.calls())
            w4 = "%s (%s)" % (loc_str(hb.loc), hb.path)
            if ok:
                rep.ok("C14.R4", "accept-hash", w4, "base64(SHA1(key || RFC6455 GUID))")
            else:
                rep.bad("C14.R4", "accept-hash", w4, "accept hash is not base64(SHA-1(key then 258EAFA5-E914-47DA-95CA-C5AB0DC85B11))")
    # ---- R3 routing
    rep.rule("C14.R3", "routing: /ws -> gate; /health, /version only when obfs is off; everything else -> fallback")
    calls = [x for x in crate.bodies if x.name == "call" and "IncomingOrFullBody" in x.j.get("impl_trait", "") and x.j.get("impl_self", {}).get("s", "").endswith("State")]
    if not calls:
        rep.bad("C14.R3", "router", "", "Service::call not found (anchor missing)")
        return
    cb = calls[0]
    rep.analysed(cb)
    ctr = Tracer(facts, cb)
    cwhere = "%s (%s)" % (loc_str(cb.loc), cb.path)
    guards = {}
    lit2 = {}
    for bb in range(len(cb.blocks)):
        if cb.term(bb)["k"] == "SwitchInt":
            g = guard_at(facts, cb, ctr, bb)
            l = literal_of(facts, cb, ctr, g) if g else None
            if l:
                guards[bb] = g
                lit2[bb] = l
    # an obfs test belongs to the path test whose true edge dominates it
    for bb, l in list(lit2.items()):
        if l[0] == "obfs":
            for pb, pl in lit2.items():
                if pl[0].startswith("path=="):
                    ts = [s2 for s2, v in guards[pb].edges if v is True]
                    if ts and cb.edge_dominates((pb, ts[0]), bb):
                        lit2[bb] = ("obfs|" + pl[0], True)

    def on_edge(bb, succ, auto, store):
        g = guards.get(bb)
        if g is None:
            return auto
        v = [v for s2, v in g.edges if s2 == succ][0]
        return (auto[0] | frozenset([(lit2[bb][0], bool(v))]), auto[1])

    def on_term(bb, t, auto, store):
        if t["k"] == "Call":
            c = callee(t)
            if c and c["name"] in ("ws_handler", "backend_or_404_handler"):
                return (auto[0], auto[1] + (c["name"],))
        return auto

    def on_stmt(bb, i, s, auto):
        if s["k"] == "Assign" and s["rv"]["k"] == "Aggregate" and s["rv"]["agg"]["a"] == "Coroutine":
            return (auto[0], auto[1] + ("inline-response",))
        return auto
    ex2 = Explorer(facts, cb, on_stmt=on_stmt, on_term=on_term, on_edge=on_edge)
    fin = ex2.run(0, (frozenset(), ()))
    problems = []
    seen_kinds = set()
    for st, auto, kind in fin:
        if kind != "Return":
            continue
        L, acts = auto
        d = dict(L)
        if acts == ("ws_handler",):
            seen_kinds.add("ws")
            if not d.get("path==/ws"):
                problems.append("the gate is reached for a path other than /ws")
        elif acts == ("inline-response",):
            seen_kinds.add("inline")
            if not ((d.get("path==/health") and d.get("obfs|path==/health") is False) or
                    (d.get("path==/version") and d.get("obfs|path==/version") is False)):
                problems.append("/health or /version answered although obfuscation is on (or for another path)")
        elif acts == ("backend_or_404_handler",):
            seen_kinds.add("fallback")
            if d.get("path==/ws"):
                problems.append("/ws is routed to the fallback instead of the gate")
        else:
            problems.append("unexpected routing actions %s" % (acts,))
    if problems or seen_kinds != {"ws", "inline", "fallback"}:
        rep.bad("C14.R3", "routing", cwhere, "; ".join(sorted(set(problems))) or "routing arms missing: %s" % sorted(seen_kinds))
    else:
        rep.ok("C14.R3", "routing", cwhere, "/ws -> gate; /health,/version iff !obfs; else fallback")
    # ---- R5 the 101 answer is followed by a tunnel: the connection type the upgrade task expects is the one the server serves on
    rep.rule("C14.R5", "a request that is answered 101 gets its tunnel: the I/O type the upgrade task downcasts hyper's `Upgraded` to is the type "
                       "every `serve_connection_with_upgrades` call of the server (service = the tunnel service) is given - a connection served on "
                       "another type is answered 101 and then dropped when the downcast fails")
    crate_ = facts.crate("rusty_penguin_lib")
    want_types, served = {}, []
    for b in (crate_.bodies if crate_ else []):
        for bi, t in b.calls():
            c = callee(t)
            if not c:
                continue
            if c["name"] == "downcast" and "hyper_util" in c["path"] and "/server/" in b.file and c.get("args"):
                want_types[c["args"][0]] = "%s (%s)" % (loc_str(t["loc"]), b.path)
            if c["name"] == "serve_connection_with_upgrades" and len(c.get("args") or []) >= 3 and c["args"][2].endswith("service::State"):
                served.append((c["args"][1], "%s (%s)" % (loc_str(t["loc"]), b.path)))
    if crate_ is not None and any("server::service" in b.path for b in crate_.bodies):
        for ty, w in served:
            if ty in want_types:
                rep.ok("C14.R5", "served-type-is-downcast-type", w, "served on %s" % ty[:120])
            else:
                rep.bad("C14.R5", "served-type-is-downcast-type", w,
                        "this connection is served on `%s`, but the task spawned after the 101 answer downcasts the upgraded connection to %s: for "
                        "connections served here a fully valid, authenticated upgrade request is answered 101 and then no tunnel is started" % (
                            ty[:160], sorted(x[:160] for x in want_types) or "nothing"))
        for b in crate_.bodies:
            if "/server/" not in b.file or "::tests::" in b.path:
                continue
            for bi, t in b.calls():
                c = callee(t)
                if c and c["name"] == "pipeline_flush" and "hyper" in c["path"]:
                    fl = const_eval(Tracer(facts, b).operand(t["args"][1])) if len(t["args"]) > 1 else None
                    if fl is None or fl:
                        rep.bad("C14.R5", "no-pipeline-flush", "%s (%s)" % (loc_str(t["loc"]), b.path),
                                "`pipeline_flush(true)` on the server's connections: the 101 head is still unflushed when hyper hands the socket "
                                "to the tunnel if the client sent bytes right behind its request, and is dropped")
        rep.floor("C14.R5", "serve_connection_with_upgrades calls of the tunnel service", len(served), 1)
        rep.floor("C14.R5", "downcasts of the upgraded connection", len(want_types), 1)
    # ---- R7 the fallback answers a rejected /ws request exactly as it answers the same request elsewhere
    rep.rule("C14.R7", "the unknown-path response does not depend on what the gate did to the request: only the /ws handler touches the request's "
                       "OnUpgrade extension (it removes it before its checks); the backend / not-found fallback never reads it - otherwise a "
                       "rejected /ws request (extension gone) and the same request on another path (extension present) are answered differently")
    c7 = facts.crate("rusty_penguin_lib")
    k7 = 0
    for b in (c7.bodies if c7 else []):
        if "/server/" not in b.file or "::tests::" in b.path:
            continue
        for bi, t in b.calls():
            c = callee(t)
            if c and "Extensions" in c["path"] and "OnUpgrade" in c["path"]:
                k7 += 1
                w7 = "%s (%s)" % (loc_str(t["loc"]), b.path)
                if "ws_handler" in b.path:
                    rep.ok("C14.R7", "onupgrade-extension/ws_handler", w7, "the gate takes the extension", nontrivial=False)
                else:
                    rep.bad("C14.R7", "onupgrade-extension/%s" % b.path.split("::{")[0], w7,
                            "`%s` consults the request's OnUpgrade extension outside the /ws handler: the gate removes that extension before it "
                            "rejects a request, so a rejected /ws request is answered differently from the same request on an unknown path "
                            "(the tunnel endpoint becomes distinguishable)" % c["name"])
    if c7 is not None and any("server::service" in b.path for b in c7.bodies):
        rep.floor("C14.R7", "uses of the OnUpgrade extension in the server", k7, 1)
    # ---- R6 the serving path does no panicking deadline arithmetic on configured durations
    rep.rule("C14.R6", "a valid upgrade is served under every timeout setting: the connection-serving code of the server does not compute a deadline "
                       "with the panicking `Instant + Duration` on a configured (non-constant) duration - `no timeout` is represented by the "
                       "largest duration, for which that addition overflows and the connection task dies before the 101 is written")
    k6 = 0
    bad6 = 0
    crate6 = facts.crate("rusty_penguin_lib")
    for b in (crate6.bodies if crate6 else []):
        if "/server/" not in b.file or "::tests::" in b.path:
            continue
        tr6 = None
        for bi, t in b.calls():
            c = callee(t)
            if not c:
                continue
            if "time::" in c["path"] or "Instant" in c["path"] or "Duration" in c["path"]:
                k6 += 1
            if c["name"] in ("add", "add_assign", "sub") and "Instant" in c["path"] and "Duration" in c["path"] and len(t["args"]) > 1:
                tr6 = tr6 or Tracer(facts, b)
                rhs = tr6.operand(t["args"][1])
                if const_eval(rhs) is None and not (strip(rhs).kind in ("const", "constx")):
                    bad6 += 1
                    rep.bad("C14.R6", "no-panicking-deadline-arithmetic/%s" % b.path.split("::{")[0], "%s (%s)" % (loc_str(t["loc"]), b.path),
                            "`Instant %s Duration` on a configured duration (`%s`) in the server's connection path: with the timeout disabled the "
                            "duration is the maximum and the operation panics, so the connection is dropped before any answer - a valid, "
                            "authenticated upgrade gets no 101 and no tunnel (use checked_add / a far-future clamp)" % (
                                "+" if c["name"].startswith("add") else "-", fmt(rhs)[:60]))
    if crate6 is not None and any("/server/" in b.file for b in crate6.bodies):
        if not bad6:
            rep.ok("C14.R6", "no-panicking-deadline-arithmetic", "", "%d time-related calls inspected in the server, none adds a configured duration to an Instant" % k6, nontrivial=False)
        rep.floor("C14.R6", "time-related calls inspected in the server", k6, 3)
    rep.rule("C14.S7", "no new process-wide mutable state (static cell / lock / once-cell) in the files this property is anchored in")
    import whomay
    whomay.check_new_statics(facts, rep, "C14.S7", "C14")
    whomay.check_new_trait_methods(facts, rep, "C14.S7", "C14")
