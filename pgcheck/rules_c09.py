"""C09 Wire format: decoder/encoder/len agree with the PROTOCOL.md layout table."""
import json
from an import (inexact_steps, Tracer, Explorer, STOP, guard_at, strip, strip_casts, walk, fmt, callee, const_eval,
                field_reads, leaves, N)
from layout import consume_paths, s4_check, emit_paths, lin, lin_str, _ladd
from mir import loc_str
import os, re

EXPLANATION = (
    "The frame codec is decided against a layout table transcribed from PROTOCOL.md. From the MIR of "
    "`TryFrom<CowBytes> for Frame` the checker extracts, per opcode arm, the ordered sequence of length "
    "checks and consuming reads (width, endianness, destination field role) on every CFG path (product-graph "
    "exploration with constant pruning), and checks (R1) decoder grammar = table, (R2) every length check "
    "demands exactly the bytes consumed after it (no under-check => no panic inside `bytes`, no over-check "
    "=> every valid frame accepted), (R3) encoder grammar = table (put_uN/extend order and field roles), "
    "(R4) Payload::len = sum of the encoder's widths, (R5) opcode / bind-type value tables by finite-domain "
    "abstract evaluation over all 256 u8 values of the extracted decision trees, (R6) no panic-capable call "
    "reachable in the decoder in the production configuration, (R7) append_push_data only appends, plus the "
    "delegating TryFrom/From wrappers. R1+R3+R5 give encode/decode inverse on all constructible frames as an "
    "argument over the extracted grammars.")
EXPLANATION_ADDED = 'R3 also requires the slices of a vectored Push to be appended by a plain forward iteration.'
EXPLANATION = EXPLANATION + " Added while testing against seeded changes: " + EXPLANATION_ADDED
EXPLANATION = EXPLANATION + ' Rounds 12-13: R7 also requires append_push_data to be total on every Push encoding: a length test on the way to the append accepts a header-only (5-octet) frame.'
EXPLANATION = EXPLANATION + ' Rounds 14-15 and the value sweep: R1 / R3 require each integer field to be the value read / the field written itself (no arithmetic, no narrowing cast, no byte swapping); (R8) every Frame::new_* constructor stores its arguments as they are.'
EXPLANATION = EXPLANATION + ' Rounds 16-17: (R9) = C20.R11 on the buffer operations the decoder relies on. Not decided: the equality of a vectored and a single Push payload with the same bytes (PushPayload::eq) - a semantic equivalence of two implementations.'
ASSUMPTIONS = [
    "bytes::Buf::get_uN/split_to and BufMut::put_uN read/write big-endian fixed widths and panic on under-run "
    "(library contract)",
    "CowBytes Buf impl delegates to slice/Bytes (decided separately by C20.R3)",
    "layout table transcribed by hand from PROTOCOL.md (cross-checked against the opcode list in PROTOCOL.md "
    "and tools/penguin-v7.lua, INFO only)",
]
NOT_DECIDED = "nothing of substance beyond the trusted library contracts; numeric round-trip is argued from the grammars, not executed"

OPS = ["Connect", "Acknowledge", "Reset", "Finish", "Push", "Bind", "Datagram"]
# decoder/encoder layout oracle (PROTOCOL.md): (kind, width, role)
TABLE = {
    "Connect": [("int", 4, "rwnd"), ("int", 2, "target_port"), ("rest", None, "target_host")],
    "Acknowledge": [("int", 4, "0")],
    "Reset": [],
    "Finish": [],
    "Push": [("rest", None, "0")],
    "Bind": [("int", 1, "bind_type"), ("int", 2, "target_port"), ("rest", None, "target_host")],
    "Datagram": [("int", 1, "len:target_host"), ("int", 2, "target_port"), ("var", None, "target_host"),
                 ("rest", None, "data")],
}
HEADER = [("int", 1, "opcode"), ("int", 4, "id")]
OPCODE_ADT = "penguin_mux::frame::OpCode"
PAYLOAD_ADT = "penguin_mux::frame::Payload"
PUSH_ADT = "penguin_mux::frame::PushPayload"


def find_body(crate, pred):
    return [b for b in crate.bodies if pred(b)]


def decoder_body(crate):
    c = [b for b in crate.bodies if b.name == "try_from" and b.j.get("impl_trait", "").endswith("TryFrom<cow_bytes::CowBytes<'data>>")
         and "frame::Frame" in b.j.get("impl_self", {}).get("s", "")]
    return c[0] if c else None


def encoder_body(crate):
    c = [b for b in crate.bodies if b.name == "from" and "From<&" in b.j.get("impl_trait", "") and "Frame" in b.j.get("impl_trait", "")
         and b.j.get("impl_self", {}).get("s", "") == "alloc::vec::Vec<u8>"]
    return c[0] if c else None


def path_op(events):
    for e in events:
        if e[0] == "variant" and e[1] == OPCODE_ADT:
            return e[2]
    return None


def roles_on_path(facts, body, tr, path):
    """field role -> source descriptor from the payload aggregates built on this path."""
    roles = {}
    blocks = set(path["blocks"])
    for bi in path["blocks"]:
        for s in body.blocks[bi]["stmts"]:
            if s["k"] != "Assign" or s["rv"]["k"] != "Aggregate":
                continue
            agg = s["rv"]["agg"]
            if agg["a"] != "Adt" or not agg["adt"].startswith("penguin_mux::frame::"):
                continue
            for f, op in zip(agg["fields"], s["rv"]["ops"]):
                n = tr.operand(op)
                src = None
                sn = strip(n)
                if sn.kind == "param" and sn[1] == 1:
                    src = ("rest",)
                else:
                    for x in walk(n):
                        if x.kind == "call" and x[3] and strip(x[3][0]).kind == "param" and strip(x[3][0])[1] == 1:
                            if x[6].startswith("get_"):
                                src = ("get", x[4])
                                break
                            if x[6] == "split_to":
                                src = ("split_to", x[4])
                                break
                if src is not None:
                    roles.setdefault(src, f)
                    int_field = f in ("rwnd", "target_port", "id", "bind_type") or (f == "0" and agg.get("variant") == "Acknowledge")
                    if src[0] == "get" and sn.kind != "agg" and int_field and not any(y.kind == "agg" and y[1] == "adt" and
                                                                                        str(y[2]).startswith("penguin_mux::") for y in walk(n)):
                        gname = [x[6] for x in walk(n) if x.kind == "call" and x[6].startswith("get_")][0]
                        m_ = re.match(r"get_[ui](\d+)", gname)
                        steps = inexact_steps(n, lambda y: y.kind == "call" and y[6].startswith("get_"), int(m_.group(1)) if m_ else None,
                                              extra_calls=("map_err",))
                        if steps:
                            roles.setdefault(("inexact", f), steps[0])
        t = body.term(bi)
        c = callee(t)
        if c and c["name"] == "try_from" and "OpCode" in c["path"] and t["args"]:
            for x in walk(tr.operand(t["args"][0])):
                if x.kind == "call" and x[6].startswith("get_"):
                    roles.setdefault(("get", x[4]), "opcode")
    return roles


def decoded_layout(path, roles):
    out = []
    varlen_sites = {}
    for ev in path["events"]:
        if ev[0] == "get":
            role = roles.get(("get", ev[4]))
            out.append(["int", ev[2], role, ev[3], ev[4]])
        elif ev[0] == "split_to":
            role = roles.get(("split_to", ev[2]))
            ln = dict(ev[1]) if ev[1] else {}
            for k in ln:
                if k != "c":
                    varlen_sites[k[1]] = role
            out.append(["var", None, role, None, ev[2]])
    for it in out:
        if it[0] == "int" and it[2] is None and it[4] in varlen_sites:
            it[2] = "len:%s" % varlen_sites[it[4]]
    if ("rest",) in roles:
        out.append(["rest", None, roles[("rest",)], None, None])
    return out


def check_decoder(facts, rep, crate):
    b = decoder_body(crate)
    if b is None:
        rep.bad("C09.R1", "decoder", "", "decoder `TryFrom<CowBytes> for Frame` not found (anchor missing)")
        return
    rep.analysed(b)
    paths, tr, rg, ex = consume_paths(facts, b)
    rep.paths += len(ex.seen)
    if ex.exhausted:
        rep.bad("C09.R1", "budget", b.path, "state budget exceeded (fail closed)")
    rep.rule("C09.R1", "decoder grammar per opcode arm (ordered reads with width/endianness/field role) = PROTOCOL.md table")
    rep.rule("C09.R2", "S4: every length check demands exactly the bytes consumed after it on the success path")
    rep.rule("C09.R6", "no panic-capable call reachable in the decoder (production config)")
    ok_paths = [p for p in paths if any(e[0] == "ret" and e[1] == "Ok" for e in p["events"])]
    seen_ops = {}
    for p in ok_paths:
        op = path_op(p["events"])
        seen_ops.setdefault(op, []).append(p)
    where = "%s (%s)" % (loc_str(b.loc), b.path)
    for op in OPS:
        ps = seen_ops.get(op)
        if not ps:
            rep.bad("C09.R1", "arm/%s" % op, where, "decoder has no successful path for opcode %s (exhaustiveness)" % op)
            continue
        for p in ps:
            roles = roles_on_path(facts, b, tr, p)
            lay = decoded_layout(p, roles)
            got = [(k, w, r) for k, w, r, _, _ in lay]
            want = HEADER + TABLE[op]
            inex = [(k[1], v) for k, v in roles.items() if k[0] == "inexact"]
            if inex:
                rep.bad("C09.R1", "arm/%s/value" % op, where,
                        "the decoded field `%s` of a %s frame is not the integer that was read but computed from it (%s): decode is no longer the "
                        "inverse of encode for some values" % (inex[0][0], op, inex[0][1]))
            if got == want and all(e in (None, "be") for _, _, _, e, _ in lay):
                rep.ok("C09.R1", "arm/%s" % op, where, "layout %s" % (got,))
            else:
                rep.bad("C09.R1", "arm/%s" % op, where,
                        "decoder layout for %s differs from PROTOCOL.md:\n got  %s\n want %s" % (
                            op, [(k, w, r, e) for k, w, r, e, _ in lay], want),
                        witness=["bb%d %s" % (x, loc_str(b.term(x)["loc"])) for x in p["blocks"][-25:]])
            probs, total = s4_check(p)
            if not probs:
                rep.ok("C09.R2", "arm/%s" % op, where, "checks == consumption (%s bytes fixed part)" % lin_str(total))
            gi = {}
            for kind, msg, bb in probs:
                # stable key: ordinal of the guard among the path's guards
                gl = [e[2] for e in p["events"] if e[0] == "ge"]
                idx = gl.index(bb) if bb in gl else -1
                n = gi.get((kind, idx), 0)
                gi[(kind, idx)] = n + 1
                rep.bad("C09.R2", "arm/%s/%s@check%d" % (op, kind, idx),
                        "%s (%s)" % (loc_str(b.term(bb)["loc"]), b.path), msg)
    # extra ops?
    for op in seen_ops:
        if op not in OPS:
            rep.bad("C09.R1", "arm/%s" % op, where, "decoder accepts an opcode not in PROTOCOL.md: %s" % op)
    # error paths must be Err returns (no panic)
    n_panic = 0
    for p in paths:
        for e in p["events"]:
            if e[0] == "panic":
                n_panic += 1
                rep.bad("C09.R6", "panic@%s" % (path_op(p["events"]) or "header"),
                        "%s (%s)" % (loc_str(b.term(e[1])["loc"]), b.path),
                        "panic-capable call reachable in the decoder in the production configuration")
    # data-dependent unwrap/expect/index
    reach = set(st[0] for st in ex.seen)
    for bi, t in b.calls():
        if bi not in reach:
            continue
        c = callee(t)
        if c and c["name"] in ("unwrap", "expect", "index", "index_mut", "split_at", "unwrap_unchecked"):
            a0 = tr.operand(t["args"][0]) if t["args"] else None
            if a0 is not None and any(x.kind == "param" and x[1] == 1 for x in walk(a0)):
                n_panic += 1
                rep.bad("C09.R6", "fallible/%s" % c["name"], "%s (%s)" % (loc_str(t["loc"]), b.path),
                        "`%s` on a value derived from the input buffer is reachable in the decoder" % c["name"])
    # bounds-checked indexing / division on input-derived data (MIR Assert terminators; overflow asserts do not exist in the production config)
    from an import walk as _awalk
    for bi in sorted(b.reach0):
        t = b.term(bi)
        if t["k"] != "Assert" or b.blocks[bi]["cleanup"]:
            continue
        msg = str(t.get("msg") or "")
        if not any(k in msg for k in ("BoundsCheck", "DivisionByZero", "RemainderByZero")):
            continue
        ops_ = [t.get("cond")] + [o for o in (t.get("ops") or [])]
        dep = False
        for l_ in set(int(x) for x in __import__("re").findall(r"_(\d+)", msg)):
            if any(getattr(x, "kind", None) == "param" and x[1] == 1 for x in _awalk(tr.local(l_))):
                dep = True
        if t.get("cond") is not None and any(getattr(x, "kind", None) == "param" and x[1] == 1 for x in _awalk(tr.operand(t["cond"]))):
            dep = True
        if dep:
            n_panic += 1
            rep.bad("C09.R6", "assert/%s" % msg.split(" ")[0].split("{")[0], "%s (%s)" % (loc_str(t["loc"]), b.path),
                    "a bounds-checked index (or division) on input-derived data is reachable in the decoder before / outside the length checks: "
                    "a short input panics instead of being rejected with an error (%s)" % msg[:80])
    if n_panic == 0:
        rep.ok("C09.R6", "decoder-total", where, "%d explored states, no panic-capable construct on input-derived data" % len(ex.seen))
    # error classification of short inputs
    short = [p for p in paths if any(e[0] == "lt" for e in p["events"])]
    bad_short = [p for p in short if not any(e[0] == "ret" and e[1] == "Err" for e in p["events"])]
    if bad_short:
        rep.bad("C09.R2", "short-not-err", where, "a failed length check does not lead to an Err return")
    else:
        rep.ok("C09.R2", "short=>Err", where, "%d short-input paths all return Err(FrameTooShort)" % len(short))
    rep.floor("C09.R1", "successful decoder arms", len(ok_paths), 7)
    # wrappers
    rep.rule("C09.R1b", "TryFrom<Bytes|Vec<u8>|&[u8]> delegate to the CowBytes decoder with the caller's data")
    n = 0
    for wb in crate.bodies:
        if wb.name == "try_from" and "frame::Frame" in wb.j.get("impl_self", {}).get("s", "") and wb is not b:
            wtr = Tracer(facts, wb)
            r = strip(wtr.local(0))
            okw = False
            for x in walk(wtr.local(0)):
                if x.kind == "call" and x[6] == "try_from" and "CowBytes" in x[2]:
                    arg = x[3][0]
                    if any(y.kind == "param" and y[1] == 1 for y in walk(arg)):
                        okw = True
            n += 1
            if okw:
                rep.ok("C09.R1b", wb.path, loc_str(wb.loc), "delegates", nontrivial=False)
            else:
                rep.bad("C09.R1b", wb.path, loc_str(wb.loc), "wrapper does not pass its argument to the CowBytes decoder")
    rep.floor("C09.R1b", "decoder wrappers", n, 3)


def enc_role(tr, t, ev):
    """Role string of the value written by a put/extend call."""
    val = tr.operand(t["args"][1])
    fr = []
    for x in walk(val):
        if x.kind == "field" and x[3] and x[3].startswith("penguin_mux::frame::"):
            fr.append(x[2])
    calls = [x[6] for x in walk(val) if x.kind == "call"]
    if "len" in calls and fr:
        return "len:%s" % fr[0]
    if any(x.kind == "call" and x[6] == "from" and "OpCode" in x[2] for x in walk(val)):
        return "opcode"
    if any(x.kind == "call" and x[6] == "next" for x in walk(val)):
        # element of the vectored iterator
        return "iter:" + (fr[0] if fr else "?")
    return fr[0] if fr else "?"


def check_encoder(facts, rep, crate):
    b = encoder_body(crate)
    rep.rule("C09.R3", "encoder grammar per Payload variant (put_uN/extend order, width, role) = PROTOCOL.md table")
    if b is None:
        rep.bad("C09.R3", "encoder", "", "encoder `From<&Frame> for Vec<u8>` not found (anchor missing)")
        return
    rep.analysed(b)

    def vec_pred(n):
        return n.kind == "call" and n[6] == "with_capacity" or n.kind == "call" and n[6] == "new" and "Vec" in n[1]
    paths, tr = emit_paths(facts, b, vec_pred)
    where = "%s (%s)" % (loc_str(b.loc), b.path)
    # a vectored payload is written front to back: the loop over its slices uses a forward slice / vec iterator
    its = [(bi, t) for bi, t in b.calls() if callee(t) and callee(t)["name"] == "next" and "Iterator" in callee(t).get("trait", callee(t)["path"])]
    for bi, t in its:
        pth = callee(t)["path"]
        fwd = pth.startswith("<core::slice::Iter<") or pth.startswith("<alloc::vec::IntoIter<") or pth.startswith("<core::slice::iter::Iter<")
        if fwd and not any(k in pth for k in ("Rev<", "Skip<", "StepBy<", "Take<", "Filter<")):
            rep.ok("C09.R3", "vectored-forward-order", "%s (%s)" % (loc_str(t["loc"]), b.path), "slices appended in order (%s)" % pth.split(" as ")[0][1:40])
        else:
            rep.bad("C09.R3", "vectored-forward-order", "%s (%s)" % (loc_str(t["loc"]), b.path),
                    "the slices of a vectored Push are not appended by a plain forward iteration (%s): the bytes of one write reach the peer "
                    "reordered / incomplete" % pth[:80])
    by_var = {}
    for p in paths:
        var = None
        sub = None
        for e in p["events"]:
            if e[0] == "variant" and e[1] == PAYLOAD_ADT:
                var = e[2]
            if e[0] == "variant" and e[1] == PUSH_ADT:
                sub = e[2]
        for v in (var or "?").split("|"):
            by_var.setdefault((v, sub), []).append(p)
    n_ok = 0
    for op in OPS:
        keys = [k for k in by_var if k[0] == op]
        if not keys:
            rep.bad("C09.R3", "variant/%s" % op, where, "encoder has no path for Payload::%s" % op)
            continue
        for k in keys:
            for p in by_var[k]:
                lay = []
                for e in p["events"]:
                    if e[0] == "put":
                        t = b.term(e[3])
                        role_ = enc_role(tr, t, e)
                        lay.append(("int", e[1], role_, e[2]))
                        if role_ != "opcode" and not role_.startswith("len:"):
                            steps = inexact_steps(tr.operand(t["args"][1]),
                                                  lambda y: y.kind == "field" and y[3] and str(y[3]).startswith("penguin_mux::frame::"), e[1] * 8)
                            if steps:
                                rep.bad("C09.R3", "variant/%s/value/%s" % (op, role_), "%s (%s)" % (loc_str(t["loc"]), b.path),
                                        "the %s field of a %s frame is not written as it is but computed (%s): for some values the bytes on the "
                                        "wire are not the field's value" % (role_, op, steps[0]))
                    elif e[0] == "extend":
                        t = b.term(e[1])
                        lay.append(("bytes", None, enc_role(tr, t, e), None))
                want = [("int", w, r, "be") for _, w, r in HEADER]
                for kind, w, r in TABLE[op]:
                    if kind == "int":
                        want.append(("int", w, r, "be"))
                    else:
                        want.append(("bytes", None, r, None))
                if op == "Push" and k[1] == "Vectored":
                    want = want[:-1] + [("bytes", None, "iter:0", None)]
                name = "variant/%s%s" % (op, "/" + k[1] if k[1] else "")
                # an empty vectored payload emits nothing after the header: accept both loop paths
                if lay == want or (op == "Push" and k[1] == "Vectored" and lay == want[:-1]):
                    rep.ok("C09.R3", name, where, "emits %s" % (lay,))
                    n_ok += 1
                else:
                    rep.bad("C09.R3", name, where, "encoder layout for %s differs from PROTOCOL.md:\n got  %s\n want %s" % (op, lay, want))
    rep.floor("C09.R3", "encoder variant paths", n_ok, 8)
    # delegating From impls
    rep.rule("C09.R3b", "From<Frame> for Vec/Bytes/Message delegate to the &Frame encoder")
    n = 0
    for wb in crate.bodies:
        it = wb.j.get("impl_trait", "")
        if wb.name == "from" and "From<" in it and "frame::Frame" in it and wb is not b:
            wtr = Tracer(facts, wb)
            okw = any(x.kind == "call" and x[6] == "from" and any(
                y.kind == "param" and y[1] == 1 for a in x[3] for y in walk(a)) for x in walk(wtr.local(0)))
            n += 1
            if okw:
                rep.ok("C09.R3b", wb.path, loc_str(wb.loc), "delegates", nontrivial=False)
            else:
                rep.bad("C09.R3b", wb.path, loc_str(wb.loc), "conversion does not delegate to the frame encoder")
    rep.floor("C09.R3b", "encoder wrappers", n, 4)


def check_len(facts, rep, crate):
    rep.rule("C09.R4", "Payload::len per variant = sum of the widths the encoder writes")
    cands = [b for b in crate.bodies if b.name == "len" and b.j.get("impl_self", {}).get("s", "").startswith("frame::Payload<")]
    if not cands:
        rep.bad("C09.R4", "len", "", "Payload::len not found")
        return
    b = cands[0]
    rep.analysed(b)
    tr = Tracer(facts, b)
    g = guard_at(facts, b, tr, 0) if b.term(0)["k"] == "SwitchInt" else None
    # find the discriminant switch block
    sw = None
    for bb in range(len(b.blocks)):
        if b.term(bb)["k"] == "SwitchInt":
            gg = guard_at(facts, b, tr, bb)
            if gg and gg.kind == "discr" and gg.adt == PAYLOAD_ADT:
                sw = gg
                break
    where = "%s (%s)" % (loc_str(b.loc), b.path)
    if sw is None:
        rep.bad("C09.R4", "len/switch", where, "no switch on the Payload variant")
        return
    ret_blocks = [bb for bb in range(len(b.blocks)) if b.term(bb)["k"] == "Return"]
    n = 0
    seen = set()
    for succ, var in sw.edges:
        if var is None:
            continue
        for v in var.split("|"):
            if v in seen:
                continue
            seen.add(v)
            # last assignment to _0 reachable from succ before return
            region = b.reachable_from(succ)
            vals_ = []
            for bb in sorted(region):
                for s in b.blocks[bb]["stmts"]:
                    if s["k"] == "Assign" and s["lhs"]["l"] == 0 and not s["lhs"].get("p"):
                        vals_.append(tr.rvalue(s["rv"]))
                t = b.term(bb)
                if t["k"] == "Call" and t["dest"]["l"] == 0 and not t["dest"].get("p"):
                    vals_.append(tr.call_node(bb, t))
            val = vals_[0] if len(vals_) == 1 else None
            if val is None and vals_ and len(set(json.dumps(len_form(x), sort_keys=True) for x in vals_)) == 1:
                val = vals_[0]      # several sub-arms (e.g. Push(Single) / Push(Vectored)) computing the same form
            if val is None:
                rep.bad("C09.R4", "len/%s" % v, where, "no value computed for variant %s" % v)
                continue
            form = len_form(val)
            want = {"c": sum(w for k, w, r in TABLE[v] if k == "int")}
            for k, w, r in TABLE[v]:
                if k != "int":
                    want["len(%s)" % r] = 1
            want = {k: c for k, c in want.items() if c or k == "c"}
            n += 1
            if form == want:
                rep.ok("C09.R4", "len/%s" % v, where, "len = %s" % form)
            else:
                rep.bad("C09.R4", "len/%s" % v, where, "Payload::len for %s is %s, the encoder writes %s" % (v, form, want))
    rep.floor("C09.R4", "len arms", n, 7)


def len_form(node):
    n = strip_casts(node)
    v = const_eval(n)
    if v is not None:
        return {"c": v}
    if n.kind == "bin" and n[1].startswith("Add"):
        a, b = len_form(n[2]), len_form(n[3])
        if a is None or b is None:
            return None
        out = dict(a)
        for k, c in b.items():
            out[k] = out.get(k, 0) + c
        return out
    if n.kind == "call" and n[6] == "len":
        fr = [x[2] for x in walk(n) if x.kind == "field"]
        # downcast-only (Push -> PushPayload::len): role "0"
        role = fr[0] if fr else "?"
        return {"c": 0, "len(%s)" % role: 1}
    if n.kind == "call" and n[6] == "sum" and any(x.kind == "fnconst" and x[1].endswith("::len") for x in walk(n)):
        # total length of a chunk list: `vec.iter().map(CowBytes::len).sum()`
        fr = [x[2] for x in walk(n) if x.kind == "field"]
        role = fr[0] if fr else "?"
        return {"c": 0, "len(%s)" % role: 1}
    return None


def u8_partition(facts, b):
    """Finite-domain abstract evaluation: partition 0..255 by outcome of a fn(u8) -> Result<Enum, Err>."""
    tr = Tracer(facts, b)
    guards = {}
    for bb in range(len(b.blocks)):
        if b.term(bb)["k"] == "SwitchInt":
            guards[bb] = guard_at(facts, b, tr, bb)

    def on_edge(bb, succ, auto, store):
        vals, ret = auto
        g = guards.get(bb)
        if g is None:
            return auto
        keep = []
        t = b.term(bb)
        for v in vals:
            r = const_eval(g.pred, {1: v})
            if r is None:
                return STOP if False else auto
            if g.kind == "bool":
                tv = bool(r)
                if any(s2 == succ and val == tv for s2, val in g.edges):
                    keep.append(v)
            else:
                tgt = t["otherwise"]
                for val, bx in t["targets"]:
                    if val == r:
                        tgt = bx
                if tgt == succ:
                    keep.append(v)
        if not keep:
            return STOP
        return (frozenset(keep), ret)

    def on_stmt(bb, i, s, auto):
        vals, ret = auto
        if s["k"] == "Assign" and s["lhs"]["l"] == 0 and not s["lhs"].get("p") and s["rv"]["k"] == "Aggregate":
            agg = s["rv"]["agg"]
            inner = strip(tr.operand(s["rv"]["ops"][0])) if s["rv"]["ops"] else None
            name = inner[2].split("::")[-1] if inner is not None and inner.kind == "agg" else "?"
            return (vals, (agg.get("variant"), name))
        return auto

    ex = Explorer(facts, b, on_stmt=on_stmt, on_edge=on_edge)
    finals = ex.run(0, (frozenset(range(256)), None))
    out = {}
    for st, auto, kind in finals:
        if kind != "Return":
            continue
        vals, ret = auto
        out.setdefault(ret, set()).update(vals)
    return out


def check_tables(facts, rep, crate):
    rep.rule("C09.R5", "OpCode / BindType value tables: discriminants = 7<<4|k; TryFrom<u8> accepts exactly "
                       "version nibbles {7,0} x opcodes 0..6 and maps k to variant k; BindType <-> {1,3}")
    adt = facts.adts.get(OPCODE_ADT)
    if not adt:
        rep.bad("C09.R5", "OpCode", "", "OpCode ADT missing")
        return
    got = {v["name"]: v["discr"] for v in adt["variants"]}
    want = {n: (7 << 4) | k for k, n in enumerate(OPS)}
    if got == want:
        rep.ok("C09.R5", "OpCode/discriminants", "penguin-mux/src/frame.rs", str(got))
    else:
        rep.bad("C09.R5", "OpCode/discriminants", "penguin-mux/src/frame.rs", "OpCode discriminants %s, PROTOCOL.md requires %s" % (got, want))
    vc = [c for c in crate.consts.values() if c["path"].endswith("PROTOCOL_VERSION_NUMBER")]
    if vc and vc[0].get("v") == 7:
        rep.ok("C09.R5", "version", "penguin-mux/src/proto_version.rs", "PROTOCOL_VERSION_NUMBER = 7", nontrivial=False)
    else:
        rep.bad("C09.R5", "version", "penguin-mux/src/proto_version.rs", "PROTOCOL_VERSION_NUMBER is not 7: %s" % vc)
    for ty, table in (("frame::OpCode", None), ("frame::BindType", {1: "Stream", 3: "Datagram"})):
        bs = [b for b in crate.bodies if b.name == "try_from" and b.j.get("impl_self", {}).get("s") == ty
              and b.j.get("impl_trait", "").endswith("TryFrom<u8>")]
        if not bs:
            rep.bad("C09.R5", "%s/try_from" % ty, "", "TryFrom<u8> for %s not found" % ty)
            continue
        b = bs[0]
        rep.analysed(b)
        part = u8_partition(facts, b)
        where = "%s (%s)" % (loc_str(b.loc), b.path)
        expect = {}
        if table is None:
            for k, n in enumerate(OPS):
                expect[("Ok", n)] = {k, 0x70 | k}
        else:
            for k, n in table.items():
                expect[("Ok", n)] = {k}
        oks = {r: vals for r, vals in part.items() if r and r[0] == "Ok"}
        errs = set()
        for r, vals in part.items():
            if not r or r[0] != "Ok":
                errs |= vals
        all_ok = set().union(*expect.values())
        if oks == expect and errs == set(range(256)) - all_ok:
            rep.ok("C09.R5", "%s/accepted-set" % ty, where, "accepted values: %s; all %d others -> Err" % (
                {k[1]: sorted(v) for k, v in oks.items()}, len(errs)))
        else:
            rep.bad("C09.R5", "%s/accepted-set" % ty, where,
                    "value table differs: got %s (errors on %d values), want %s" % (
                        {k: sorted(v) for k, v in oks.items()}, len(errs), {k: sorted(v) for k, v in expect.items()}))
    # BindType discriminants
    badt = facts.adts.get("penguin_mux::frame::BindType")
    if badt and {v["name"]: v["discr"] for v in badt["variants"]} == {"Stream": 1, "Datagram": 3}:
        rep.ok("C09.R5", "BindType/discriminants", "penguin-mux/src/frame.rs", "Stream=1, Datagram=3")
    else:
        rep.bad("C09.R5", "BindType/discriminants", "penguin-mux/src/frame.rs", "BindType discriminants differ from {1,3}")
    # From<&Payload> for OpCode: variant k -> OpCode k
    bs = [b for b in crate.bodies if b.name == "from" and b.j.get("impl_self", {}).get("s") == "frame::OpCode"]
    if bs:
        b = bs[0]
        tr = Tracer(facts, b)
        sw = None
        for bb in range(len(b.blocks)):
            if b.term(bb)["k"] == "SwitchInt":
                gg = guard_at(facts, b, tr, bb)
                if gg and gg.kind == "discr" and gg.adt == PAYLOAD_ADT:
                    sw = gg
        okm = sw is not None
        pairs = {}
        if sw:
            for succ, var in sw.edges:
                if var is None:
                    continue
                for bb in b.reachable_from(succ):
                    for s in b.blocks[bb]["stmts"]:
                        if s["k"] == "Assign" and s["lhs"]["l"] == 0 and s["rv"]["k"] == "Aggregate" and b.edge_dominates((sw.bb, succ), bb):
                            pairs[var] = s["rv"]["agg"]["variant"]
        if okm and pairs == {n: n for n in OPS}:
            rep.ok("C09.R5", "OpCode/from-payload", loc_str(b.loc), "Payload::K -> OpCode::K for all 7")
        else:
            rep.bad("C09.R5", "OpCode/from-payload", loc_str(b.loc), "Payload->OpCode mapping is %s" % pairs)
    else:
        rep.bad("C09.R5", "OpCode/from-payload", "", "From<&Payload> for OpCode not found")


def check_constructors(facts, rep, crate):
    """Every public Frame::new_* constructor puts each of its parameters into the frame as it is."""
    rid = "C09.R8"
    rep.rule(rid, "frame constructors are exact: each field of the frame built by Frame::new_* is the corresponding parameter itself (through moves "
                  "and wrapper constructors only) - a constructor that masks, clamps or offsets an id / count / port / window builds a frame "
                  "that does not say what its caller said")
    n = 0
    for b in crate.bodies:
        if b.kind != "AssocFn" or not b.name.startswith("new_") or "frame::Frame" not in str((b.j.get("impl_self") or {}).get("s", "")):
            continue
        if "::tests::" in b.path:
            continue
        n += 1
        rep.analysed(b)
        tr = Tracer(facts, b)
        where = "%s (%s)" % (loc_str(b.loc), b.path)
        bad = []

        def leafs(node, fname, depth=0):
            x = strip(node)
            while x.kind in ("ref", "deref") and depth < 8:
                x = strip(x[1])
                depth += 1
            if x.kind == "agg" and x[1] in ("adt", "tuple", "array"):
                for f, v in x[3]:
                    leafs(v, "%s.%s" % (fname, f) if fname else f, depth + 1)
                return
            if x.kind == "phi":
                for a in x[1]:
                    leafs(a, fname, depth + 1)
                return
            steps = inexact_steps(x, lambda y: y.kind == "param", None, extra_calls=("len", "iter", "collect", "map", "sum", "as_ptr"))
            if steps:
                bad.append((fname, steps[0]))
        leafs(tr.local(0), "")
        if bad:
            rep.bad(rid, "constructor/%s" % b.name, where,
                    "Frame::%s does not store its argument as it is: field `%s` is `%s`" % (b.name, bad[0][0], bad[0][1]))
        else:
            rep.ok(rid, "constructor/%s" % b.name, where, "every field is a parameter (moves / wrappers only)")
    rep.floor(rid, "frame constructors", n, 8)


def check_append(facts, rep, crate):
    rep.rule("C09.R7", "append_push_data checks the low nibble for Push and only appends the data at the end")
    bs = [b for b in crate.bodies if b.name == "append_push_data" and b.kind == "Fn"]
    if not bs:
        rep.bad("C09.R7", "append_push_data", "", "function not found")
        return
    b = bs[0]
    rep.analysed(b)
    tr = Tracer(facts, b)
    where = "%s (%s)" % (loc_str(b.loc), b.path)
    muts = []
    for bi, t in b.calls():
        c = callee(t)
        if not c or not t["args"]:
            continue
        a0 = strip(tr.operand(t["args"][0]))
        if a0.kind == "param" and a0[1] == 1 and t["args"][0]["k"] == "move":
            n0 = tr.operand(t["args"][0])
            if n0.kind == "ref" or True:
                if c["name"] not in ("index", "len", "deref", "as_ref", "first", "get"):
                    muts.append((bi, c["name"], t))
    ext = [m for m in muts if m[1] in ("extend", "extend_from_slice")]
    others = [m for m in muts if m[1] not in ("extend", "extend_from_slice")]
    if len(ext) == 1 and not others:
        arg = strip(tr.operand(ext[0][2]["args"][1]))
        if arg.kind == "param" and arg[1] == 2:
            rep.ok("C09.R7", "append-only", where, "single extend(frame, data)")
        else:
            rep.bad("C09.R7", "append-only", where, "extend appends %s, not the caller's data" % fmt(arg))
    else:
        rep.bad("C09.R7", "append-only", where, "frame buffer mutated by %s" % [m[1] for m in muts])
    # total on every Push encoding: a length test on the way to the append accepts a header-only frame (1 + 4 octets: empty payload)
    if ext:
        import operator as _op
        OPS = {"Gt": _op.gt, "Ge": _op.ge, "Lt": _op.lt, "Le": _op.le, "Eq": _op.eq, "Ne": _op.ne}
        nlen = 0
        for bb in range(len(b.blocks)):
            if b.term(bb)["k"] != "SwitchInt" or ext[0][0] not in b.reachable_from(bb):
                continue
            g = guard_at(facts, b, tr, bb)
            if g is None or g.kind != "bool":
                continue
            p_ = strip(g.pred)
            if p_.kind != "bin" or p_[1] not in OPS:
                continue
            l_, r_ = strip(p_[2]), strip(p_[3])
            islen = lambda x: x.kind == "call" and x[6] == "len" and any(y.kind == "param" and y[1] == 1 for y in walk(x))
            if islen(l_) and const_eval(r_) is not None:
                val = lambda n: OPS[p_[1]](n, const_eval(r_))
            elif islen(r_) and const_eval(l_) is not None:
                val = lambda n: OPS[p_[1]](const_eval(l_), n)
            else:
                continue
            nlen += 1
            rejected = [n for n in (5, 6, 7, 64, 65540) if not any(v == val(n) and (succ == ext[0][0] or ext[0][0] in b.reachable_from(succ)) for succ, v in g.edges)]
            if rejected:
                rep.bad("C09.R7", "total-on-push-encodings", "%s (%s)" % (loc_str(b.term(bb)["loc"]), b.path),
                        "a length test `%s` keeps valid Push encodings of %s octets away from the append (a Push with an empty payload is "
                        "exactly 5 octets): appending to them panics instead of producing the encoding of push(id, a ++ b)" % (fmt(p_)[:80], rejected))
        if nlen == 0:
            rep.ok("C09.R7", "total-on-push-encodings", where, "no length test on the way to the append", nontrivial=False)
    # opcode check dominates the extend
    okc = False
    for bi, t in b.calls():
        c = callee(t)
        if c and c["name"] == "eq" and "OpCode" in c["path"]:
            okc = True
    if okc and ext:
        # the extend must be dominated by the eq-true edge
        dom = False
        for bb in range(len(b.blocks)):
            if b.term(bb)["k"] == "SwitchInt":
                g = guard_at(facts, b, tr, bb)
                if g and g.kind == "bool" and strip(g.pred).kind == "call" and strip(g.pred)[6] == "eq":
                    for succ, v in g.edges:
                        if v is True and b.edge_dominates((bb, succ), ext[0][0]):
                            args = strip(g.pred)[3]
                            if any(x.kind == "agg" and x[2].endswith("OpCode::Push") for a in args for x in walk(a)):
                                dom = True
        if dom:
            rep.ok("C09.R7", "push-check", where, "append dominated by opcode == Push")
        else:
            rep.bad("C09.R7", "push-check", where, "append not dominated by the opcode == Push check")
    else:
        rep.bad("C09.R7", "push-check", where, "no OpCode comparison before appending")


def cross_check_docs(rep):
    """INFO-only cross check of the transcribed table against PROTOCOL.md / the lua dissector."""
    repo = os.environ.get("PGCHECK_REPO", "/repo")
    try:
        txt = open(os.path.join(repo, "PROTOCOL.md")).read()
        found = re.findall(r"- `0x0(\d)`: `(\w+)` frame", txt)
        if [n for _, n in sorted(found)] != OPS:
            rep.info("PROTOCOL.md opcode list %s differs from the transcribed table %s" % (found, OPS))
        lua = open(os.path.join(repo, "tools", "penguin-v7.lua")).read()
        l2 = re.findall(r"\[(\d)\] = \"(\w+)\"", lua.split("local bind_types")[0])
        if [n for _, n in sorted(l2)] != OPS:
            rep.info("tools/penguin-v7.lua opcode list differs from the transcribed table")
    except OSError as e:
        rep.info("cross-check skipped: %s" % e)


def check(facts, rep, tier, cfg):
    crate = facts.crate("penguin_mux")
    if crate is None:
        rep.bad("C09.R1", "crate", "", "penguin_mux facts missing")
        return
    check_decoder(facts, rep, crate)
    check_encoder(facts, rep, crate)
    check_len(facts, rep, crate)
    check_tables(facts, rep, crate)
    check_append(facts, rep, crate)
    check_constructors(facts, rep, crate)
    # the decoder splits the buffer with CowBytes::split_to at positions up to and including its end (empty host / empty payload)
    import rules_c20
    cb = facts.crate("cow_bytes")
    if cb is not None:
        sub20 = type(rep)(rep.prop, rep.tier, rep.config)
        rules_c20.check_r11_end_position_is_in_range(facts, sub20, cb)
        rep.rule("C09.R9", "the buffer operations the decoder relies on accept a position equal to the length (= C20.R11): a frame whose "
                           "variable part ends exactly at the end of the message (empty payload) decodes instead of panicking")
        for i in sub20.instances:
            rep.ok("C09.R9", i["key"], i["where"], i["detail"], nontrivial=False)
        for v in sub20.violations:
            rep.bad("C09.R9", v["key"].split("/", 1)[1], v["where"], v["msg"])
    cross_check_docs(rep)
    rep.rule("C09.S7", "no new process-wide mutable state (static cell / lock / once-cell) in the files this property is anchored in")
    import whomay
    whomay.check_new_statics(facts, rep, "C09.S7", "C09")
    whomay.check_new_trait_methods(facts, rep, "C09.S7", "C09")


THOROUGH_CONFIGS = ["mux-nodefault", "mux-std-only", "mux-yawc"]
