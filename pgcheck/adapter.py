"""S8 - the in-tree WebSocket adapters are faithful.

The connection task reacts to what `WebSocket::poll_next_unpin` hands it: Binary -> frame dispatch, Ping -> Pong, Pong -> last-pong
refresh, Close -> wind-down. An adapter that filters, batches or re-labels messages silently removes one of those reactions
(a peer's Close never starts the teardown, Pongs never refresh the timestamp, data messages disappear).

(a) every `poll_next_unpin` of an `impl WebSocket` makes one receive call on the underlying stream per invocation: no loop, and no
    branch on the kind of the received message (conversion only);
(b) the conversion table `From<lib message> for ws::Message` maps Binary / Ping / Pong / Close to the variant of the same name."""
from an import Tracer, guard_at, strip, walk, fmt, callee, nested_bodies
from mir import loc_str

SAME = ("Binary", "Ping", "Pong", "Close")


def check_adapter(facts, rep, rid):
    rep.rule(rid, "S8: the WebSocket adapters are faithful - poll_next_unpin hands over every message of the underlying stream (no loop, no filter "
                  "on the message kind) and the conversion into ws::Message keeps Binary / Ping / Pong / Close what they are")
    crate = facts.crate("penguin_mux")
    if crate is None:
        return
    n_next = n_tab = 0
    for b in crate.bodies:
        if b.kind != "AssocFn" or "::tests::" in b.path:
            continue
        it = b.j.get("impl_trait") or ""
        if it.endswith("ws::WebSocket") and b.name == "poll_next_unpin":
            n_next += 1
            rep.analysed(b)
            where = "%s (%s)" % (loc_str(b.loc), b.path)
            key = "adapter-next/%s" % ((b.j.get("impl_self") or {}).get("s", "?").split("<")[0])
            problems = []
            for nb in nested_bodies(facts, b):
                pred = nb.pred
                if any(nb.dominates(h, p_) for h in range(len(nb.blocks)) for p_ in pred[h] if h in nb.reachable_from(0)):
                    problems.append("contains a loop (messages can be consumed without being handed over)")
                tr = Tracer(facts, nb)
                for gb in range(len(nb.blocks)):
                    if nb.term(gb)["k"] != "SwitchInt":
                        continue
                    g = guard_at(facts, nb, tr, gb)
                    if g is not None and g.kind == "discr" and (g.adt or "").split("::")[-1] in ("Message", "Frame", "OpCode") and \
                            not (g.adt or "").startswith("penguin_mux::"):
                        problems.append("branches on the kind of the received message (%s)" % g.adt)
            if problems:
                rep.bad(rid, key, where, "poll_next_unpin %s: the connection task no longer sees every Close / Ping / Pong / Binary message of the "
                                         "peer (e.g. a peer's Close never starts the teardown and every pending call hangs)" % problems[0])
            else:
                rep.ok(rid, key, where, "one receive per call, conversion only")
        if it.endswith("ws::WebSocket") and b.name in ("start_send_unpin", "poll_ready_unpin", "poll_flush_unpin", "poll_close_unpin"):
            rep.analysed(b)
            where = "%s (%s)" % (loc_str(b.loc), b.path)
            key = "adapter-send/%s/%s" % ((b.j.get("impl_self") or {}).get("s", "?").split("<")[0], b.name)
            problems = []
            for nb in nested_bodies(facts, b):
                tr = Tracer(facts, nb)
                for gb in range(len(nb.blocks)):
                    if nb.term(gb)["k"] != "SwitchInt":
                        continue
                    g = guard_at(facts, nb, tr, gb)
                    if g is not None and g.kind == "discr" and not (g.adt or "").endswith(("poll::Poll", "option::Option")) and \
                            not (g.adt or "").startswith("penguin_mux::"):
                        problems.append("branches on `%s`" % g.adt)
            if problems:
                rep.bad(rid, key, where, "%s %s: the outcome of the underlying sink call is not handed on as it is (an error kind turned into "
                                         "success means a message the library did not queue is reported as sent - a frame silently disappears "
                                         "from the middle of a stream)" % (b.name, problems[0]))
            else:
                rep.ok(rid, key, where, "result of the underlying call, converted", nontrivial=False)
        if b.name == "from" and it.startswith("core::convert::From<") and (b.j.get("impl_self") or {}).get("s") == "ws::Message" and "Message" in it \
                and "bytes::Bytes" not in it:
            tr = Tracer(facts, b)
            table = {}
            for gb in range(len(b.blocks)):
                if b.term(gb)["k"] != "SwitchInt":
                    continue
                g = guard_at(facts, b, tr, gb)
                if g is None or g.kind != "discr" or not strip(g.pred).kind == "param":
                    continue
                for succ, v in g.edges:
                    if not isinstance(v, str):
                        continue
                    outs = set()
                    for x in b.reachable_from(succ, cut={gb}):
                        for st in b.blocks[x]["stmts"]:
                            if st["k"] == "Assign" and st["lhs"]["l"] == 0 and not st["lhs"].get("p") and st["rv"]["k"] == "Aggregate" and \
                                    str(st["rv"]["agg"].get("adt", "")).endswith("ws::Message") and b.edge_dominates((gb, succ), x):
                                outs.add(st["rv"]["agg"].get("variant"))
                    table[v] = outs
            if not table:
                continue
            n_tab += 1
            rep.analysed(b)
            where = "%s (%s)" % (loc_str(b.loc), b.path)
            for var in SAME:
                if var not in table:
                    continue
                if table[var] == {var}:
                    rep.ok(rid, "adapter-table/%s" % var, where, "%s -> Message::%s" % (var, var), nontrivial=False)
                else:
                    rep.bad(rid, "adapter-table/%s" % var, where,
                            "a received %s message is handed to the connection task as %s: the reaction the protocol prescribes for it (%s) no "
                            "longer happens" % (var, sorted(table[var]) or "nothing", {"Binary": "frame dispatch", "Ping": "answer with Pong",
                                                                                        "Pong": "refresh of the last-pong timestamp",
                                                                                        "Close": "wind-down"}[var]))
    feats = crate.features
    if "tungstenite" in feats or "yawc" in feats:
        rep.floor(rid, "WebSocket adapters (poll_next_unpin)", n_next, 1)
    if "tungstenite" in feats:
        rep.floor(rid, "message conversion tables", n_tab, 1)
