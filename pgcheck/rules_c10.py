"""C10 A misbehaving peer cannot crash, wedge or cross-contaminate: frame-reaction table + isolation."""
from an import (Tracer, guard_at, strip, walk, fmt, callee, Inter)
from mir import loc_str
from effects import EffectEngine
from muxcommon import *
import rules_c03

EXPLANATION = (
    "The connection task's reaction to every (opcode x flow-slot state) is extracted from the MIR of the frame "
    "dispatcher by product-graph exploration with in-crate inlining (async bodies, closures, helper functions) "
    "under constant-argument contexts: each path yields (facts, effects) where facts are the branch outcomes on "
    "the opcode, the flow-table lookups, the slot variant, the try_send result, and effects are protocol "
    "effects recognised by resolved callee and type (queue-send of a frame kind, flow-table mutation, credit "
    "grant, closed flag, waker wake, inbound-sender take, oneshot resolution, inbound/datagram dispatch, "
    "accept/bind queue). (R1) the extracted table must equal the table prescribed by PROTOCOL.md and the "
    "property, cell by cell, and every extracted outcome must fall into a known cell (exhaustiveness both ways); "
    "(R2) isolation: every flow-table key and every emitted frame id in the dispatcher derives from the "
    "offending frame's id, and the dispatcher never clears/drains/iterates the table; (R3) a decode error leaves "
    "through `?` only; (R4) the dispatcher's unreachable!(Vectored) is justified by the decoder constructing only "
    "PushPayload::Single.")
EXPLANATION_ADDED = '(R5) S5/S6: no lock re-entrancy over guard live regions and the in-crate call graph, no blocking guard live across an await; (R6) the per-stream inbound queue is sized from the local rwnd.'
EXPLANATION_ADDED2 = ' (R7) ack-failure-stops-handoff.'
EXPLANATION = EXPLANATION + " Added while testing against seeded changes: " + EXPLANATION_ADDED + EXPLANATION_ADDED2
EXPLANATION = EXPLANATION + ' Rounds 14-15: (R8) no successful return of the message dispatcher is reachable from the failure edge of the frame decoder.'
ASSUMPTIONS = ["combinator calls (Option::and_then/map) invoke in-crate closures at most once (treated as may-effects)",
               "error-propagation paths (`?`) produce prefixes of the full reaction; the maximal effect set per cell is compared"]
NOT_DECIDED = "general panic-freedom of the dispatcher; behaviour over sequences of frames beyond the per-frame, per-state table"
THOROUGH_CONFIGS = ["mux-nodefault", "mux-std-only", "mux-nohash"]

READS = {"map:get", "map:get_mut", "map:contains_key"}

# (cell name, required facts, forbidden facts, expected effects)
TABLE = [
    ("Connect/absent", {"op:Connect", "slot:absent", "flow_id:nonzero"}, set(), {"mk-stream", "map:insert", "send:Acknowledge", "accept-queue"}),
    # (the id-0 test may come before or after the table lookup: the cell is "id is zero", whatever the lookup said)
    ("Connect/id-zero", {"op:Connect", "flow_id:zero"}, set(), {"send:Reset"}),
    ("Connect/in-use", {"op:Connect", "slot:present"}, set(), {"send:Reset"}),
    ("Acknowledge/Established", {"op:Acknowledge", "slot:Established"}, set(), {"credit+=", "wake"}),
    ("Acknowledge/Requested", {"op:Acknowledge", "slot:Requested"}, set(), {"mk-stream", "establish", "oneshot:Some"}),
    ("Acknowledge/BindRequested", {"op:Acknowledge", "slot:BindRequested"}, set(), {"send:Reset"}),
    ("Acknowledge/absent", {"op:Acknowledge", "slot:absent"}, set(), {"send:Reset"}),
    ("Finish/absent", {"op:Finish", "slot:absent"}, {"slot:present"}, {"send:Reset"}),
    ("Finish/BindRequested", {"op:Finish", "slot:BindRequested"}, set(), {"map:remove", "oneshot:true"}),
    ("Finish/Requested", {"op:Finish", "slot:Requested"}, set(), {"map:remove", "send:Reset"}),
    ("Finish/Established", {"op:Finish", "slot:Established"}, set(), {"take-sender"}),
    ("Reset/absent", {"op:Reset", "slot:absent"}, set(), {"map:remove"}),
    ("Reset/Requested", {"op:Reset", "slot:Requested"}, set(), {"map:remove", "oneshot:None"}),
    ("Reset/BindRequested", {"op:Reset", "slot:BindRequested"}, set(), {"map:remove", "oneshot:false"}),
    ("Reset/Established", {"op:Reset", "slot:Established"}, set(), {"map:remove", "flag:set", "wake", "take-sender"}),
    ("Push/no-taker", {"op:Push", "slot:absent"}, {"trysend:Full"}, {"send:Reset"}),
    ("Push/delivered-or-closed", {"op:Push", "slot:present"}, {"trysend:Full"}, set()),
    ("Push/overrun", {"op:Push", "trysend:Full", "slot:Established"}, set(), {"map:remove", "flag:set", "wake", "take-sender", "send:Reset"}),
    ("Push/overrun-race-gone", {"op:Push", "trysend:Full", "slot:absent"}, set(), {"map:remove"}),
    ("Push/overrun-race-requested", {"op:Push", "trysend:Full", "slot:Requested"}, set(), {"map:remove", "oneshot:None"}),
    ("Push/overrun-race-bind", {"op:Push", "trysend:Full", "slot:BindRequested"}, set(), {"map:remove", "oneshot:false"}),
    ("Bind/disabled", {"op:Bind", "bind:disabled"}, set(), {"send:Reset"}),
    ("Bind/enabled", {"op:Bind", "bind:enabled", "ignore_bind:false"}, set(), {"bind-queue"}),
    ("Bind/winding-down", {"op:Bind", "bind:enabled", "ignore_bind:true"}, set(), set()),
    ("Datagram/delivered", {"op:Datagram", "trysend:Ok"}, set(), {"dgram-dispatch"}),
    ("Datagram/full", {"op:Datagram", "trysend:Full"}, set(), {"dgram-dispatch"}),
    ("Datagram/receiver-gone", {"op:Datagram", "trysend:Closed"}, set(), {"dgram-dispatch", "ret:Err(Closed)"}),
]
REQUIRED_OPS = ["Connect", "Acknowledge", "Reset", "Finish", "Push", "Bind", "Datagram"]


def dispatcher(crate):
    """The body that switches on the Payload variant of a received frame and reaches flow-table effects."""
    cands = []
    for b in crate.bodies:
        if not b.j.get("coroutine") and b.kind != "Closure":
            continue
        n = 0
        for blk in b.blocks:
            for s in blk["stmts"]:
                if s["k"] == "Assign" and s["rv"]["k"] == "Discriminant":
                    ty = s["rv"]["place"].get("ty") or b.locals[s["rv"]["place"]["l"]]
                    if ty.get("adt") == "penguin_mux::frame::Payload":
                        n += 1
        if n:
            cands.append(b)
    # prefer the one in the task module with most blocks
    cands = [b for b in cands if "task::" in b.path]
    cands.sort(key=lambda b: -len(b.blocks))
    return cands[0] if cands else None


def normalise(ef):
    return frozenset(e for e in ef if e not in READS and not e.startswith("may:") and e != "panic" and e != "diverges")


def split_facts(fa):
    """expand 'slot:A|B' disjunction facts away (they come from `otherwise` edges)"""
    return set(f for f in fa if "|" not in f)


def check(facts, rep, tier, cfg):
    crate = facts.crate("penguin_mux")
    if crate is None:
        rep.bad("C10.R1", "crate", "", "penguin_mux facts missing")
        return
    rep.rule("C10.R1", "frame-reaction table extracted from the dispatcher = table prescribed by PROTOCOL.md / the property")
    d = dispatcher(crate)
    if d is None:
        rep.bad("C10.R1", "dispatcher", "", "frame dispatcher not found (anchor missing)")
        return
    rep.analysed(d)
    eng = EffectEngine(facts)
    outs = eng.outcomes(d)
    rep.paths += eng.states
    if eng.exhausted:
        rep.bad("C10.R1", "budget", d.path, "state budget exceeded (fail closed)")
    where = "%s (%s)" % (loc_str(d.loc), d.path)
    live = [(split_facts(fa), ef) for fa, ef in outs if "diverges" not in ef]
    div = [(fa, ef) for fa, ef in outs if "diverges" in ef]
    matched = set()
    for name, req, forb, exp in TABLE:
        ms = [(i, fa, normalise(ef), ef) for i, (fa, ef) in enumerate(live) if req <= fa and not (forb & fa)]
        if not ms:
            rep.bad("C10.R1", "cell/%s" % name, where, "no path of the dispatcher realises the cell %s (required facts %s): reaction missing" % (name, sorted(req)))
            continue
        for i, _, _, _ in ms:
            matched.add(i)
        effs = [m[2] for m in ms]
        mx = max(effs, key=len)
        extra = [e for e in effs if not e <= frozenset(exp)]
        if mx == frozenset(exp) and not extra:
            if name == "Push/delivered-or-closed" and not any(("may:dispatch" in m[3] or "dispatch" in m[3]) for m in ms):
                rep.bad("C10.R1", "cell/%s" % name, where, "Push on an established flow never dispatches the payload to the stream's queue")
            else:
                rep.ok("C10.R1", "cell/%s" % name, where, "effects %s" % sorted(exp))
        else:
            got = sorted(set().union(*effs))
            rep.bad("C10.R1", "cell/%s" % name, where,
                    "reaction differs from the protocol table in cell %s:\n  extracted (maximal) %s%s\n  prescribed          %s" % (
                        name, sorted(mx), "; also %s" % [sorted(e) for e in extra] if extra else "", sorted(exp)))
    for i, (fa, ef) in enumerate(live):
        if i not in matched:
            rep.bad("C10.R1", "unmatched/%s" % "+".join(sorted(fa)), where,
                    "the dispatcher has a reaction outside the protocol table: facts %s -> effects %s" % (sorted(fa), sorted(normalise(ef))))
    ops_seen = set(f.split(":")[1] for fa, _ in live for f in fa if f.startswith("op:"))
    for op in REQUIRED_OPS:
        if op not in ops_seen:
            rep.bad("C10.R1", "arm/%s" % op, where, "no dispatcher arm for opcode %s" % op)
    for fa, ef in div:
        rep.info("dispatcher path ends in a panic (not armed as a violation): facts %s" % sorted(fa))
    rep.floor("C10.R1", "dispatcher outcomes", len(live), 27)

    # ---- R2 isolation
    rep.rule("C10.R2", "every flow-table key / emitted frame id in the dispatcher derives from the offending frame's id; no clear/drain/iteration")
    scope = set(k[0] for k in eng.memo)
    inter = Inter(facts, scope=scope, root=d.dp)
    n = 0

    def is_frame_id(node):
        x = strip(node)
        if x.kind == "phi":
            return all(is_frame_id(y) for y in x[1])
        return x.kind == "field" and x[2] == "id" and x[3] == "penguin_mux::frame::Frame"
    for dp, bb, e in sorted(eng.sites):
        b = facts.by_dp[dp]
        t = b.term(bb)
        c = callee(t)
        where2 = "%s (%s)" % (loc_str(t["loc"]), b.path)
        if e.startswith("map:"):
            op = e.split(":")[1]
            if op in ("drain", "clear", "retain", "values", "values_mut", "iter", "iter_mut"):
                rep.bad("C10.R2", "whole-table/%s/%s" % (op, b.path), where2, "the dispatcher touches flows other than the one addressed by the frame (`%s` on the flow table)" % op)
                continue
            if len(t["args"]) < 2:
                continue
            n += 1
            k = inter.expand(b, inter.tracer(b).operand(t["args"][1]))
            ff = rules_c03._flat_fields(k)
            if is_frame_id(k):
                rep.ok("C10.R2", "key/%s/%s" % (op, b.path), where2, "key <- frame.id")
            else:
                rep.bad("C10.R2", "key/%s/%s" % (op, b.path), where2, "flow-table %s uses key `%s` (sources %s), not the id of the frame being processed" % (op, fmt(strip(k))[:120], sorted(ff)))
        elif e.startswith("send:") and e != "send:?":
            msg = inter.tracer(b).operand(t["args"][1])
            for cn in ctor_calls(msg, FRAME_CTORS):
                pos = 2 if cn[6] == "new_connect" else 0
                n += 1
                k = inter.expand(b, cn[3][pos])
                ff = rules_c03._flat_fields(k)
                if is_frame_id(k):
                    rep.ok("C10.R2", "frame-id/%s/%s" % (cn[6], b.path), where2, "id <- frame.id")
                else:
                    rep.bad("C10.R2", "frame-id/%s/%s" % (cn[6], b.path), where2, "reply frame %s carries id from %s, not the offending frame's id" % (cn[6], sorted(ff)))
    rep.floor("C10.R2", "keyed effects in the dispatcher", n, 12)

    # ---- R4 parser/dispatcher agreement
    rep.rule("C10.R4", "the decoder constructs only PushPayload::Single (justifies the dispatcher's unreachable!)")
    import rules_c09
    dec = rules_c09.decoder_body(crate)
    if dec is None:
        rep.bad("C10.R4", "decoder", "", "decoder not found")
    else:
        vs = set()
        for blk in dec.blocks:
            for s in blk["stmts"]:
                if s["k"] == "Assign" and s["rv"]["k"] == "Aggregate" and s["rv"]["agg"].get("adt") == "penguin_mux::frame::PushPayload":
                    vs.add(s["rv"]["agg"]["variant"])
        if vs == {"Single"}:
            rep.ok("C10.R4", "decoder-single-only", loc_str(dec.loc), "decoder builds PushPayload::%s only" % sorted(vs))
        else:
            rep.bad("C10.R4", "decoder-single-only", loc_str(dec.loc), "decoder builds PushPayload variants %s; the dispatcher panics on Vectored" % sorted(vs))
    # ---- R3 decode error leaves through `?`
    rep.rule("C10.R3", "an invalid message ends the connection with an error: decode Err propagates by `?` to the task's return")
    found = False
    for b in crate.bodies:
        tr = None
        for bi, t in b.calls():
            c = callee(t)
            if c and c["name"] in ("try_into", "try_from") and "frame::Frame" in c["path"] and "task::" in b.path:
                tr = tr or Tracer(facts, b)
                found = True
                # result must feed Try::branch
                uses = [x for bj, t2 in b.calls() if callee(t2) and callee(t2)["name"] == "branch"
                        for x in walk(tr.operand(t2["args"][0])) if x.kind == "call" and x[4] == bi]
                where3 = "%s (%s)" % (loc_str(t["loc"]), b.path)
                if uses:
                    rep.ok("C10.R3", "decode-error-propagates", where3, "decode result goes through `?`")
                else:
                    rep.bad("C10.R3", "decode-error-propagates", where3, "the frame decode result is not propagated with `?` (invalid frames could be ignored or crash)")
    if not found:
        rep.bad("C10.R3", "decode-site", "", "no frame decode call found in the connection task (anchor missing)")
    # ---- R5 the connection task never deadlocks on its own lock
    rep.rule("C10.R5", "S5 no lock re-entrancy: while a guard of a Task/Multiplexor lock is live, no call, closure or nested acquisition "
                       "reachable in that region acquires the same (non-re-entrant) lock again")
    from shared import s5_lock_reentrancy
    viol, nsites = s5_lock_reentrancy(facts, crate)
    seen5 = set()
    for b, abb, fld, desc, x in viol:
        key = "%s/%s" % (b.path, fld)
        if key in seen5:
            continue
        seen5.add(key)
        rep.bad("C10.R5", "reentrant-lock/%s" % key, "%s (%s)" % (loc_str(b.term(x)["loc"]), b.path),
                "`%s` is locked at %s and, while that guard is still live, %s acquires `%s` again: parking_lot locks are not "
                "re-entrant, so the connection task deadlocks on itself and stops serving every stream" % (
                    fld, loc_str(b.term(abb)["loc"]), desc, fld))
    if not viol:
        rep.ok("C10.R5", "no-reentrant-lock", "", "%d guard regions examined" % nsites)
    rep.floor("C10.R5", "lock acquisitions with a tracked guard", nsites, 10)
    from shared import s6_guard_across_await
    held = s6_guard_across_await(facts, crate)
    for b, abb, fld, y in held:
        rep.bad("C10.R5", "guard-across-await/%s/%s" % (b.path, fld), "%s (%s)" % (loc_str(b.term(abb)["loc"]), b.path),
                "the blocking guard of `%s` taken here is still live at the await at %s: every other task (and the stream handles) "
                "that needs `%s` blocks its thread until this future is resumed" % (fld, loc_str(b.term(y)["loc"]), fld))
    if not held:
        rep.ok("C10.R5", "no-guard-across-await", "", "no blocking guard is live at a suspension point")
    # ---- R6 the overrun test is made against our own window: the inbound queue is sized from the local rwnd, never from peer input
    rep.rule("C10.R6", "the per-stream inbound queue capacity (what makes `Push beyond the window` detectable, and what mpsc::channel panics on "
                       "when 0) is the local rwnd, not a value carried by a peer frame (= C03.R4 inbound-capacity)")
    import rules_c03 as _c03
    sub = type(rep)(rep.prop, rep.tier, rep.config)
    _c03.check_r3_r4(facts, sub, crate, Inter(facts))
    k6 = 0
    for i in sub.instances:
        if "inbound-capacity" in i["key"]:
            k6 += 1
            rep.ok("C10.R6", i["key"], i["where"], i["detail"], nontrivial=False)
    for v in sub.violations:
        if "inbound-capacity" in v["key"]:
            k6 += 1
            rep.bad("C10.R6", v["key"].split("/", 1)[1], v["where"], v["msg"])
    rep.floor("C10.R6", "inbound queue constructions", k6, 1)
    # ---- R7 after an invalid frame the teardown cannot be held up by a Connect still buffered behind it
    import rules_c07 as _c07
    _c07.check_handoff(facts, rep, crate, "C10.R7")
    # ---- R8 a message that is not a valid frame ends the connection
    rep.rule("C10.R8", "a Binary message that does not decode ends the connection with an error: in the message dispatcher no successful return "
                       "(and no further frame handling) is reachable from the failure edge of the frame decoder, whatever the kind of decode error")
    from an import guard_at as _ga, Tracer as _Tr
    k8 = 0
    for b in crate.bodies:
        if not any("ws::Message" in b.locals[i]["s"] for i in range(len(b.locals))):
            continue
        decs = [bi for bi, t in b.calls() if callee(t) and callee(t)["name"] in ("try_into", "try_from") and "frame::Frame" in callee(t)["path"]]
        if not decs:
            continue
        tr8 = _Tr(facts, b)
        for dbi in decs:
            k8 += 1
            rep.analysed(b)
            w8 = "%s (%s)" % (loc_str(b.term(dbi)["loc"]), b.path)
            leak = None
            for gb in b.reachable_from(dbi):
                if b.term(gb)["k"] != "SwitchInt":
                    continue
                g = _ga(facts, b, tr8, gb)
                if g is None or g.kind != "discr":
                    continue
                if not any(x.kind == "call" and x[6] in ("try_into", "try_from") and "Frame" in x[2] for x in walk(g.pred)):
                    continue
                # only the decode result itself (through `?`), not values derived from the decoded frame
                pz = strip(g.pred)
                if not ((g.adt or "").endswith("result::Result") or (g.adt or "").endswith("ControlFlow")):
                    continue
                for succ, v in g.edges:
                    if v not in ("Err", "Break"):
                        continue
                    for x in b.reachable_from(succ):
                        for st in b.blocks[x]["stmts"]:
                            if st["k"] == "Assign" and st["lhs"]["l"] == 0 and not st["lhs"].get("p") and st["rv"]["k"] == "Aggregate" and \
                                    st["rv"]["agg"].get("variant") == "Ok":
                                leak = x
            if leak is not None:
                rep.bad("C10.R8", "decode-error-ends-connection", w8,
                        "after the frame decoder has failed the dispatcher can still return Ok (%s): for some kinds of invalid frame the "
                        "connection carries on instead of ending with an error that every pending operation observes" % loc_str(b.term(leak)["loc"]))
            else:
                rep.ok("C10.R8", "decode-error-ends-connection", w8, "decode failure -> Err on every path")
    rep.floor("C10.R8", "frame decode sites in the message dispatcher", k8, 1)
    rep.rule("C10.S1", "S1: every message taken off the outbound queue is handed to the WebSocket sink by the send loop (= C02.R2): the frames this property relies on are not dropped, deduplicated or reordered on the way out")
    import_outbound_queue_rule(facts, rep, tier, cfg, "C10.S1")
    rep.rule("C10.S7", "who-may: the functions that touch the critical resources behind this property are those of the reference tree (flow table, closed flag, per-stream / datagram / outbound queues, last-pong timestamp, client id maps, shared TLS identity)")
    import whomay
    whomay.check(facts, rep, "C10.S7", "C10")
    whomay.check_new_statics(facts, rep, "C10.S7", "C10")
    whomay.check_new_trait_methods(facts, rep, "C10.S7", "C10")
