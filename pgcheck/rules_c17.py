"""C17 TLS peers are authenticated exactly as configured (configuration-shape property)."""
from an import (Tracer, Explorer, guard_at, strip, strip_casts, walk, fmt, callee, const_eval, Inter)
from mir import loc_str, is_noise
import rules_c03

EXPLANATION = (
    "(R1) In the rustls client configuration every path that installs the permissive verifier "
    "(dangerous().with_custom_certificate_verifier / EmptyVerifier) lies on the tls_skip_verify == true edge, "
    "every path with false passes with_root_certificates(roots), client-auth follows the presence of a client "
    "certificate, and EmptyVerifier is constructed nowhere else; native-tls sibling: "
    "danger_accept_invalid_certs/hostnames <- tls_skip_verify; (R2) roots <- the root-store loader applied to "
    "ca_path; with a custom CA only certificates read from that path are added (no system / bundled roots on that "
    "path); (R3) server: with_client_cert_verifier iff client_ca_path is Some, verifier built by "
    "WebPkiClientVerifier::builder(store(client_ca_path)).build() with no allow_unauthenticated; "
    "with_no_client_auth iff None; (R4) names and flags: tls_connect passes its arguments to make_client_config "
    "in their roles and its server_name to ServerName::try_from and connect; the handshake takes the name from "
    "host / --hostname / --tls-server-name and the skip flag from args.tls_skip_verify; (R5) hot swap: the reload "
    "function stores the new configuration on its success path and the listener takes a load_full() snapshot per "
    "accepted connection inside the accept loop.")
EXPLANATION_ADDED = 'R3 also requires the client-certificate trust store to be loaded from client_ca_path; (R6) a failed reload keeps the previous configuration.'
EXPLANATION_ADDED2 = ' (R7) a reload stores exactly the freshly built configuration and every reload function publishes it.'
EXPLANATION = EXPLANATION + " Added while testing against seeded changes: " + EXPLANATION_ADDED + EXPLANATION_ADDED2
EXPLANATION = EXPLANATION + " Round 10: (R8) the connector of a client handshake is built in that call from make_client_config(this call's arguments), never taken from process-wide state."
EXPLANATION = EXPLANATION + " Rounds 12-13: (R9) the permissive verifier accepts every certificate (verify_server_cert is Ok on every path) and its TLS 1.2 / 1.3 signature hooks delegate to rustls::crypto::verify_tls1x_signature with the handshake's own arguments; (R10, thorough tier, native-tls) every native server-identity constructor refuses a configured client CA."
EXPLANATION = EXPLANATION + ' Rounds 14-15: R4 also requires that a given --tls-server-name / --hostname is always applied (the handshake is not reachable from the Some edge without the assignment).'
EXPLANATION = EXPLANATION + ' Round 18: R2 also requires the root store that receives a custom CA to start as RootCertStore::empty().'
ASSUMPTIONS = ["rustls / native-tls perform chain and name validation as documented for the configured verifier"]
NOT_DECIDED = "rustls' own certificate validation; behaviour of established connections across a swap"
QUICK_CONFIGS = ["default"]
THOROUGH_CONFIGS = ["penguin-native-tls", "penguin-ring", "penguin-client-only", "penguin-server-only"]


def upvar_named(b, node, name):
    for x in walk(node):
        if x.kind == "field" and x[2].isdigit() and strip(x[1]).kind == "param" and strip(x[1])[1] == 1:
            if b.upvar_names.get(int(x[2])) == name:
                return True
        if x.kind == "param" and x[2] == name:
            return True
    return False


def explore_events(facts, b, lit_fn, ev_names):
    tr = Tracer(facts, b)
    guards = {}
    lits = {}
    for bb in range(len(b.blocks)):
        if b.term(bb)["k"] == "SwitchInt" and not is_noise(b.term(bb)["loc"]):
            g = guard_at(facts, b, tr, bb)
            if g is None:
                continue
            l = lit_fn(b, tr, g)
            if l:
                guards[bb] = g
                lits[bb] = l

    def on_edge(bb, succ, auto, store):
        g = guards.get(bb)
        if g is None:
            return auto
        vals = [v for s2, v in g.edges if s2 == succ]
        v = vals[0]
        if len(vals) > 1:
            v = "|".join(str(x) for x in vals)
        return (auto[0] | frozenset([(lits[bb], v)]), auto[1])

    def on_term(bb, t, auto, store):
        if t["k"] == "Call":
            c = callee(t)
            if c and c["name"] in ev_names and c["name"] not in auto[1]:
                return (auto[0], auto[1] + (c["name"],))
        return auto

    def on_stmt(bb, i, s, auto):
        if s["k"] == "Assign" and s["lhs"]["l"] == 0 and not s["lhs"].get("p") and s["rv"]["k"] == "Aggregate" and \
                s["rv"]["agg"].get("adt", "").endswith("result::Result"):
            return (auto[0], auto[1] + ("ret:" + s["rv"]["agg"]["variant"],))
        return auto
    ex = Explorer(facts, b, on_stmt=on_stmt, on_term=on_term, on_edge=on_edge, budget=200000)
    fin = ex.run(0, (frozenset(), ()))
    outs = [auto for st, auto, kind in fin if kind == "Return" and not b.blocks[st[0]]["cleanup"]]
    return outs, tr, ex


def check(facts, rep, tier, cfg):
    crate = facts.crate("rusty_penguin_lib")
    if crate is None:
        rep.bad("C17.R1", "crate", "", "rusty_penguin_lib facts missing")
        return
    rustls_on = "tls-rustls" in crate.features
    native_on = "tls-native" in crate.features
    rep.rule("C17.R1", "permissive verifier iff tls_skip_verify; roots otherwise; client auth follows the client certificate")
    mcc = [b for b in crate.bodies if b.path.endswith("make_client_config::{closure#0}")]
    if rustls_on and mcc:
        b = mcc[0]
        rep.analysed(b)

        def lit(b_, tr, g):
            if g.kind == "bool" and upvar_named(b_, g.pred, "tls_skip_verify") and strip(g.pred).kind in ("field", "param"):
                return "skip"
            if g.kind == "discr" and g.adt and g.adt.endswith("option::Option") and any(
                    x.kind == "call" and x[6] == "try_load_certificate" for x in walk(g.pred)):
                return "client_cert"
            return None
        ev = {"dangerous", "with_custom_certificate_verifier", "with_root_certificates", "with_client_auth_cert",
              "with_no_client_auth", "with_webpki_verifier", "with_platform_verifier"}
        outs, tr, ex = explore_events(facts, b, lit, ev)
        rep.paths += len(ex.seen)
        where = "%s (%s)" % (loc_str(b.loc), b.path)
        oks = [a for a in outs if "ret:Ok" in a[1]]
        problems = []
        seen = set()
        for L, E in oks:
            d = dict(L)
            skip = d.get("skip")
            cc = d.get("client_cert")
            seen.add((skip, cc))
            custom = "with_custom_certificate_verifier" in E
            roots = "with_root_certificates" in E or "with_webpki_verifier" in E
            if skip is None:
                problems.append("a successful path does not branch on tls_skip_verify (events %s)" % (E,))
            elif skip and (not custom or roots):
                problems.append("tls_skip_verify=true path does not install the permissive verifier (events %s)" % (E,))
            elif (not skip) and (custom or not roots):
                problems.append("tls_skip_verify=false path installs the permissive verifier / does not use the configured roots (events %s)" % (E,))
            if cc == "Some" and "with_client_auth_cert" not in E:
                problems.append("a client certificate is configured but not presented (events %s)" % (E,))
            if cc == "None" and "with_client_auth_cert" in E:
                problems.append("client auth used without a certificate")
        if problems:
            rep.bad("C17.R1", "client-config/verifier-selection", where, "; ".join(sorted(set(problems))))
        elif len(seen) >= 4 or {s for s, _ in seen} == {True, False}:
            rep.ok("C17.R1", "client-config/verifier-selection", where, "%d successful path classes over (skip, client cert): verifier matches the flag" % len(seen))
        else:
            rep.bad("C17.R1", "client-config/verifier-selection", where, "could not see both values of tls_skip_verify on successful paths: %s" % sorted(seen, key=str))
        # roots provenance
        for bi, t in b.calls():
            c = callee(t)
            if c and c["name"] == "with_root_certificates":
                r = tr.operand(t["args"][1])
                src = [x for x in walk(r) if x.kind == "call" and x[6] == "generate_rustls_rootcertstore"]
                w2 = "%s (%s)" % (loc_str(t["loc"]), b.path)
                if src and upvar_named(b, src[0][3][0], "ca_path"):
                    rep.ok("C17.R2", "roots<-loader(ca_path)", w2, "roots come from the root-store loader applied to ca_path")
                else:
                    rep.bad("C17.R2", "roots<-loader(ca_path)", w2, "with_root_certificates is not given the store loaded from ca_path")
        # EmptyVerifier constructed only in this function
        others = []
        for ob in crate.bodies:
            for blk in ob.blocks:
                for s in blk["stmts"]:
                    if s["k"] == "Assign" and s["rv"]["k"] == "Aggregate" and s["rv"]["agg"].get("adt", "").endswith("EmptyVerifier"):
                        if ob is not b:
                            others.append(ob.path)
        if others:
            rep.bad("C17.R1", "empty-verifier-elsewhere", "", "the permissive verifier is also constructed in %s" % sorted(set(others)))
        else:
            rep.ok("C17.R1", "empty-verifier-only-here", where, "EmptyVerifier constructed only under the skip flag", nontrivial=False)
        # ---- R9 what the permissive verifier does: accepts every certificate, and leaves the handshake-signature checks to rustls
        rep.rule("C17.R9", "skip-verify accepts ANY certificate and still completes every handshake: the permissive verifier's verify_server_cert "
                           "returns Ok on every path, and its TLS 1.2 / 1.3 signature hooks delegate to rustls::crypto::verify_tls1x_signature "
                           "with the handshake's own (message, cert, dss) - neither a constant refusal (a protocol version that can no longer "
                           "connect) nor a constant acceptance")
        nhooks = 0
        for hb in crate.bodies:
            if hb.kind != "AssocFn" or not str((hb.j.get("impl_self") or {}).get("adt", "")).endswith("EmptyVerifier"):
                continue
            if hb.name not in ("verify_server_cert", "verify_tls12_signature", "verify_tls13_signature"):
                continue
            nhooks += 1
            rep.analysed(hb)
            htr = Tracer(facts, hb)
            hw = "%s (%s)" % (loc_str(hb.loc), hb.path)
            rv = strip(htr.local(0)) if hasattr(htr, "local") else None
            if rv is None:
                rep.bad("C17.R9", "hook/%s" % hb.name, hw, "cannot evaluate the hook's result")
                continue
            alts = list(rv[1]) if rv.kind == "phi" else [rv]
            alts = [strip(a) for a in alts]
            if hb.name == "verify_server_cert":
                okv = all(a.kind == "agg" and str(a[2]).endswith("::Ok") for a in alts) and \
                    any(x.kind == "call" and x[6] == "assertion" for x in walk(rv))
                if okv:
                    rep.ok("C17.R9", "hook/verify_server_cert", hw, "Ok(ServerCertVerified::assertion()) on every path")
                else:
                    rep.bad("C17.R9", "hook/verify_server_cert", hw, "the permissive verifier can reject a certificate (result `%s`): with skip-verify "
                            "configured every certificate must be accepted" % fmt(rv)[:160])
            else:
                want = "verify_tls12_signature" if "12" in hb.name else "verify_tls13_signature"
                good = True
                for a in alts:
                    if not (a.kind == "call" and a[6] == want and "rustls" in a[1] and len(a[3]) >= 3):
                        good = False
                        continue
                    for k in range(3):
                        src = strip(a[3][k])
                        while src.kind in ("ref", "deref", "cast"):
                            src = strip(src[1])
                        if not (src.kind == "param" and src[1] == k + 2):
                            good = False
                if good:
                    rep.ok("C17.R9", "hook/%s" % hb.name, hw, "delegates to rustls::crypto::%s(message, cert, dss, ..)" % want)
                else:
                    rep.bad("C17.R9", "hook/%s" % hb.name, hw,
                            "the permissive verifier's %s hook does not hand the handshake's (message, cert, dss) to rustls::crypto::%s but "
                            "returns `%s`: a peer negotiating that protocol version can no longer be reached with skip-verify (or its handshake "
                            "signature is not checked at all)" % (hb.name, want, fmt(rv)[:160]))
        rep.floor("C17.R9", "hooks of the permissive verifier", nhooks, 3)
    elif rustls_on:
        rep.bad("C17.R1", "client-config", "", "make_client_config not found (anchor missing)")
    if native_on:
        for b in crate.bodies:
            if b.path.endswith("native::make_client_config::{closure#0}"):
                tr = Tracer(facts, b)
                rep.analysed(b)
                n = 0
                for bi, t in b.calls():
                    c = callee(t)
                    if c and c["name"] in ("danger_accept_invalid_certs", "danger_accept_invalid_hostnames"):
                        n += 1
                        w = "%s (%s)" % (loc_str(t["loc"]), b.path)
                        if upvar_named(b, tr.operand(t["args"][1]), "tls_skip_verify"):
                            rep.ok("C17.R1", "native/%s" % c["name"], w, "<- tls_skip_verify")
                        else:
                            rep.bad("C17.R1", "native/%s" % c["name"], w, "%s is not driven by tls_skip_verify" % c["name"])
                rep.floor("C17.R1", "native-tls danger switches", n, 2)
    if native_on:
        # ---- R10 the native-tls backend cannot verify client certificates: a configured client CA is refused, never ignored
        rep.rule("C17.R10", "native-tls sibling: every server-identity constructor of the native backend that is given a client CA path refuses "
                            "`Some(path)` (UnsupportedFeature) on every path - directly or in the helper it hands the path to; an ignored client CA "
                            "would admit clients without a certificate although the operator required one")
        from an import nested_bodies as _nb
        nat = [b for b in crate.bodies if "tls::native::" in b.path and b.kind == "Fn" and "::tests::" not in b.path]

        def refuses(fn, pname, depth=0):
            """Some(client CA) never reaches a successful return of logical function `fn` (parameter / captured variable `pname`)."""
            for b in _nb(facts, fn):
                tr_ = Tracer(facts, b)
                for gb in range(len(b.blocks)):
                    if b.term(gb)["k"] != "SwitchInt":
                        continue
                    g = guard_at(facts, b, tr_, gb)
                    if g is None or not upvar_named(b, g.pred, pname):
                        continue
                    p_ = strip(g.pred)
                    for succ, v in g.edges:
                        some = (g.kind == "discr" and v == "Some") or \
                               (g.kind == "bool" and p_.kind == "call" and p_[6] in ("is_some", "is_none") and v == (p_[6] == "is_some"))
                        if not some:
                            continue
                        reach = b.reachable_from(succ)
                        oks = [x for x in reach for st in b.blocks[x]["stmts"] if st["k"] == "Assign" and st["lhs"]["l"] == 0 and
                               not st["lhs"].get("p") and st["rv"]["k"] == "Aggregate" and st["rv"]["agg"].get("variant") == "Ok"]
                        more = [x for x in reach if b.term(x)["k"] == "Call" and callee(b.term(x)) and "tls::native::" in callee(b.term(x))["path"]]
                        if not oks and not more:
                            return True
                if depth < 3:
                    rets = [r for r in range(len(b.blocks)) if b.term(r)["k"] == "Return"]
                    for bi, t in b.calls():
                        c = callee(t)
                        if not c or "tls::native::" not in c["path"]:
                            continue
                        cb = [x for x in nat if c["path"].split("::<")[0].endswith(x.path)]
                        if not cb:
                            continue
                        for k, a in enumerate(t["args"]):
                            if upvar_named(b, tr_.operand(a), pname) and k < cb[0].argc:
                                # every successful return of this body passes through the call
                                if refuses(cb[0], cb[0].local_name(k + 1), depth + 1) and \
                                        not any(r in b.reachable_from(0, cut={bi}) and _ok_ret(b, r, bi) for r in rets):
                                    return True
            return False

        def _ok_ret(b, r, cut_bi):
            """A return reachable without the call that can carry Ok."""
            reach = b.reachable_from(0, cut={cut_bi})
            return any(st["k"] == "Assign" and st["lhs"]["l"] == 0 and not st["lhs"].get("p") and st["rv"]["k"] == "Aggregate" and
                       st["rv"]["agg"].get("variant") == "Ok" for x in reach for st in b.blocks[x]["stmts"])
        n10 = 0
        for b in nat:
            names = [b.local_name(i) for i in range(1, b.argc + 1) if "client_ca" in (b.local_name(i) or "").lower()]
            if not names or "make_server" not in b.name and "Acceptor" not in b.locals[0]["s"] and "TlsIdentity" not in b.locals[0]["s"]:
                continue
            for pname in names:
                n10 += 1
                rep.analysed(b)
                w10 = "%s (%s)" % (loc_str(b.loc), b.path)
                if refuses(b, pname):
                    rep.ok("C17.R10", "native/client-ca-refused/%s" % b.path, w10, "Some(client CA) -> UnsupportedFeature")
                else:
                    rep.bad("C17.R10", "native/client-ca-refused/%s" % b.path, w10,
                            "this constructor of the native-tls server identity takes a client CA path (`%s`) but can succeed with `Some(path)`: "
                            "the backend cannot verify client certificates, so the server would accept clients that present none" % pname)
        rep.floor("C17.R10", "native-tls server-identity constructors taking a client CA", n10, 2)
    # ---- R2 loader
    rep.rule("C17.R2", "custom CA => only certificates from that path; system/bundled roots only without a custom CA")
    if rustls_on:
        for b in crate.bodies:
            if b.path.endswith("generate_rustls_rootcertstore::{closure#0}"):
                rep.analysed(b)

                def lit2(b_, tr, g):
                    if g.kind == "discr" and g.adt and g.adt.endswith("option::Option") and upvar_named(b_, g.pred, "custom_ca_path"):
                        return "custom"
                    return None
                outs, tr, ex = explore_events(facts, b, lit2, {"read", "add_parsable_certificates", "load_native_certs", "extend", "to_vec"})
                where = "%s (%s)" % (loc_str(b.loc), b.path)
                probs = []
                for L, E in [a for a in outs if "ret:Ok" in a[1]]:
                    d = dict(L)
                    if d.get("custom") == "Some":
                        if "load_native_certs" in E or "extend" in E or "read" not in E or "add_parsable_certificates" not in E:
                            probs.append("with a custom CA the store also receives system / bundled roots or skips the file (events %s)" % (E,))
                    elif d.get("custom") == "None":
                        if "read" in E:
                            probs.append("without a custom CA a file is read")
                    else:
                        probs.append("successful path does not branch on the custom CA path")
                # the store that receives the custom CA starts empty: every RootCertStore value of this function is RootCertStore::empty()
                # (anything else - a helper returning the compiled-in roots, a clone of another store - puts more trust anchors next to
                # the operator's CA in builds that bundle roots)
                tr2 = Tracer(facts, b)
                for bi2, blk2 in enumerate(b.blocks):
                    if blk2["cleanup"]:
                        continue
                    for st2 in blk2["stmts"]:
                        if st2["k"] == "Assign" and st2["rv"]["k"] == "Aggregate" and str(st2["rv"]["agg"].get("adt", "")).endswith("RootCertStore"):
                            probs.append("a RootCertStore is built with initial contents (`%s`) instead of starting empty: with bundled roots "
                                         "compiled in, a custom CA no longer is the only trust anchor" % fmt(tr2.rvalue(st2["rv"]))[:80])
                    t2 = blk2["term"]
                    c2 = callee(t2) if t2["k"] == "Call" else None
                    if c2 and t2.get("dest") and not t2["dest"].get("p"):
                        dty = b.locals[t2["dest"]["l"]]["s"]
                        if dty.split("<")[0].endswith("RootCertStore") and c2["name"] not in ("empty", "clone"):
                            probs.append("the root store is initialised by `%s`, not RootCertStore::empty(): with bundled roots compiled in, a "
                                         "custom CA no longer is the only trust anchor" % c2["name"])
                if probs:
                    rep.bad("C17.R2", "root-store-loader", where, "; ".join(sorted(set(probs))))
                else:
                    rep.ok("C17.R2", "root-store-loader", where, "Some(path): file only; None: system/bundled roots")
    # ---- R3 server
    rep.rule("C17.R3", "server: client verifier iff client_ca_path; built by WebPkiClientVerifier::builder(store(client_ca_path)).build()")
    if rustls_on:
        for b in crate.bodies:
            if b.path.endswith("rustls::make_server_config_from_mem::{closure#0}"):
                rep.analysed(b)

                def lit3(b_, tr, g):
                    if g.kind == "discr" and g.adt and g.adt.endswith("option::Option") and upvar_named(b_, g.pred, "client_ca_path"):
                        return "client_ca"
                    return None
                outs, tr, ex = explore_events(facts, b, lit3, {"with_client_cert_verifier", "with_no_client_auth", "allow_unauthenticated",
                                                               "allow_unknown_revocation_status", "builder", "build", "with_single_cert"})
                where = "%s (%s)" % (loc_str(b.loc), b.path)
                probs = []
                seen = set()
                for L, E in [a for a in outs if "ret:Ok" in a[1]]:
                    d = dict(L)
                    seen.add(d.get("client_ca"))
                    if d.get("client_ca") == "Some":
                        if "with_client_cert_verifier" not in E or "with_no_client_auth" in E or "allow_unauthenticated" in E:
                            probs.append("client CA configured but client certificates are not required (events %s)" % (E,))
                    elif d.get("client_ca") == "None":
                        if "with_no_client_auth" not in E or "with_client_cert_verifier" in E:
                            probs.append("no client CA configured but a client verifier is installed (events %s)" % (E,))
                    else:
                        probs.append("successful path does not branch on client_ca_path")
                for bi, t in b.calls():
                    c = callee(t)
                    if c and c["name"] == "with_client_cert_verifier":
                        v = tr.operand(t["args"][1])
                        okv = any(x.kind == "call" and x[6] == "builder" and "WebPkiClientVerifier" in x[1] for x in walk(v)) and \
                            any(x.kind == "call" and x[6] == "generate_rustls_rootcertstore" for x in walk(v))
                        if not okv:
                            probs.append("the client verifier is not WebPkiClientVerifier::builder(store(client_ca_path)).build()")
                        # the store is loaded from the configured client CA path, not from the platform roots
                        for x in walk(v):
                            if x.kind == "call" and x[6] == "generate_rustls_rootcertstore":
                                arg = x[3][0] if x[3] else None
                                from_ca = arg is not None and (upvar_named(b, arg, "client_ca_path") or
                                                               any(y.kind == "agg" and y[2].endswith("Option::Some") for y in walk(arg)) and
                                                               any(upvar_named(b, y, "client_ca_path") for y in walk(arg)))
                                if not from_ca:
                                    probs.append("the client-certificate trust store is not loaded from client_ca_path (platform roots / None): "
                                                 "clients holding a certificate from any public CA are admitted")
                if probs or seen != {"Some", "None"}:
                    rep.bad("C17.R3", "server-client-auth", where, "; ".join(sorted(set(probs))) or "branches seen: %s" % sorted(seen, key=str))
                else:
                    rep.ok("C17.R3", "server-client-auth", where, "Some(ca): WebPki client verifier required; None: no client auth")
    # ---- R4 names and flags
    rep.rule("C17.R4", "argument roles: tls_connect -> make_client_config / ServerName / connect; handshake -> tls_connect")
    n_hs = [0]
    for b in crate.bodies:
        if b.path.endswith("tls::tls_connect::{closure#0}"):
            tr = Tracer(facts, b)
            rep.analysed(b)
            where = "%s (%s)" % (loc_str(b.loc), b.path)
            for bi, t in b.calls():
                c = callee(t)
                if c and c["name"] == "make_client_config":
                    names = []
                    for a in t["args"][:4]:
                        nm = [b.upvar_names.get(int(x[2])) for x in walk(tr.operand(a)) if x.kind == "field" and x[2].isdigit() and strip(x[1]).kind == "param"]
                        names.append(nm[0] if nm else None)
                    if names == ["tls_cert", "tls_key", "tls_ca", "tls_insecure"]:
                        rep.ok("C17.R4", "tls_connect->make_client_config", where, "(cert, key, ca, insecure) in their roles")
                    else:
                        rep.bad("C17.R4", "tls_connect->make_client_config", where, "make_client_config receives %s" % names)
                if c and c["name"] == "connect" and "TlsConnector" in c["def"]:
                    sn = tr.operand(t["args"][1])
                    if upvar_named(b, sn, "server_name"):
                        rep.ok("C17.R4", "tls_connect->connect(server_name)", where, "the requested server name is the name verified")
                    else:
                        rep.bad("C17.R4", "tls_connect->connect(server_name)", where, "the TLS connector is not given the caller's server_name")
        if "client" in crate.features and any(callee(t) and callee(t)["name"] == "tls_connect" for _, t in b.calls()):
            n_hs[0] += 1
            tr = Tracer(facts, b)
            rep.analysed(b)
            where = "%s (%s)" % (loc_str(b.loc), b.path)
            for bi, t in b.calls():
                c = callee(t)
                if c and c["name"] == "tls_connect":
                    flag = rules_c03._flat_fields(tr.operand(t["args"][5]))
                    name = rules_c03._flat_fields(tr.operand(t["args"][1]))
                    roles = [sorted(x for x in rules_c03._flat_fields(tr.operand(a)) if x.startswith("ClientArgs.")) for a in t["args"][2:5]]
                    ok = "ClientArgs.tls_skip_verify" in flag and "ClientArgs.server" in name and \
                        roles == [["ClientArgs.tls_cert"], ["ClientArgs.tls_key"], ["ClientArgs.tls_ca"]]
                    if ok:
                        rep.ok("C17.R4", "handshake->tls_connect", where, "name <- host|hostname|tls_server_name; cert/key/ca/skip flag in their roles")
                    else:
                        rep.bad("C17.R4", "handshake->tls_connect", where, "tls_connect receives name<-%s flag<-%s cert/key/ca<-%s" % (sorted(name), sorted(flag), roles))
                    # precedence: the last assignment of the SNI variable is from tls_server_name
                    # the variable handed to tls_connect: the user variable in the provenance of the argument
                    sni_local = None
                    cur = t["args"][1]["p"]["l"] if t["args"][1]["k"] in ("copy", "move") else None
                    for _ in range(6):
                        if cur is None:
                            break
                        if cur in b.names and len(b.defs.get(cur, [])) > 1:
                            sni_local = cur
                            break
                        ds0 = b.defs.get(cur, [])
                        nxt = None
                        if len(ds0) == 1 and ds0[0][1] != "term":
                            rv = ds0[0][2]["rv"]
                            if rv["k"] == "Use" and rv["ops"][0]["k"] in ("copy", "move"):
                                nxt = rv["ops"][0]["p"]["l"]
                            elif rv["k"] == "Ref":
                                nxt = rv["place"]["l"]
                        cur = nxt
                    ds = b.defs.get(sni_local, []) if sni_local is not None else []
                    order = []
                    for (dbb, si, s) in ds:
                        if si == "term":
                            continue
                        fl = set("ClientArgs." + x[2] for x in walk(tr.rvalue(s["rv"])) if x.kind == "field" and (x[3] or "").endswith("ClientArgs"))
                        tag = "tls_server_name" if "ClientArgs.tls_server_name" in fl else "hostname" if "ClientArgs.hostname" in fl else "host"
                        order.append((dbb, tag))
                    tags = dict((tg, bb) for bb, tg in order)
                    if {"host", "hostname", "tls_server_name"} <= set(tags) and b.dominates(tags["host"], tags["hostname"]) and \
                            not (tags["hostname"] in b.reachable_from(tags["tls_server_name"])):
                        rep.ok("C17.R4", "sni-precedence", where, "host < --hostname < --tls-server-name")
                        # a given override is always applied: from the Some edge of the test of the option, the tls_connect call is not
                        # reachable without passing the assignment
                        for opt in ("tls_server_name", "hostname"):
                            for gb in range(len(b.blocks)):
                                if b.term(gb)["k"] != "SwitchInt" or not b.dominates(gb, tags[opt]):
                                    continue
                                g = guard_at(facts, b, tr, gb)
                                if g is None or g.kind != "discr" or not (g.adt or "").endswith("option::Option"):
                                    continue
                                if not any(x.kind == "field" and x[2] == opt and (x[3] or "").endswith("ClientArgs") for x in walk(g.pred)):
                                    continue
                                somes = [s2 for s2, v2 in g.edges if v2 == "Some"]
                                rets_ = [r for r in range(len(b.blocks)) if b.term(r)["k"] == "Return"]
                                if any(bi in b.reachable_from(s2, cut={tags[opt]}) for s2 in somes):
                                    rep.bad("C17.R4", "override-always-applied/%s" % opt, where,
                                            "a given --%s can be ignored: the TLS handshake is reachable from the `Some` edge of the option without "
                                            "passing the assignment of the name to verify, so for some values the certificate is checked against a "
                                            "name the user did not request" % opt.replace("_", "-"))
                                else:
                                    rep.ok("C17.R4", "override-always-applied/%s" % opt, where, "Some(%s) always becomes the verified name" % opt)
                    else:
                        rep.bad("C17.R4", "sni-precedence", where, "SNI precedence is not host < --hostname < --tls-server-name (assignments: %s)" % order)
    if "client" in crate.features:
        rep.floor("C17.R4", "tls_connect call sites in the client handshake", n_hs[0], 1)
    # ---- R5
    rep.rule("C17.R5", "hot swap: reload stores on success; listener snapshots load_full() per accepted connection")
    for b in crate.bodies:
        if b.path.endswith("tls::reload_tls_identity::{closure#0}"):
            tr = Tracer(facts, b)
            rep.analysed(b)
            where = "%s (%s)" % (loc_str(b.loc), b.path)
            st = [(bi, t) for bi, t in b.calls() if callee(t) and callee(t)["name"] == "store" and "ArcSwap" in callee(t)["def"]]
            ok = False
            if st:
                v = tr.operand(st[0][1]["args"][1])
                ok = any(x.kind == "call" and x[6] == "make_server_config" for x in walk(v)) and upvar_named(b, tr.operand(st[0][1]["args"][0]), "identity")
                rets = [x for x in range(len(b.blocks)) for s in b.blocks[x]["stmts"] if s["k"] == "Assign" and s["lhs"]["l"] == 0 and
                        s["rv"]["k"] == "Aggregate" and s["rv"]["agg"].get("variant") == "Ok"]
                ok = ok and all(b.dominates(st[0][0], r) for r in rets)
            (rep.ok if ok else rep.bad)("C17.R5", "reload-stores-new-config", where,
                                        "identity.store(Arc::new(make_server_config(..)?)) before Ok" if ok else "the reloaded configuration is not stored into the shared identity on the success path")
        if b.path.endswith("server::run_listener::{closure#0}::{closure#0}") and rustls_on:
            tr = Tracer(facts, b)
            rep.analysed(b)
            where = "%s (%s)" % (loc_str(b.loc), b.path)
            lf = [bi for bi, t in b.calls() if callee(t) and callee(t)["name"] == "load_full"]
            acc = [bi for bi, t in b.calls() if callee(t) and callee(t)["name"] == "accept" and "TcpListener" in callee(t)["def"]]
            ok = bool(lf) and bool(acc) and all(b.dominates(acc[0], x) for x in lf) and all(acc[0] in b.reachable_from(b.succ[x][0]) for x in lf)
            if ok:
                # the snapshot goes to the per-connection TLS server function
                ok = any(callee(t) and any(y.kind == "call" and y[6] == "load_full" for a in t["args"] for y in walk(tr.operand(a)))
                         and (callee(t).get("res") or callee(t)["dp"]) in facts.by_dp for _, t in b.calls())
            (rep.ok if ok else rep.bad)("C17.R5", "listener-snapshots-per-connection", where,
                                        "load_full() inside the accept loop, handed to the connection" if ok else "the listener does not take a fresh snapshot of the TLS identity for each accepted connection")
    # ---- R6 role propagation of the authentication inputs
    rep.rule("C17.R6", "authentication inputs keep their role along the identity functions: every in-crate call of a function with a "
                       "client_ca_path / cert_path / key_path / tls_skip_verify parameter passes the caller's value of the same role")
    ROLE_PARAMS = {"client_ca_path": {"client_ca_path", "tls_ca", "client_ca"}, "cert_path": {"cert_path", "tls_cert", "certs"},
                   "key_path": {"key_path", "tls_key", "priv_key_pem"}, "tls_skip_verify": {"tls_skip_verify", "tls_insecure"},
                   "ca_path": {"ca_path", "tls_ca"}}
    # parameter names of in-crate functions (async fns: names of the coroutine's upvars)
    pnames = {}
    for fb in crate.bodies:
        if fb.kind in ("Fn", "AssocFn") and "/src/tls/" in fb.file:
            names = {}
            for i in range(1, fb.argc + 1):
                nm = fb.names.get(i)
                if nm:
                    names[i] = nm
            if not names:
                # async fn: the coroutine child carries the names
                for ch in crate.children.get(fb.dp, []):
                    for k, v in ch.upvar_names.items():
                        names[k + 1] = v
            pnames[fb.dp] = names
    n6 = 0
    for b in crate.bodies:
        if "/tests" in b.file or b.path.startswith("tests::") or "::tests::" in b.path:
            continue
        tr = None
        for bi, t in b.calls():
            c = callee(t)
            if not c:
                continue
            dp = c.get("res") or c["dp"]
            if dp not in pnames:
                continue
            for pos, pname in pnames[dp].items():
                if pname not in ROLE_PARAMS or pos - 1 >= len(t["args"]):
                    continue
                tr = tr or Tracer(facts, b)
                an = tr.operand(t["args"][pos - 1])
                have = set()
                for x in walk(an):
                    if x.kind == "field" and x[2].isdigit() and strip(x[1]).kind == "param" and strip(x[1])[1] == 1 and b.kind == "Closure":
                        have.add(b.upvar_names.get(int(x[2])))
                    elif x.kind == "param":
                        have.add(x[2])
                    elif x.kind == "field":
                        have.add(x[2])
                n6 += 1
                where = "%s (%s)" % (loc_str(t["loc"]), b.path)
                key = "%s->%s/%s" % (b.path.split("::{")[0], c["name"], pname)
                # does the caller have a value of this role at all? (its own parameters / captured variables)
                root = b
                while root.kind == "Closure" and root.parent in facts.by_dp:
                    root = facts.by_dp[root.parent]
                own = set(root.names.get(i) for i in range(1, root.argc + 1)) | set(b.upvar_names.values())
                for ch in crate.children.get(root.dp, []):
                    own |= set(ch.upvar_names.values())
                if have & ROLE_PARAMS[pname]:
                    rep.ok("C17.R6", key, where, "%s <- %s" % (pname, sorted(x for x in have if x in ROLE_PARAMS[pname])), nontrivial=False)
                elif not (own & ROLE_PARAMS[pname]):
                    rep.ok("C17.R6", key + "/fixed-policy", where, "caller has no configured %s: fixed policy `%s`" % (pname, fmt(strip(an))[:40]), nontrivial=False)
                else:
                    # constants for the caller's own fixed policy (e.g. Some(&["http/1.1"])) are not authentication inputs
                    rep.bad("C17.R6", key, where,
                            "the `%s` handed to %s is `%s`, not the caller's configured value: the authentication requirement "
                            "configured by the operator is dropped or replaced on this path" % (pname, c["name"], fmt(strip(an))[:80]))
    rep.floor("C17.R6", "role-carrying calls in the TLS layer", n6, 6)
    # ---- R7 a reload replaces the whole identity: nothing of the previous identity is carried into the new one
    rep.rule("C17.R7", "certificate reload: the value stored into the shared identity is exactly the freshly built configuration; no field of it is "
                       "taken from the previous identity (session caches, verifiers, resolvers would keep admitting what the old identity admitted)")
    k7 = 0
    for b in crate.bodies:
        if "/src/tls/" not in b.file:
            continue
        stores = [(bi, t) for bi, t in b.calls() if callee(t) and callee(t)["name"] == "store" and "ArcSwap" in callee(t)["def"] + callee(t)["path"]]
        if not stores:
            continue
        tr = Tracer(facts, b)
        k7 += 1
        rep.analysed(b)
        where = "%s (%s)" % (loc_str(stores[0][1]["loc"]), b.path)
        carried = []
        for bi, blk in enumerate(b.blocks):
            if blk["cleanup"]:
                continue
            for st in blk["stmts"]:
                if st["k"] == "Assign" and st["lhs"].get("p"):
                    v = tr.rvalue(st["rv"])
                    if any(x.kind == "call" and x[6] in ("load", "load_full") and "ArcSwap" in x[1] + x[2] for x in walk(v)):
                        carried.append(st)
        for bi, t in b.calls():
            c = callee(t)
            if c and c["name"] not in ("store", "load", "load_full", "clone", "deref", "new") and any(
                    x.kind == "call" and x[6] in ("load", "load_full") and "ArcSwap" in x[1] + x[2] for a in t["args"] for x in walk(tr.operand(a))):
                pass
        val = tr.operand(stores[0][1]["args"][1])
        fresh = any(x.kind == "call" and x[6] in ("make_server_config", "make_server_config_from_pem", "make_tls_identity", "make_server_config_from_mem") for x in walk(val))
        if carried or not fresh:
            rep.bad("C17.R7", "reload-replaces-identity/%s" % b.path.split("::{")[0], where,
                    "the identity stored by the reload %s: handshakes after the reload can still be satisfied by state of the previous identity "
                    "(e.g. a resumed session skips the new client-certificate check)" % (
                        "copies a field from the previous identity (%s)" % loc_str(carried[0]["loc"]) if carried else "is not the freshly built configuration"))
        else:
            rep.ok("C17.R7", "reload-replaces-identity/%s" % b.path.split("::{")[0], where, "store(Arc::new(fresh config)), nothing carried over")
    for b in crate.bodies:
        root = b
        if "/src/tls/" in b.file and "reload_tls_identity" in b.path and b.path.endswith("::{closure#0}"):
            if any(callee(t) and callee(t)["name"] == "store" and "ArcSwap" in callee(t)["def"] + callee(t)["path"] for _, t in b.calls()):
                rep.ok("C17.R7", "reload-stores/%s" % b.path.split("::{")[0], "%s (%s)" % (loc_str(b.loc), b.path), "the new identity is published")
            else:
                rep.bad("C17.R7", "reload-stores/%s" % b.path.split("::{")[0], "%s (%s)" % (loc_str(b.loc), b.path),
                        "the reload builds a new identity but never stores it into the shared handle: later handshakes keep seeing the old certificate / client CA")
    if "server" in crate.features:
        rep.floor("C17.R7", "identity reload functions", k7, 1)

    # ---- R8 per-connection configuration: what the connector verifies with is built from the arguments of *this* call
    rep.rule("C17.R8", "the TLS connector that performs a client handshake is built in that call from make_client_config(this call's certificate, key, "
                       "CA and skip-verify arguments); it is never taken from process-wide state (a cached connector keeps authenticating with the "
                       "first caller's settings)")
    k8 = 0
    for b in crate.bodies:
        if "/src/tls/" not in b.file:
            continue
        tr = None
        for bi, t in b.calls():
            c = callee(t)
            if not c or c["name"] != "connect" or "TlsConnector" not in c["path"] + c.get("def", ""):
                continue
            tr = tr or Tracer(facts, b)
            k8 += 1
            where = "%s (%s)" % (loc_str(t["loc"]), b.path)
            key = "connector-built-per-call/%s" % b.path.split("::{")[0]
            v = tr.operand(t["args"][0])
            statics = [x for x in walk(v) if x.kind == "static"]
            built = any(x.kind == "call" and x[6] == "make_client_config" for x in walk(v))
            cached = [x[6] for x in walk(v) if x.kind == "call" and x[6] in ("get_or_init", "get_or_try_init", "get_or_insert_with", "force", "get")
                      and ("OnceCell" in x[1] + x[2] or "OnceLock" in x[1] + x[2] or "Lazy" in x[1] + x[2])]
            if statics or cached:
                rep.bad("C17.R8", key, where,
                        "the connector used for this handshake comes from process-wide state (%s): it was built from the settings of whichever call "
                        "ran first, so a later call with a different CA / client certificate / skip-verify flag authenticates the server with the "
                        "wrong settings" % (", ".join(sorted(set(cached))) or "a static"))
            elif not built:
                rep.bad("C17.R8", key, where, "the connector used for this handshake does not derive from make_client_config(..) in this call")
            else:
                rep.ok("C17.R8", key, where, "connector <- make_client_config(arguments of this call)")
    if "client" in crate.features or "default" in crate.features:
        rep.floor("C17.R8", "client TLS handshake sites", k8, 1)
    rep.rule("C17.S7", "who-may: the functions that touch the critical resources behind this property are those of the reference tree (flow table, closed flag, per-stream / datagram / outbound queues, last-pong timestamp, client id maps, shared TLS identity)")
    import whomay
    whomay.check(facts, rep, "C17.S7", "C17")
    whomay.check_new_statics(facts, rep, "C17.S7", "C17")
    whomay.check_new_trait_methods(facts, rep, "C17.S7", "C17")
