"""Shared rules S1..S6 (see DESIGN.md section 4 'Shared rules')."""
import re
from an import (Tracer, Explorer, STOP, guard_at, strip, strip_casts, walk, fmt, callee, callee_def,
                const_eval, leaves, field_reads, CallIndex, logical_root, nested_bodies, N)
from mir import loc_str, is_noise

POLL_ADT = "core::task::poll::Poll"


def is_poll_body(b):
    return b.ret_ty().startswith("core::task::Poll<") or b.ret_ty().startswith("std::task::Poll<")


def has_cx_call(node):
    """node's provenance contains a call one of whose arguments derives from a Context parameter."""
    for x in walk(node):
        if x.kind in ("call", "calli"):
            args = x[3] if x.kind == "call" else x[2]
            for a in args:
                for y in walk(a):
                    if y.kind == "param" and "Context" in (y[3] or ""):
                        return True
                    if y.kind == "call" and y[6] == "get_context":
                        return True
    return False


def field_of_receiver(tr, op):
    """'Owner.field' of the atomic / waker object a method is invoked on (through Arc deref)."""
    n = tr.operand(op)
    for x in walk(n):
        if x.kind == "field" and x[3]:
            return "%s.%s" % (x[3].split("::")[-1], x[2])
    return None


ATOMIC_READS = {"load", "compare_exchange", "compare_exchange_weak", "swap", "fetch_add", "fetch_sub",
                "fetch_update", "fetch_or", "fetch_and"}


def atomic_call(t):
    c = callee(t)
    if not c:
        return None
    if "sync::atomic::Atomic" in c["def"] or "loom::sync::atomic" in c["def"]:
        return c["name"]
    return None


def is_waker_register(t):
    c = callee(t)
    return bool(c and c["name"] == "register" and "AtomicWaker" in c["def"])


def is_waker_wake(t):
    c = callee(t)
    return bool(c and c["name"] == "wake" and "AtomicWaker" in c["def"])


def is_wake_by_ref(t):
    c = callee(t)
    return bool(c and c["name"] in ("wake_by_ref", "wake") and "task::wake::Waker" in c["def"])


def ret_tracker(tr):
    """on_stmt helper: classify assignments to _0 in a Poll-returning body."""
    def classify(s):
        if s["k"] == "Assign" and s["lhs"]["l"] == 0 and not s["lhs"].get("p"):
            rv = s["rv"]
            if rv["k"] == "Aggregate" and rv["agg"]["a"] == "Adt" and rv["agg"]["adt"] == POLL_ADT:
                return rv["agg"]["variant"]
            return "Other"
        return None
    return classify


# ---------------------------------------------------------------------------- S2
def s2_unjustified_pending(facts, b):
    """Returns list of (witness_blocks, pending_block) for Pending returns with no justifying event."""
    tr = Tracer(facts, b)
    guards = {}
    for bb in range(len(b.blocks)):
        if b.term(bb)["k"] == "SwitchInt":
            g = guard_at(facts, b, tr, bb)
            if g is not None and g.kind == "discr" and g.adt == POLL_ADT and has_cx_call(g.pred):
                guards[bb] = g
    classify = ret_tracker(tr)

    def on_stmt(bb, i, s, auto):
        c = classify(s)
        if c is not None:
            return (c, auto[1], bb if c == "Pending" else auto[2])
        return auto

    def on_term(bb, t, auto, store):
        if t["k"] == "Call":
            if is_waker_register(t) or is_wake_by_ref(t):
                return (auto[0], 1, auto[2])
            if t["dest"]["l"] == 0 and not t["dest"].get("p"):
                return ("Other", auto[1], auto[2])
        return auto

    def on_edge(bb, succ, auto, store):
        g = guards.get(bb)
        if g is None:
            return auto
        for s2, v in g.edges:
            if s2 == succ and v == "Pending":
                return (auto[0], 1, auto[2])
        return auto

    ex = Explorer(facts, b, on_stmt=on_stmt, on_term=on_term, on_edge=on_edge, budget=150000)
    finals = ex.run(0, (None, 0, None))
    out = []
    seen = set()
    for st, auto, kind in finals:
        if kind == "Return" and auto[0] == "Pending" and auto[1] == 0:
            if auto[2] in seen:
                continue
            seen.add(auto[2])
            out.append((ex.witness(st), auto[2]))
    return out, len(ex.seen), ex.exhausted


# ---------------------------------------------------------------------------- S3
def s3_register_recheck(facts, b):
    """For each AtomicWaker::register site: the atomics whose loads decide readiness in this body must be
    loaded again on every path from the registration to a `Pending` return.
    Returns (instances, violations) where violation = (site_bb, missing_fields, witness)."""
    tr = Tracer(facts, b)
    deciding = set()
    loads = {}
    for bi, t in b.calls():
        a = atomic_call(t)
        if a in ATOMIC_READS and t["args"]:
            f = field_of_receiver(tr, t["args"][0])
            if f:
                loads[bi] = f
                if a == "load":
                    deciding.add(f)
    classify = ret_tracker(tr)
    regs = [bi for bi, t in b.calls() if is_waker_register(t)]
    inst = []
    viol = []
    for r in regs:
        def on_stmt(bb, i, s, auto):
            c = classify(s)
            if c is not None:
                return (c, auto[1])
            return auto

        def on_term(bb, t, auto, store):
            if bb in loads and bb != r:
                return (auto[0], auto[1] | frozenset([loads[bb]]))
            if t["k"] == "Call" and t["dest"]["l"] == 0 and not t["dest"].get("p"):
                return ("Other", auto[1])
            return auto
        succ = b.succ[r]
        if not succ:
            continue
        ex = Explorer(facts, b, on_stmt=on_stmt, on_term=on_term, budget=100000)
        finals = ex.run(succ[0], (None, frozenset()))
        bad = None
        for st, auto, kind in finals:
            if kind == "Return" and auto[0] == "Pending":
                missing = deciding - auto[1]
                if missing:
                    bad = (r, sorted(missing), [r] + ex.witness(st))
                    break
        if bad:
            viol.append(bad)
        else:
            inst.append((r, sorted(deciding)))
    return inst, viol, regs


# ---------------------------------------------------------------------------- S3b
def s3b_wake_after_write(facts, b, owner_suffix="EstablishedStreamData"):
    """Task-side atomic writes on the shared stream state must be followed by AtomicWaker::wake on all paths."""
    tr = Tracer(facts, b)
    out_ok, out_bad = [], []
    for bi, t in b.calls():
        a = atomic_call(t)
        if a in ("fetch_add", "swap", "store", "fetch_or") and t["args"]:
            f = field_of_receiver(tr, t["args"][0])
            if not f or not f.startswith(owner_suffix + "."):
                continue
            # every path from bi to Return passes a wake
            wakes = set(bj for bj, t2 in b.calls() if is_waker_wake(t2))
            reach = b.reachable_from(b.succ[bi][0], cut=wakes) if b.succ[bi] else set()
            rets = [x for x in reach if b.term(x)["k"] == "Return"]
            if rets:
                out_bad.append((bi, f, a))
            else:
                out_ok.append((bi, f, a))
    return out_ok, out_bad


# ---------------------------------------------------------------------------------------------------------
# S5  lock re-entrancy: while a guard of lock L is live, nothing reachable acquires L again (parking_lot locks
#     are not re-entrant: the task would deadlock on itself)
LOCK_METHODS = {"write": "w", "lock": "w", "read": "r", "upgradable_read": "r"}


def _lock_call(t):
    c = callee(t)
    if not c or c["name"] not in LOCK_METHODS:
        return None
    d = c["def"] + " " + c["path"]
    if "RwLock" in d or "Mutex" in d:
        return LOCK_METHODS[c["name"]]
    return None


def lock_sites(facts, b):
    """[(bb, lock field name, mode, guard local)] for every lock acquisition in body b."""
    out = []
    tr = None
    for bi, t in b.calls():
        mode = _lock_call(t)
        if not mode or b.blocks[bi]["cleanup"]:
            continue
        tr = tr or Tracer(facts, b)
        fld = None
        for x in walk(tr.operand(t["args"][0])):
            if x.kind == "field" and not x[2].isdigit():
                fld = x[2]
                break
            if x.kind == "field" and x[2].isdigit() and strip(x[1]).kind == "param":
                fld = b.upvar_names.get(int(x[2])) or fld
        dest = t.get("dest") or {}
        out.append((bi, fld or "?", mode, dest.get("l") if not dest.get("p") else None))
    return out


def _held_region(b, acq_bb, guard):
    """Blocks executed while the guard acquired at acq_bb may still be live."""
    guards = {guard}
    changed = True
    while changed:
        changed = False
        for blk in b.blocks:
            for s in blk["stmts"]:
                if s["k"] == "Assign" and s["rv"]["k"] == "Use":
                    o = s["rv"]["ops"][0]
                    if o["k"] == "move" and not o["p"].get("p") and o["p"]["l"] in guards and not s["lhs"].get("p"):
                        if s["lhs"]["l"] not in guards:
                            guards.add(s["lhs"]["l"])
                            changed = True
    rel = set()
    for bi, blk in enumerate(b.blocks):
        t = blk["term"]
        if t["k"] == "Drop" and not t["place"].get("p") and t["place"]["l"] in guards:
            rel.add(bi)
        if t["k"] == "Call" and any(a["k"] == "move" and not a["p"].get("p") and a["p"]["l"] in guards for a in t["args"]):
            rel.add(bi)
    start = b.blocks[acq_bb]["term"].get("t")
    if start is None:
        return set(), rel
    reg = b.reachable_from(start, cut=rel)
    return set(x for x in reg if not b.blocks[x]["cleanup"]), rel


def s5_lock_reentrancy(facts, crate):
    """-> (violations, checked) ; violation = (body, acq_bb, lock, inner body/callee description, site bb)."""
    direct = {}
    edges = {}
    for b in crate.bodies:
        direct[b.dp] = set((f, m) for _, f, m, _ in lock_sites(facts, b))
        cs = set()
        for bi, t in b.calls():
            c = callee(t)
            if c:
                for k in (c.get("res"), c["dp"]):
                    if k and k in facts.by_dp:
                        cs.add(k)
        for blk in b.blocks:
            for s in blk["stmts"]:
                if s["k"] == "Assign" and s["rv"]["k"] == "Aggregate" and s["rv"]["agg"].get("a") in ("Closure", "Coroutine", "CoroutineClosure"):
                    d = s["rv"]["agg"].get("def")
                    if d in facts.by_dp:
                        cs.add(d)
        edges[b.dp] = cs
    memo = {}

    def acq(dp, stack=()):
        if dp in memo:
            return memo[dp]
        if dp in stack:
            return set()
        r = set(direct.get(dp, ()))
        for k in edges.get(dp, ()):
            r |= acq(k, stack + (dp,))
        if not stack:
            memo[dp] = r
        return r
    viol, checked = [], 0
    for b in crate.bodies:
        for abb, fld, mode, g in lock_sites(facts, b):
            if g is None or fld == "?":
                continue
            checked += 1
            reg, rel = _held_region(b, abb, g)
            for x in sorted(reg):
                t = b.term(x)
                inner = set()
                desc = None
                if t["k"] == "Call":
                    m2 = _lock_call(t)
                    if m2:
                        for bb2, f2, mm, _ in lock_sites(facts, b):
                            if bb2 == x:
                                inner.add((f2, mm))
                                desc = "a second acquisition in the same function"
                    c = callee(t)
                    if c:
                        for k in (c.get("res"), c["dp"]):
                            if k and k in facts.by_dp:
                                inner |= acq(k)
                                desc = desc or ("call to %s" % c["path"])
                for s in b.blocks[x]["stmts"]:
                    if s["k"] == "Assign" and s["rv"]["k"] == "Aggregate" and s["rv"]["agg"].get("a") in ("Closure", "Coroutine", "CoroutineClosure"):
                        d = s["rv"]["agg"].get("def")
                        if d in facts.by_dp and any(f2 == fld for f2, _ in acq(d)):
                            inner |= acq(d)
                            desc = "closure %s run under the guard" % facts.by_dp[d].path
                for f2, m2 in inner:
                    if f2 == fld and (mode == "w" or m2 == "w"):
                        viol.append((b, abb, fld, desc, x))
                        break
    return viol, checked


def s6_guard_across_await(facts, crate):
    """-> [(body, acq_bb, lock, yield_bb)]: a blocking (non-async) lock guard that is live across an await."""
    out = []
    for b in crate.bodies:
        for abb, fld, mode, g in lock_sites(facts, b):
            if g is None:
                continue
            reg, rel = _held_region(b, abb, g)
            for x in sorted(reg):
                if b.term(x)["k"] == "Yield":
                    out.append((b, abb, fld, x))
                    break
    return out
