"""C15 Bind requests resolve exactly once with the peer's decision."""
from an import (Tracer, guard_at, strip, strip_casts, walk, fmt, callee, const_eval, Inter)
from mir import loc_str
from muxcommon import *
import rules_c03, rules_c08, rules_c10

EXPLANATION = (
    "(R1) requester: the BindRequested slot is inserted under a fresh non-zero id from the allocator, the Bind "
    "frame carries (id<-allocator, type, host, port<-caller) and the result is the oneshot's value; Finish/Reset on "
    "a BindRequested slot and teardown resolve it with true/false/false (reaction-table cells; at-most-once is a "
    "type-level fact: oneshot::Sender::send consumes the sender after the slot left the map); (R2) responder: "
    "Bind rows of the table; the request handed to the application carries the frame's id and payload; (R3) "
    "exactly one reply frame per request: a reply emitted from Drop must be dominated by a 'not yet replied' "
    "edge on state that reply() writes (or reply must consume self).")
EXPLANATION_ADDED = "R1 also requires the requester's queue/oneshot failures to be mapped to Closed; R2 distinguishes an awaited hand-off to the bind queue from try_send; (R4) the bind queue is sized by bind_buffer_size."
EXPLANATION_ADDED2 = " R2 also covers the Connect/in-use cell (shared id space) and the dispatcher's ignore_bind constants; R3 also requires a fresh request's state flag to start false."
EXPLANATION = EXPLANATION + " Added while testing against seeded changes: " + EXPLANATION_ADDED + EXPLANATION_ADDED2
EXPLANATION = EXPLANATION + ' Round 10: (R5) only the stream handle and the multiplexor handle report on the dropped-flows queue (no stale report closes a re-used id); R3 also requires Drop to answer an unreplied request with false; the Options setter stores its argument (R4).'
EXPLANATION = EXPLANATION + ' Rounds 14-15: (S9) Frame::new_bind / new_finish / new_reset are exact.'
EXPLANATION = EXPLANATION + ' Round 19: R1 also covers the Push cells of the reaction table (stream traffic on the id of a pending bind is answered with Reset and leaves the slot alone).'
ASSUMPTIONS = ["tokio oneshot delivers at most one value"]
NOT_DECIDED = "independence of concurrent requests under all interleavings"
BR = "penguin_mux::BindRequest"


def check(facts, rep, tier, cfg):
    crate = facts.crate("penguin_mux")
    if crate is None:
        rep.bad("C15.R1", "crate", "", "penguin_mux facts missing")
        return
    inter = Inter(facts)
    rep.rule("C15.R1", "requester: fresh id, Bind roles, result from the oneshot; table cells resolve true/false/false")
    n = 0
    for b, bi, t, tr, msg in queue_sends(facts, crate):
        for cn in ctor_calls(msg, {"new_bind"}):
            n += 1
            rep.analysed(b)
            where = "%s (%s)" % (loc_str(t["loc"]), b.path)
            idn = strip(cn[3][0])
            names = []
            for a in cn[3][1:]:
                nm = set()
                for x in walk(a):
                    if x.kind == "field" and x[2].isdigit() and strip(x[1]).kind == "param":
                        nm.add(b.upvar_names.get(int(x[2])))
                names.append(nm)
            idok = idn.kind == "call" and idn[6] in ("insert_new_flow", "next_available_nonzero_key")
            slot_ok = False
            if idok:
                alloc_t = b.term(idn[4])
                sl = strip(tr.operand(alloc_t["args"][1])) if len(alloc_t["args"]) > 1 else None
                slot_ok = sl is not None and sl.kind == "agg" and sl[2].endswith("FlowSlot::BindRequested")
            if idok and slot_ok and names == [{"bind_type"}, {"host"}, {"port"}]:
                rep.ok("C15.R1", "bind-request-args", where, "slot BindRequested under allocator id; new_bind(id, bind_type, host, port)")
            else:
                rep.bad("C15.R1", "bind-request-args", where, "Bind request built from id=%s slot_ok=%s args=%s" % (fmt(idn)[:60], slot_ok, names))
            # result from oneshot
            root = b
            r0 = tr.local(0)
            if any(x.kind == "call" and x[6] == "poll" and "oneshot::Receiver" in x[2] for x in walk(r0)):
                rep.ok("C15.R1", "bind-result-from-oneshot", where, "Ok(result) <- oneshot receiver")
            else:
                rep.bad("C15.R1", "bind-result-from-oneshot", where, "request_bind's result does not come from the slot's oneshot")
    rep.floor("C15.R1", "Bind emissions", n, 1)
    # a request that cannot be queued / whose oneshot is dropped fails with Closed instead of waiting on a slot nobody resolves
    k = 0
    for root, b, t, mapped in rules_c08.closed_mapping_sites(facts, crate):
        if not any(callee(tt) and callee(tt)["name"] == "new_bind" for _, tt in b.calls()):
            continue
        k += 1
        w = "%s (%s)" % (loc_str(t["loc"]), b.path)
        if mapped:
            rep.ok("C15.R1", "bind-request-closed-mapping#%d" % k, w, "failure mapped to Error::Closed and returned")
        else:
            rep.bad("C15.R1", "bind-request-closed-mapping", w,
                    "request_bind ignores that the Bind frame could not be queued (connection ended): the BindRequested slot it just "
                    "inserted is never resolved, the call never returns and the flow id stays taken")
    rep.floor("C15.R1", "fallible queue/oneshot operations in the bind requester", k, 2)
    sub = type(rep)(rep.prop, rep.tier, rep.config)
    rules_c10.check(facts, sub, tier, cfg)
    rep.paths += sub.paths
    cells = ("cell/Finish/BindRequested", "cell/Reset/BindRequested", "cell/Acknowledge/BindRequested", "cell/Bind/disabled",
             "cell/Bind/enabled", "cell/Bind/winding-down",
             # stream and bind operations share one id space: a Connect on an id with a pending bind must not replace the slot
             "cell/Connect/in-use", "cell/Push/BindRequested",
             # stream traffic on the id of a pending bind (a late Push after id reuse) is answered with Reset and leaves the slot alone
             "cell/Push/no-taker", "cell/Push/delivered-or-closed")
    rep.rule("C15.R2", "responder: Bind rows of the reaction table; BindRequest carries the frame's id and payload")
    for i in sub.instances:
        if i["key"] in cells:
            rep.ok("C15.R1" if ("BindRequested" in i["key"] or "Push" in i["key"]) else "C15.R2", i["key"], i["where"], i["detail"])
    for v in sub.violations:
        k = v["key"].split("/", 1)[1]
        if k in cells or (k.startswith("unmatched/") and "Bind" in k):
            rep.bad("C15.R1" if ("BindRequested" in k or "Push" in k) else "C15.R2", k, v["where"], v["msg"])
    sub8 = type(rep)(rep.prop, rep.tier, rep.config)
    rules_c08.check(facts, sub8, tier, cfg)
    for i in sub8.instances:
        if i["key"].startswith("drain-resolves"):
            rep.ok("C15.R1", "teardown/" + i["key"], i["where"], i["detail"])
    for v in sub8.violations:
        if "drain-resolves" in v["key"]:
            rep.bad("C15.R1", "teardown/drain-resolves", v["where"], v["msg"])
    scope = None
    for b, bi, s, fields in struct_inits(facts, crate, BR):
        rep.analysed(b)
        where = "%s (%s)" % (loc_str(s["loc"]), b.path)
        _d = rules_c10.dispatcher(crate)
        it = Inter(facts, root=_d.dp if _d else b.dp)   # expand helper parameters up to (not beyond) the frame dispatcher
        fid = rules_c03.top_roles(it.expand(b, it.tracer(b).operand(fields["flow_id"])))
        pl = rules_c03.top_roles(it.expand(b, it.tracer(b).operand(fields["payload"])))
        if fid == {"Frame.id"} and pl == {"Payload.0"} or (fid == {"Frame.id"} and "as:Bind" in rules_c03._flat_fields(it.expand(b, it.tracer(b).operand(fields["payload"])))):
            rep.ok("C15.R2", "bind-request-carries-frame", where, "BindRequest{flow_id<-frame.id, payload<-Bind payload}")
        else:
            rep.bad("C15.R2", "bind-request-carries-frame", where, "BindRequest built from flow_id=%s payload=%s" % (sorted(fid), sorted(pl)))
    # ---- R3
    # the healthy connection dispatches Bind frames (ignore_bind = false in the receive loop, true only in the wind-down)
    sub8 = type(rep)(rep.prop, rep.tier, rep.config)
    rules_c08.check(facts, sub8, tier, cfg)
    for i8 in sub8.instances:
        if i8["key"].startswith("ignore-bind/"):
            rep.ok("C15.R2", i8["key"], i8["where"], i8["detail"], nontrivial=False)
    for v8 in sub8.violations:
        if "/ignore-bind/" in v8["key"]:
            rep.bad("C15.R2", v8["key"].split("/", 1)[1], v8["where"], v8["msg"])
    rep.rule("C15.R3", "exactly one reply frame per BindRequest: Drop's reply is guarded by 'not yet replied' or reply consumes self")
    reply_bodies = []
    for b in crate.bodies:
        if b.j.get("impl_self", {}).get("adt") == BR and b.kind == "AssocFn":
            tr = Tracer(facts, b)
            sends = [bi for bi, t in b.calls() if is_queue_send(t) and (ctors_in(tr.operand(t["args"][1])) & {"new_finish", "new_reset"})]
            if sends and b.name != "drop":
                reply_bodies.append((b, tr, sends))
    drops = [b for b in crate.bodies if b.name == "drop" and b.j.get("impl_self", {}).get("adt") == BR]
    if not reply_bodies:
        rep.bad("C15.R3", "reply-fn", "", "no reply function on BindRequest (anchor missing)")
    # a fresh request has not been replied to: every bool / AtomicBool state field of BindRequest is initialised to false
    ninit = 0
    for ib, ibi, ist, ifields in struct_inits(facts, crate, BR):
        itr = Tracer(facts, ib)
        for fname, op in ifields.items():
            v = strip(itr.operand(op))
            if v.kind == "call" and v[6] == "new" and ("AtomicBool" in v[2] or "Atomic::<bool>" in v[2]):
                ninit += 1
                cv = const_eval(v[3][0]) if v[3] else None
                wi = "%s (%s)" % (loc_str(ist["loc"]), ib.path)
                if cv == 0:
                    rep.ok("C15.R3", "fresh-request-not-replied/%s" % fname, wi, "%s starts false" % fname)
                else:
                    rep.bad("C15.R3", "fresh-request-not-replied/%s" % fname, wi,
                            "a freshly received BindRequest is created with `%s` already set: reply() and Drop then send nothing and the peer's "
                            "request is never answered" % fname)
    rep.floor("C15.R3", "BindRequest state initialisers", ninit, 1)
    for rb, rtr, sends in reply_bodies:
        rep.analysed(rb)
        consumes = not rb.locals[1]["s"].startswith("&")
        # state written by reply
        writes = set()
        for bi, t in rb.calls():
            a = callee(t)
            if a and a["name"] in ("swap", "store", "fetch_or", "set", "replace", "compare_exchange", "take") and t["args"]:
                for x in walk(rtr.operand(t["args"][0])):
                    if x.kind == "field" and x[3] == BR:
                        writes.add(x[2])
        for blk in rb.blocks:
            for s in blk["stmts"]:
                if s["k"] == "Assign":
                    pr = s["lhs"].get("p") or []
                    if pr and isinstance(pr[-1], dict) and pr[-1].get("o") == BR:
                        writes.add(pr[-1]["f"])
        # (c) reply itself is idempotent: every emission dominated by the old-value-false edge of swap(true) on own state
        def once(g):
            pp = strip(g.pred)
            if g.kind == "bool" and pp.kind == "call" and pp[6] in ("swap", "fetch_or") and any(
                    x.kind == "field" and x[3] == BR for x in walk(pp)) and len(pp[3]) > 1 and const_eval(pp[3][1]) == 1:
                return {False}
            return None
        idempotent = all(edge_literals_dominating(facts, rb, rtr, sb, once) for sb in sends)
        if idempotent:
            rep.ok("C15.R3", "reply-idempotent", "%s (%s)" % (loc_str(rb.loc), rb.path), "every reply emission is dominated by swap(true) == false on the request's own flag")
        for d in drops:
            rep.analysed(d)
            dtr = Tracer(facts, d)
            for bi, t in d.calls():
                c = callee(t)
                if c and (c.get("res") or c["dp"]) == rb.dp:
                    where = "%s (%s)" % (loc_str(t["loc"]), d.path)

                    def guarded(g):
                        for x in walk(g.pred):
                            if x.kind == "field" and x[3] == BR and x[2] in writes:
                                return {True, False}
                        return None
                    doms = edge_literals_dominating(facts, d, dtr, bi, guarded)
                    if consumes or doms or idempotent:
                        rep.ok("C15.R3", "single-reply", where, "Drop replies only when no reply was sent")
                    else:
                        rep.bad("C15.R3", "BindRequest/drop-after-reply", where,
                                "`reply(&self)` queues Finish/Reset and `Drop` unconditionally queues another Reset: an accepted "
                                "(or explicitly rejected) bind is followed by a stray Reset on the same flow id, which cancels a "
                                "later request that reuses the id (exactly-once / independence of answers)")
    # necessity: a request that is dropped unanswered is answered `false` by Drop (otherwise the peer's request never resolves)
    answered = False
    for d in drops:
        dtr = Tracer(facts, d)
        rets = [x for x in range(len(d.blocks)) if d.term(x)["k"] == "Return"]
        for bi, t in d.calls():
            c = callee(t)
            is_reply = c and any((c.get("res") or c["dp"]) == rb.dp for rb, _rtr, _s in reply_bodies)
            is_reset = is_queue_send(t) and (ctors_in(dtr.operand(t["args"][1])) & {"new_reset"})
            if not (is_reply or is_reset):
                continue
            if is_reply and len(t["args"]) > 1 and const_eval(dtr.operand(t["args"][1])) != 0:
                continue
            escapes = any(r in d.reachable_from(0, cut={bi}) for r in rets)
            if escapes:
                # allowed only when every escaping path took a branch on the request's own 'replied' state
                def on_state(g):
                    for x in walk(g.pred):
                        if x.kind == "field" and x[3] == BR:
                            return {True, False}
                    return None
                if not edge_literals_dominating(facts, d, dtr, bi, on_state):
                    continue
            answered = True
            rep.ok("C15.R3", "drop-answers-unreplied", "%s (%s)" % (loc_str(t["loc"]), d.path), "an unanswered request is rejected when it is dropped")
    if reply_bodies and not answered:
        rep.bad("C15.R3", "drop-answers-unreplied", "%s" % (drops[0].path if drops else BR),
                "a BindRequest that the application drops without replying sends nothing to the peer: the peer's request_bind is never resolved "
                "(it must resolve exactly once, with `false` here) and its flow id stays occupied")
    if not drops:
        rep.ok("C15.R3", "no-drop-reply", "", "BindRequest has no Drop reply")

    rep.rule("C15.R4", "the bind-request queue is a bounded queue whose capacity is the configured bind_buffer_size")
    check_capacity_role(facts, rep, crate, "C15.R4", "BindRequest", "Options.bind_buffer_size", "bind-request queue")
    rep.rule("C15.R5", "only the stream handle (own id) and the multiplexor handle (0) report on the dropped-flows queue: the id of a resolved bind request is free for re-use and nothing closes it later")
    check_dropped_flow_senders(facts, rep, crate, "C15.R5")
    check_option_setters(facts, rep, crate, "C15.R4", ['bind_buffer_size'])
    rep.rule("C15.S1", "S1: every message taken off the outbound queue is handed to the WebSocket sink by the send loop (= C02.R2): the frames this property relies on are not dropped, deduplicated or reordered on the way out")
    import_outbound_queue_rule(facts, rep, tier, cfg, "C15.S1")
    import_constructor_rule(facts, rep, "C15.S9", ['new_bind', 'new_finish', 'new_reset'])
    rep.rule("C15.S7", "who-may: the functions that touch the critical resources behind this property are those of the reference tree (flow table, closed flag, per-stream / datagram / outbound queues, last-pong timestamp, client id maps, shared TLS identity)")
    import whomay
    whomay.check(facts, rep, "C15.S7", "C15")
    whomay.check_new_statics(facts, rep, "C15.S7", "C15")
    whomay.check_new_trait_methods(facts, rep, "C15.S7", "C15")
