"""C07 Stream opening: id discipline, guards, retries, roles."""
from an import (Tracer, guard_at, strip, strip_casts, walk, fmt, callee, const_eval, Inter)
from mir import loc_str
from muxcommon import *
import rules_c03, rules_c10
from effects import EffectEngine

EXPLANATION = (
    "(R1) The key inserted by the local allocator is the result of next_available_nonzero_key computed on the "
    "same write guard that performs the insert; (R2) the key generators leave their loop only on the edge "
    "key != 0 (non-zero variant) and contains_key(key) == false; (R3) the Connect reaction inserts only when the "
    "id is unused and non-zero and otherwise emits Reset with the same id and touches nothing (cells of the C10 "
    "reaction table); (R4) the open loop's counter starts at max_flow_id_retries, is decremented by one per "
    "iteration, exits to Err(FlowIdRejected) at zero, and each iteration performs exactly one allocation and one "
    "Connect emission; (R5) role provenance: Connect carries (host, port) of the caller, the allocator's id; the "
    "accepted stream's dest_host/dest_port/flow id come from the Connect payload's same-role fields; establish "
    "only replaces a Requested slot. Initial credit = advertised window is C03.R3/R4.")
EXPLANATION_ADDED = '(R6) initial credit / advertised window roles (=C03.R3/R4); (R7) the handshake Acknowledge is queued before the stream is handed to the accept queue; (R8) the accept queue is sized by stream_buffer_size.'
EXPLANATION_ADDED2 = " R7 also requires the Acknowledge's queue-send failure to be propagated before the hand-off."
EXPLANATION = EXPLANATION + " Added while testing against seeded changes: " + EXPLANATION_ADDED + EXPLANATION_ADDED2
EXPLANATION = EXPLANATION + ' Round 10: R8 also requires the stream-buffer and retry-count setters to store their argument.'
EXPLANATION = EXPLANATION + ' Rounds 12-13: R6 inherits the exactness clauses of C03.R3/R4 (initial credit = advertised window itself).'
EXPLANATION = EXPLANATION + " Rounds 14-15: R5 requires the Connect arguments to be the caller's host / port themselves; (S9) constructor exactness."
ASSUMPTIONS = ["rand produces arbitrary u32 values (collisions possible); RwLock write guard is exclusive"]
NOT_DECIDED = "simultaneous-open races between the two endpoints (interleaving dependent)"
THOROUGH_CONFIGS = ["mux-nodefault", "mux-nohash"]


def check_handoff(facts, rep, crate, rid):
    # the handshake Acknowledge is queued before the accepted stream is handed to the application
    rep.rule(rid, "acceptor: the Acknowledge emission dominates the (bounded, awaited) hand-off of the stream to the accept queue, and its "
                       "failure is propagated first (so a dead connection never waits on the application's accept loop)")
    k7 = 0
    for b in crate.bodies:
        handoffs = [bi for bi, t in b.calls() if callee(t) and callee(t)["name"] in ("send", "reserve", "send_timeout")
                    and "mpsc" in callee(t)["def"] and "Sender::<stream::MuxStream>" in callee(t)["path"]]
        if not handoffs:
            continue
        tr7 = Tracer(facts, b)
        acks = [bi for bi, t in b.calls() if is_queue_send(t) and "new_acknowledge" in ctors_in(tr7.operand(t["args"][1]))]
        for h in handoffs:
            k7 += 1
            where = "%s (%s)" % (loc_str(b.term(h)["loc"]), b.path)
            brs = [bi for bi, t in b.calls() if callee(t) and callee(t)["name"] == "branch" and
                   any(derives_from_call(tr7.operand(t["args"][0]), a) for a in acks)]
            if any(b.dominates(a, h) for a in acks) and not any(b.dominates(br, h) for br in brs):
                rep.bad(rid, "ack-failure-stops-handoff", where,
                        "the result of queueing the handshake Acknowledge is not propagated (`?`) before the stream is handed to the bounded accept "
                        "queue: while the connection winds down (outbound queue closed) a Connect still buffered in the source then waits on a full "
                        "accept queue forever, and no pending call is ever failed")
            elif any(b.dominates(a, h) for a in acks):
                rep.ok(rid, "ack-failure-stops-handoff", where, "a failed Acknowledge send returns before the hand-off")
            if any(b.dominates(a, h) for a in acks):
                rep.ok(rid, "ack-before-handoff", where, "Acknowledge queued on every path to the accept-queue send")
            else:
                rep.bad(rid, "ack-before-handoff", where,
                        "the accepted stream is handed to the (bounded) accept queue before the handshake Acknowledge is queued: the opener "
                        "waits for the acceptor's application to call accept, and during teardown the closed outbound queue no longer "
                        "short-circuits the wait on a full accept queue")
    rep.floor(rid, "accept-queue hand-off sites", k7, 1)


def check(facts, rep, tier, cfg):
    crate = facts.crate("penguin_mux")
    if crate is None:
        rep.bad("C07.R1", "crate", "", "penguin_mux facts missing")
        return
    inter = Inter(facts)
    # ---- R1
    rep.rule("C07.R1", "locally allocated flow ids come from next_available_nonzero_key under the inserting write guard")
    n = 0
    for b in crate.bodies:
        if "task::" in b.path:
            continue
        tr = None
        for bi, t in b.calls():
            c = callee(t)
            if c and c["name"] == "insert" and "HashMap" in c["def"] and "FlowSlot" in c["path"]:
                tr = tr or Tracer(facts, b)
                n += 1
                rep.analysed(b)
                where = "%s (%s)" % (loc_str(t["loc"]), b.path)
                key = strip(tr.operand(t["args"][1]))
                if key.kind == "call" and key[6] == "next_available_nonzero_key":
                    g1 = [x[4] for x in walk(key[3][0]) if x.kind == "call" and x[6] == "write"]
                    g2 = [x[4] for x in walk(tr.operand(t["args"][0])) if x.kind == "call" and x[6] == "write"]
                    if g1 and g1 == g2:
                        rep.ok("C07.R1", "%s/insert" % b.path, where, "key <- next_available_nonzero_key on the same write guard")
                    else:
                        rep.bad("C07.R1", "%s/insert" % b.path, where, "the id is generated and inserted under different lock acquisitions (another insertion can take the id in between)")
                else:
                    rep.bad("C07.R1", "%s/insert" % b.path, where, "locally inserted flow id is `%s`, not the result of next_available_nonzero_key (id 0 is reserved for 'multiplexor dropped')" % fmt(key)[:200])
    rep.floor("C07.R1", "local flow-table insertions", n, 1)
    # ---- R2
    rep.rule("C07.R2", "key generators exit only on key != 0 (nonzero variant) and !contains_key(key)")
    n = 0
    for b in crate.bodies:
        if b.name not in ("next_available_key", "next_available_nonzero_key") or b.kind != "AssocFn":
            continue
        n += 1
        rep.analysed(b)
        tr = Tracer(facts, b)
        where = "%s (%s)" % (loc_str(b.loc), b.path)
        exits = [bi for bi, blk in enumerate(b.blocks) for s in blk["stmts"] if s["k"] == "Assign" and s["lhs"]["l"] == 0 and not s["lhs"].get("p")]
        if not exits:
            rep.bad("C07.R2", b.name, where, "no result assignment found")
            continue
        ex = exits[0]
        key = strip(tr.local(0))

        def notin(g):
            p = strip(g.pred)
            if g.kind == "bool" and p.kind == "call" and p[6] == "contains_key" and strip(p[3][1]) == key:
                return {False}
            return None

        def nonzero(g):
            p = strip(g.pred)
            if g.kind == "bool" and p.kind == "call" and p[6] in ("ne", "eq") and strip(p[3][0]) == key:
                z = strip(p[3][1])
                if (z.kind == "call" and z[6] in ("into", "from") and const_eval(z[3][0]) == 0) or const_eval(z) == 0:
                    return {True} if p[6] == "ne" else {False}
            if g.kind == "bool" and p.kind == "bin" and p[1] in ("Ne", "Eq") and strip(p[2]) == key and const_eval(p[3]) == 0:
                return {True} if p[1] == "Ne" else {False}
            return None
        a = edge_literals_dominating(facts, b, tr, ex, notin)
        z = edge_literals_dominating(facts, b, tr, ex, nonzero)
        need_z = b.name == "next_available_nonzero_key"
        if a and (z or not need_z):
            rep.ok("C07.R2", b.name, where, "exit dominated by !contains_key(key)%s" % (" and key != 0" if need_z else ""))
        else:
            rep.bad("C07.R2", b.name, where, "generator can return a key that is %s" % ("already in the map" if not a else "zero"))
    rep.floor("C07.R2", "key generators", n, 2)
    # ---- R3 (cells of the reaction table)
    rep.rule("C07.R3", "Connect reaction: insert only if unused and non-zero; otherwise Reset, nothing touched (C10 table cells)")
    sub = type(rep)(rep.prop, rep.tier, rep.config)
    rules_c10.check(facts, sub, tier, cfg)
    rep.paths += sub.paths
    hits = [v for v in sub.violations if "Connect" in v["key"] or "Acknowledge/Requested" in v["key"]]
    for v in hits:
        rep.bad("C07.R3", v["key"].split("/", 1)[1], v["where"], v["msg"])
    for i in sub.instances:
        if "Connect" in i["key"] or "Acknowledge/Requested" in i["key"]:
            rep.ok("C07.R3", i["key"], i["where"], i["detail"])
    # ---- R4 retries
    rep.rule("C07.R4", "bounded retries: counter from max_flow_id_retries, -1 per iteration, exit at 0 to FlowIdRejected, one allocation + one Connect per iteration")
    n = 0
    for b, bi, t, tr, msg in queue_sends(facts, crate):
        if "new_connect" not in ctors_in(msg):
            continue
        n += 1
        rep.analysed(b)
        where = "%s (%s)" % (loc_str(t["loc"]), b.path)

        def pos(g):
            p = strip_casts(g.pred)
            if g.kind == "bool" and p.kind == "bin" and const_eval(p[3]) == 0 and any(
                    x.kind == "field" and x[2] == "max_flow_id_retries" for x in walk(p[2])):
                return {"Gt": {True}, "Ne": {True}, "Eq": {False}, "Le": {False}}.get(p[1])
            return None
        doms = edge_literals_dominating(facts, b, tr, bi, pos)
        if not doms:
            rep.bad("C07.R4", "retry-guard", where, "the Connect emission is not inside a loop guarded by `retries_left > 0` with retries_left initialised from max_flow_id_retries")
            continue
        gb = doms[0][0]
        g = guard_at(facts, b, tr, gb)
        exit_succ = [s for s, v in g.edges if v not in pos(g)][0]
        rej = [x for x in b.reachable_from(exit_succ, cut={gb}) for s in b.blocks[x]["stmts"]
               if s["k"] == "Assign" and s["rv"]["k"] == "Aggregate" and s["rv"]["agg"].get("variant") == "FlowIdRejected"]
        decs = []
        for x in range(len(b.blocks)):
            for s in b.blocks[x]["stmts"]:
                if s["k"] == "Assign" and s["rv"]["k"] == "BinaryOp" and s["rv"]["op"].startswith("Sub"):
                    v = tr.rvalue(s["rv"])
                    if const_eval(v[3]) == 1 and any(y.kind == "field" and y[2] == "max_flow_id_retries" for y in walk(v[2])):
                        decs.append(x)
        allocs = [x for x, t2 in b.calls() if callee(t2) and callee(t2)["name"] == "insert_new_flow" or
                  (callee(t2) and callee(t2)["name"] == "next_available_nonzero_key")]
        ok = bool(rej) and len(decs) == 1 and not in_cycle_without(b, bi, {gb}) and len(allocs) == 1 and \
            not in_cycle_without(b, allocs[0], {gb}) and b.reachable_from(b.succ[bi][0]) and gb in b.reachable_from(b.succ[bi][0]) \
            and all(gb in b.reachable_from(d) and b.dominates(gb, d) for d in decs)
        if ok:
            rep.ok("C07.R4", "bounded-retries", where, "loop: >0 guard, one decrement, one allocation, one Connect; exit -> FlowIdRejected")
        else:
            rep.bad("C07.R4", "bounded-retries", where,
                    "retry loop shape broken: exit-to-FlowIdRejected=%s decrements=%d allocations=%d (each iteration must take one "
                    "retry, allocate one id and send one Connect)" % (bool(rej), len(decs), len(allocs)))
    rep.floor("C07.R4", "Connect emissions", n, 1)
    # ---- R5 roles
    rep.rule("C07.R5", "roles: Connect(host, port, id<-allocator); accepted stream fields <- same-role payload fields; establish replaces only Requested")
    for b, bi, t, tr, msg in queue_sends(facts, crate):
        for cn in ctor_calls(msg, {"new_connect"}):
            where = "%s (%s)" % (loc_str(t["loc"]), b.path)
            host, port, idn = strip(inter.tracer(b).operand(b.term(cn[4])["args"][0])), strip(cn[3][1]), strip(cn[3][2])
            hn = rules_c03._flat_fields(inter.expand(b, cn[3][0]))
            idok = idn.kind == "call" and idn[6] in ("insert_new_flow", "next_available_nonzero_key")
            # host / port must be the caller's parameters (upvars named host / port)
            hp = [x for x in walk(cn[3][0]) if x.kind == "field" and x[2].isdigit()]
            names = set()
            for x in walk(cn[3][0]):
                if x.kind == "field" and x[2].isdigit() and strip(x[1]).kind == "param":
                    names.add(b.upvar_names.get(int(x[2])))
            pn = set()
            for x in walk(cn[3][1]):
                if x.kind == "field" and x[2].isdigit() and strip(x[1]).kind == "param":
                    pn.add(b.upvar_names.get(int(x[2])))
            from an import inexact_steps as _ix

            def _up(x):
                return (x.kind == "field" and x[2].isdigit() and strip(x[1]).kind == "param") or x.kind == "param"
            ixp = _ix(cn[3][1], _up, 16)
            ixh = _ix(cn[3][0], _up, None, extra_calls=("as_bytes", "as_ref", "deref"))
            if idok and names == {"host"} and pn == {"port"} and (ixp or ixh):
                rep.bad("C07.R5", "connect-args-exact", where,
                        "the Connect frame carries a %s computed from the caller's argument (`%s`), not the argument itself: the accepting "
                        "application does not see exactly the requested %s" % (("port", ixp[0], "port") if ixp else ("host", ixh[0], "host bytes")))
            elif idok and names == {"host"} and pn == {"port"}:
                rep.ok("C07.R5", "connect-args", where, "new_connect(host, port, id<-allocator, rwnd)")
            else:
                rep.bad("C07.R5", "connect-args", where, "Connect built from host=%s port=%s id=%s" % (sorted(names, key=str), sorted(pn, key=str), fmt(idn)[:80]))
    # constructor mapping
    for b in crate.bodies:
        if b.name == "new_connect" and b.kind == "AssocFn":
            tr = Tracer(facts, b)
            v = tr.local(0)
            m = {}
            for x in walk(v):
                if x.kind == "agg" and x[1] == "adt":
                    for f, val in x[3]:
                        sv = strip(val)
                        if sv.kind == "param":
                            m[f] = sv[2]
                        elif sv.kind == "agg":
                            for f2, v2 in sv[3]:
                                if strip(v2).kind == "param":
                                    m.setdefault(f, strip(v2)[2])
            want = {"id": "id", "rwnd": "rwnd", "target_port": "target_port", "target_host": "target_host"}
            where = "%s (%s)" % (loc_str(b.loc), b.path)
            if all(m.get(k) == v2 for k, v2 in want.items()):
                rep.ok("C07.R5", "new_connect-mapping", where, "each parameter lands in its own field")
            else:
                rep.bad("C07.R5", "new_connect-mapping", where, "constructor maps parameters to fields as %s" % m)
    MUX = "penguin_mux::stream::MuxStream"
    for b, bi, s, fields in struct_inits(facts, crate, MUX):
        where = "%s (%s)" % (loc_str(s["loc"]), b.path)
        ex = {f: rules_c03.top_roles(inter.expand(b, inter.tracer(b).operand(fields[f]))) for f in ("flow_id", "dest_host", "dest_port")}
        ok = ex["flow_id"] == {"Frame.id"} and ex["dest_host"] == {"ConnectPayload.target_host", "call:new"} and ex["dest_port"] == {"ConnectPayload.target_port", "const:0"}
        if ok:
            rep.ok("C07.R5", "stream-fields", where, "flow_id<-Frame.id, dest_host<-Connect.target_host, dest_port<-Connect.target_port")
        else:
            rep.bad("C07.R5", "stream-fields", where, "accepted stream fields come from %s" % {k: sorted(v) for k, v in ex.items()})
    for b in crate.bodies:
        if b.name == "establish" and b.j.get("impl_self", {}).get("adt") == "penguin_mux::FlowSlot":
            tr = Tracer(facts, b)
            for bi, t in b.calls():
                c = callee(t)
                if c and c["name"] == "replace":
                    where = "%s (%s)" % (loc_str(t["loc"]), b.path)
                    d = edge_literals_dominating(facts, b, tr, bi, lambda g: {"Requested"} if g.kind == "discr" and g.adt == "penguin_mux::FlowSlot" else None)
                    # matches! lowers to a flag; accept the flag guard whose true assignment is on the Requested edge
                    if not d:
                        for bb in range(len(b.blocks)):
                            if b.term(bb)["k"] == "SwitchInt":
                                g = guard_at(facts, b, tr, bb)
                                if g and g.kind == "discr" and g.adt == "penguin_mux::FlowSlot":
                                    req = [s2 for s2, v in g.edges if v == "Requested"]
                                    oth = [s2 for s2, v in g.edges if v != "Requested"]
                                    if req and oth and bi not in b.reachable_from(oth[0], cut={bb}) | set():
                                        # flag-based: check that on the non-Requested edge the flag is false
                                        d = [(bb, "Requested")]
                    rep.analysed(b)
                    ex2 = rules_establish_ok(facts, b, tr, bi)
                    if ex2:
                        rep.ok("C07.R5", "establish-only-requested", where, "replace reachable only when the slot is Requested")
                    else:
                        rep.bad("C07.R5", "establish-only-requested", where, "an Acknowledge can overwrite a slot that is not in the Requested state")
    check_handoff(facts, rep, crate, "C07.R7")
    # ---- R6 initial credit = the window the other side advertised (re-use of C03.R3/R4)
    rep.rule("C07.R6", "each side's initial send credit is the window carried by the peer's Connect / Acknowledge, and the window it "
                       "advertises is its own (= C03.R3/R4)")
    sub = type(rep)(rep.prop, rep.tier, rep.config)
    rules_c03.check_r3_r4(facts, sub, crate, Inter(facts))
    for i in sub.instances:
        rep.ok("C07.R6", i["key"], i["where"], i["detail"], nontrivial=False)
    for v in sub.violations:
        rep.bad("C07.R6", v["key"].split("/", 1)[1], v["where"], v["msg"])

    rep.rule("C07.R8", "the accept queue is a bounded queue whose capacity is the configured stream_buffer_size")
    check_capacity_role(facts, rep, crate, "C07.R8", "MuxStream", "Options.stream_buffer_size", "accept queue")
    check_option_setters(facts, rep, crate, "C07.R8", ['stream_buffer_size', 'max_flow_id_retries'])
    rep.rule("C07.S1", "S1: every message taken off the outbound queue is handed to the WebSocket sink by the send loop (= C02.R2): the frames this property relies on are not dropped, deduplicated or reordered on the way out")
    import_outbound_queue_rule(facts, rep, tier, cfg, "C07.S1")
    import_constructor_rule(facts, rep, "C07.S9", ['new_connect', 'new_acknowledge', 'new_reset'])
    rep.rule("C07.S7", "who-may: the functions that touch the critical resources behind this property are those of the reference tree (flow table, closed flag, per-stream / datagram / outbound queues, last-pong timestamp, client id maps, shared TLS identity)")
    import whomay
    whomay.check(facts, rep, "C07.S7", "C07")
    whomay.check_new_statics(facts, rep, "C07.S7", "C07")
    whomay.check_new_trait_methods(facts, rep, "C07.S7", "C07")


def rules_establish_ok(facts, b, tr, site):
    """Path-sensitive: with the const-store of the Explorer (matches! flag), the replace call is reached only
    from the Requested edge."""
    from an import Explorer
    guards = {bb: guard_at(facts, b, tr, bb) for bb in range(len(b.blocks)) if b.term(bb)["k"] == "SwitchInt"}

    def on_edge(bb, succ, auto, store):
        g = guards.get(bb)
        if g and g.kind == "discr" and g.adt == "penguin_mux::FlowSlot":
            vals = [v for s2, v in g.edges if s2 == succ]
            return "|".join(v for v in vals if v)
        return auto
    ex = Explorer(facts, b, on_edge=on_edge)
    ex.run(0, None)
    seen = set(st[2] for st in ex.seen if st[0] == site)
    return seen == {"Requested"}
