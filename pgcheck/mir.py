"""Fact loader and MIR model for pgcheck (stdlib only)."""
import json, os, re, sys
from collections import defaultdict


def place_str(p):
    s = "_%d" % p["l"]
    for e in p.get("p", []):
        if e == "*":
            s = "(*%s)" % s
        elif e == "opaque" or e == "unbind":
            s = "%s<%s>" % (s, e)
        elif "f" in e:
            s = "%s.%s" % (s, e["f"])
        elif "as" in e:
            s = "(%s as %s)" % (s, e["as"])
        elif "idx" in e:
            s = "%s[_%d]" % (s, e["idx"])
        elif "cidx" in e:
            s = "%s[%s%d]" % (s, "-" if e["end"] else "", e["cidx"])
        elif "sub" in e:
            s = "%s[%d..%s%d]" % (s, e["sub"][0], "-" if e["end"] else "", e["sub"][1])
    return s


def op_str(o):
    k = o["k"]
    if k in ("copy", "move"):
        return ("move " if k == "move" else "") + place_str(o["p"])
    if k == "const":
        if "fn" in o:
            return "fn " + o["fn"]["path"]
        return o["s"]
    return k


def rv_str(rv):
    k = rv["k"]
    if k == "Use":
        return op_str(rv["ops"][0])
    if k == "Ref":
        return ("&mut " if rv["mut"] else "&") + place_str(rv["place"])
    if k == "RawPtr":
        return "&raw " + place_str(rv["place"])
    if k == "Cast":
        return "%s as %s (%s)" % (op_str(rv["ops"][0]), rv["ty"]["s"], rv["ck"])
    if k == "BinaryOp":
        return "%s(%s, %s)" % (rv["op"], op_str(rv["ops"][0]), op_str(rv["ops"][1]))
    if k == "UnaryOp":
        return "%s(%s)" % (rv["op"], op_str(rv["ops"][0]))
    if k == "Discriminant":
        return "discriminant(%s)" % place_str(rv["place"])
    if k == "Aggregate":
        a = rv["agg"]
        ops = [op_str(o) for o in rv["ops"]]
        if a["a"] == "Adt":
            nm = a["adt"].split("::")[-1] + "::" + a["variant"]
            return "%s { %s }" % (nm, ", ".join("%s: %s" % (f, o) for f, o in zip(a["fields"], ops)))
        if a["a"] in ("Closure", "Coroutine", "CoroutineClosure"):
            return "{%s %s}(%s)" % (a["a"].lower(), a["def"], ", ".join(ops))
        return "%s(%s)" % (a["a"], ", ".join(ops))
    if k == "Repeat":
        return "[%s; %s]" % (op_str(rv["ops"][0]), rv["n"])
    return k


def loc_str(loc):
    if not loc:
        return "?"
    return "%s:%d" % (loc["f"], loc["l"])


def term_str(t):
    k = t["k"]
    if k == "Goto":
        return "goto -> bb%d" % t["t"]
    if k == "SwitchInt":
        return "switchInt(%s) -> [%s, otherwise: bb%d]" % (
            op_str(t["discr"]), ", ".join("%d: bb%d" % (v, b) for v, b in t["targets"]), t["otherwise"])
    if k == "Call":
        return "%s = %s(%s) -> %s" % (
            place_str(t["dest"]), op_str(t["func"]), ", ".join(op_str(a) for a in t["args"]),
            "bb%d" % t["t"] if t["t"] is not None else "!")
    if k == "Drop":
        return "drop(%s) -> bb%d" % (place_str(t["place"]), t["t"])
    if k == "Assert":
        return "assert(%s == %s, %s) -> bb%d" % (op_str(t["cond"]), t["expected"], t["msg"][:40], t["t"])
    if k == "Yield":
        return "yield(%s) -> bb%d" % (op_str(t["value"]), t["t"])
    if k == "FalseEdge":
        return "falseEdge -> bb%d (imag bb%d)" % (t["t"], t["imag"])
    if k == "FalseUnwind":
        return "falseUnwind -> bb%d" % t["t"]
    return k


NOISE_RE = re.compile(r"^m:[^:]*:(tracing|tracing_core|tracing_attributes|log)::|^m:[^:]*:.*__tracing|^m:tracing::")


def is_noise(loc):
    """True when the span comes from a logging macro expansion (tracing / log)."""
    if not loc:
        return False
    for e in loc.get("exp", ()):
        if NOISE_RE.search(e):
            return True
    return False


class Body:
    def __init__(self, crate, j):
        self.crate = crate
        self.j = j
        self.dp = j["dp"]
        self.path = j["path"]
        self.name = j.get("name", "")
        self.kind = j["kind"]
        self.parent = j.get("parent")
        self.blocks = j["blocks"]
        self.locals = j["locals"]
        self.argc = j["argc"]
        self.loc = j.get("loc")
        self._succ = None
        self._pred = None
        self._dom = None
        self._defs = None
        self.names = {}
        for d in j.get("dbg", []):
            p = d["p"]
            if not p.get("p"):
                self.names.setdefault(p["l"], d["name"])
        self.upvar_names = {}
        for d in j.get("dbg", []):
            p = d["p"]
            pr = p.get("p") or []
            # closure upvars: _1.N or (*_1).N (+ optional deref)
            if p["l"] == 1 and pr:
                for e in pr:
                    if isinstance(e, dict) and "f" in e:
                        self.upvar_names.setdefault(e["i"], d["name"])
                        break
        self._fill_upvar_names()

    def _fill_upvar_names(self):
        """`_k = _1.N` where `_k` carries a debug name: the name of upvar N (async fn arguments)."""
        for blk in self.blocks[:3]:
            for s in blk["stmts"]:
                if s["k"] == "Assign" and not s["lhs"].get("p") and s["rv"]["k"] == "Use":
                    o = s["rv"]["ops"][0]
                    if o["k"] in ("copy", "move") and o["p"]["l"] == 1:
                        pr = o["p"].get("p") or []
                        if len(pr) == 1 and isinstance(pr[0], dict) and "f" in pr[0]:
                            nm = self.names.get(s["lhs"]["l"])
                            if nm:
                                self.upvar_names.setdefault(pr[0]["i"], nm)

    @property
    def file(self):
        return self.loc["f"] if self.loc else "?"

    def ret_ty(self):
        return self.locals[0]["s"]

    # ---- CFG (normal flow: unwind/cleanup edges excluded) ----
    def term(self, bb):
        return self.blocks[bb]["term"]

    def succ_of_term(self, t):
        k = t["k"]
        if k in ("Goto", "Drop", "Assert", "FalseEdge", "FalseUnwind", "Yield"):
            return [t["t"]]
        if k == "SwitchInt":
            out = [b for _, b in t["targets"]]
            out.append(t["otherwise"])
            return out
        if k == "Call":
            return [t["t"]] if t["t"] is not None else []
        return []

    def _const_switch_target(self, blk):
        """`_x = const; switchInt(move _x)` in one block (cfg!(debug_assertions), `if false`): the only
        feasible successor, else None."""
        t = blk["term"]
        if t["k"] != "SwitchInt":
            return None
        d = t["discr"]
        if d["k"] == "const":
            v = d.get("v")
        elif d["k"] in ("copy", "move") and not d["p"].get("p"):
            l = d["p"]["l"]
            v = None
            for s in blk["stmts"]:
                if s["k"] == "Assign" and s["lhs"]["l"] == l and not s["lhs"].get("p"):
                    rv = s["rv"]
                    if rv["k"] == "Use" and rv["ops"][0]["k"] == "const" and "v" in rv["ops"][0]:
                        v = rv["ops"][0]["v"]
                    else:
                        v = None
        else:
            v = None
        if v is None:
            return None
        for val, b in t["targets"]:
            if val == v:
                return b
        return t["otherwise"]

    @property
    def succ(self):
        if self._succ is None:
            out = []
            for b in self.blocks:
                c = self._const_switch_target(b)
                out.append([c] if c is not None else self.succ_of_term(b["term"]))
            self._succ = out
        return self._succ

    @property
    def pred(self):
        if self._pred is None:
            p = [[] for _ in self.blocks]
            for i, ss in enumerate(self.succ):
                for s in ss:
                    if i not in p[s]:
                        p[s].append(i)
            self._pred = p
        return self._pred

    def reachable_from(self, start, cut=frozenset(), succ=None):
        """Blocks reachable from `start` (inclusive) without entering blocks in `cut`."""
        succ = succ or self.succ
        seen = set()
        st = [start] if start not in cut else []
        while st:
            b = st.pop()
            if b in seen:
                continue
            seen.add(b)
            for s in succ[b]:
                if s not in seen and s not in cut:
                    st.append(s)
        return seen

    @property
    def reach0(self):
        if getattr(self, "_reach0", None) is None:
            self._reach0 = self.reachable_from(0)
        return self._reach0

    @property
    def dom(self):
        """Immediate-dominator based dominator sets over normal-flow CFG (entry bb0)."""
        if self._dom is None:
            n = len(self.blocks)
            reach = self.reach0
            order = []
            seen = set()

            def dfs(b):
                stack = [(b, iter(self.succ[b]))]
                seen.add(b)
                while stack:
                    node, it = stack[-1]
                    adv = False
                    for s in it:
                        if s not in seen:
                            seen.add(s)
                            stack.append((s, iter(self.succ[s])))
                            adv = True
                            break
                    if not adv:
                        order.append(node)
                        stack.pop()
            dfs(0)
            rpo = list(reversed(order))
            idx = {b: i for i, b in enumerate(rpo)}
            idom = {0: 0}
            changed = True
            while changed:
                changed = False
                for b in rpo[1:]:
                    ps = [p for p in self.pred[b] if p in idom]
                    if not ps:
                        continue
                    new = ps[0]
                    for p in ps[1:]:
                        a, c = p, new
                        while a != c:
                            while idx[a] > idx[c]:
                                a = idom[a]
                            while idx[c] > idx[a]:
                                c = idom[c]
                        new = a
                    if idom.get(b) != new:
                        idom[b] = new
                        changed = True
            self._idom = idom
            self._dom = idom
        return self._dom

    def loop_headers_containing(self, bb):
        """Headers of the natural loops whose body contains block `bb` (a back edge p -> h with h dominating p, and `bb` reaches p
        without passing through h)."""
        out = set()
        pred = self.pred
        for h in range(len(self.blocks)):
            if not self.dominates(h, bb):
                continue
            backs = [p for p in pred[h] if self.dominates(h, p)]
            if not backs:
                continue
            reach = self.reachable_from(bb, cut={h}) if bb != h else set(range(len(self.blocks)))
            if any(p == bb or p in reach for p in backs):
                out.add(h)
        return out

    def dominates(self, a, b):
        """block a dominates block b"""
        idom = self.dom
        if b not in idom:
            return False
        while True:
            if a == b:
                return True
            if b == 0:
                return False
            b = idom[b]

    def edge_dominates(self, e, b):
        """edge (u,v) dominates block b: every path from entry to b uses edge u->v.
        Computed by removing the edge and testing reachability."""
        u, v = e
        succ = [list(s) for s in self.succ]
        succ[u] = [s for s in succ[u] if s != v]
        # multi-edges u->v (switch with several values to same target) are all removed
        return b not in self.reachable_from(0, succ=succ) and b in self.reach0

    # ---- defs ----
    @property
    def defs(self):
        """local -> list of (bb, idx|'term', kind, payload) for whole-local assignments;
        proj_defs: list for assignments through projections."""
        if self._defs is None:
            d = defaultdict(list)
            pd = defaultdict(list)
            for bi, b in enumerate(self.blocks):
                for si, s in enumerate(b["stmts"]):
                    if s["k"] == "Assign":
                        lhs = s["lhs"]
                        if lhs.get("p"):
                            pd[lhs["l"]].append((bi, si, s))
                        else:
                            d[lhs["l"]].append((bi, si, s))
                t = b["term"]
                if t["k"] == "Call":
                    lhs = t["dest"]
                    if lhs.get("p"):
                        pd[lhs["l"]].append((bi, "term", t))
                    else:
                        d[lhs["l"]].append((bi, "term", t))
                elif t["k"] == "Yield":
                    lhs = t["resume_arg"]
                    if not lhs.get("p"):
                        d[lhs["l"]].append((bi, "term", t))
            self._defs = d
            self._pdefs = pd
        return self._defs

    @property
    def pdefs(self):
        self.defs
        return self._pdefs

    def calls(self):
        """Call terminators of the blocks reachable from the entry over the pruned normal-flow CFG (code behind a constant-false
        condition, or only reachable by unwinding, does not count as present)."""
        live = self.reach0
        for bi, b in enumerate(self.blocks):
            t = b["term"]
            if t["k"] == "Call" and bi in live:
                yield bi, t

    def local_name(self, l):
        return self.names.get(l, "_%d" % l)

    def pretty(self, out=sys.stdout, quiet=True):
        out.write("fn %s  [%s] %s\n" % (self.path, self.dp, loc_str(self.loc)))
        for i, l in enumerate(self.locals):
            nm = self.names.get(i)
            out.write("  let _%d: %s%s\n" % (i, l["s"], "  // " + nm if nm else ""))
        for bi, b in enumerate(self.blocks):
            out.write(" bb%d%s:\n" % (bi, " (cleanup)" if b["cleanup"] else ""))
            for s in b["stmts"]:
                if quiet and is_noise(s.get("loc")):
                    continue
                if s["k"] == "Assign":
                    exp = s["loc"].get("exp")
                    out.write("    %s = %s   // %s%s\n" % (place_str(s["lhs"]), rv_str(s["rv"]), loc_str(s["loc"]),
                                                         " " + ",".join(e.split(":")[1] if e.startswith("m:") else e for e in exp) if exp else ""))
                elif s["k"] == "SetDiscriminant":
                    out.write("    discriminant(%s) = %d\n" % (place_str(s["lhs"]), s["v"]))
            t = b["term"]
            if quiet and is_noise(t["loc"]) and t["k"] != "SwitchInt" and len(self.succ[bi]) == 1:
                out.write("    ~> bb%d\n" % self.succ[bi][0])
                continue
            exp = t["loc"].get("exp")
            out.write("    %s   // %s%s\n" % (term_str(t), loc_str(t["loc"]),
                                              " " + ",".join(e.split(":")[1] if e.startswith("m:") else e for e in exp) if exp else ""))


class Crate:
    def __init__(self, j):
        self.j = j
        self.name = j["crate"]
        self.features = j["features"]
        self.bodies = [Body(self, b) for b in j["bodies"]]
        self.by_dp = {b.dp: b for b in self.bodies}
        self.adts = {a["dp"]: a for a in j["adts"]}
        self.consts = {c["dp"]: c for c in j["consts"]}
        self.children = defaultdict(list)
        for b in self.bodies:
            if b.parent:
                self.children[b.parent].append(b)

    def find(self, pat):
        r = re.compile(pat)
        return [b for b in self.bodies if r.search(b.path)]


class Facts:
    def __init__(self, directory, text_filter=None):
        self.dir = directory
        self.crates = {}
        for fn in sorted(os.listdir(directory)):
            if fn.endswith(".json"):
                with open(os.path.join(directory, fn)) as f:
                    if text_filter is None:
                        j = json.load(f)
                    else:
                        j = json.loads(text_filter(f.read()))
                self.crates[j["crate"]] = Crate(j)
        self.by_dp = {}
        self.adts = {}
        for c in self.crates.values():
            self.by_dp.update(c.by_dp)
            for k, a in c.adts.items():
                if k not in self.adts or a["local"]:
                    self.adts[k] = a

    def crate(self, name):
        return self.crates.get(name)

    def all_bodies(self):
        for c in self.crates.values():
            for b in c.bodies:
                yield b


if __name__ == "__main__":
    f = Facts(sys.argv[1])
    pat = sys.argv[2]
    for c in f.crates.values():
        for b in c.find(pat):
            b.pretty()
