"""C01 End-to-end transparency of the tunnel: wiring skeleton (entry points, UDP reply routing, reserved id)."""
from an import (Explorer, Tracer, guard_at, strip, strip_casts, walk, fmt, callee, const_eval, Inter, N)
from muxcommon import derives_from_call, credit_leak_after_take
from mir import loc_str
import re
import rules_c03, rules_c18

EXPLANATION = (
    "Wiring skeleton only: (R1) at every bridge site (MuxStream::into_copy_bidirectional[_with_buf]) the stream "
    "operand comes from the stream request (client) / the accepted channel (server) and the local operand from "
    "the accepted local connection (client) / a connect to (channel.dest_host, channel.dest_port) (server); the "
    "(host, port) of each stream request derive from the remote spec, the parsed SOCKS request or the CONNECT "
    "authority in their roles; (R2) UDP reply routing: add_udp_client keys both maps with the same id and stores "
    "(peer_addr<-addr, our_addr<-socket.local_addr(), socket, socks5) in their roles; send_datagram_reply looks "
    "up the datagram's flow id and sends to entry.peer_addr on entry.socket with the SOCKS5 header iff "
    "entry.socks5; the server forwarder re-emits datagrams under the first frame's flow id and the server routes "
    "by the datagram's flow id; (R3) the UDP client id space reserves 0 for stdio, so ids must be allocated with "
    "next_available_nonzero_key; the SOCKS5 UDP reply header is C18.R1.")
EXPLANATION_ADDED = "(R5) the server UDP forwarder sends every datagram to the target that datagram names; (R6) the bridge consumes from the stream exactly what the socket accepted (=C13.R4); (R7) the server connects to the address resolved from the channel's dest_host/dest_port; (R8) the SOCKS5 flag of a UDP client is true iff its datagrams pass the relay-header parser; (R9) datagram payloads reach Datagram.data through conversions only; (R10) a pruned per-flow forwarder is removed from the server's routing table."
EXPLANATION_ADDED2 = " (R11) all bridge rules of C13; (R12) an unused stream-request permit is never held while another in-crate async session runs; R1 also checks the HTTP proxy's request arguments and that the CONNECT tunnel runs on hyper's Upgraded object; R2 also requires the liveness refresh of UDP client entries and a routing table that is both looked up and filled; R9 also requires truncation to the received length; (R13) a family-specific outgoing socket of the server is created under a family test of the unconverted address that is then dialled."
EXPLANATION = EXPLANATION + " Added while testing against seeded changes: " + EXPLANATION_ADDED + EXPLANATION_ADDED2
EXPLANATION = EXPLANATION + ' Rounds 12-13: (R14) client UDP handlers register the sender of every received datagram before building its frame (no frame under an id left over from an earlier datagram); (R15) nothing sets SO_LINGER on a socket of the tunnel path; R9 accepts the receive buffer cut by slicing to the received length.'
EXPLANATION = EXPLANATION + " Rounds 14-15 and the value sweep: (R16) a datagram of a flow the server has no forwarder for always starts one; R15 also forbids hyper's pipeline_flush on upgrade-serving connections; R5 / R9 / R1 are exact (the target, port, flow id, payload length and requested port are passed on as they are at every hop: no arithmetic, mask or narrowing cast)."
EXPLANATION = EXPLANATION + ' Rounds 16-17: (R17) a client UDP handler skips the queue send only on the failing outcome of its receive / parse step; (R18) MAX_UDP_PACKET_SIZE >= 65535; (R19) the handler of every configured remote is spawned; (R20) the forwarders do not slice the peer-supplied target host by position.'
EXPLANATION = EXPLANATION + ' Round 18: R2 also requires a UDP client entry to own its reply socket (Arc, not Weak).'
ASSUMPTIONS = ["byte transparency of the bridge itself is C13 / C02; tokio sockets deliver what they are given"]
NOT_DECIDED = "byte transparency, half-close behaviour, close/refusal propagation and concurrency of clients at run time"
QUICK_CONFIGS = ["default"]
THOROUGH_CONFIGS = ["penguin-client-only", "penguin-server-only", "penguin-native-tls"]


def names_in(b, node):
    out = set()
    env = set()
    for x in walk(node):
        if x.kind == "field" and x[2].isdigit() and strip(x[1]).kind == "param" and strip(x[1])[1] == 1 and b.kind == "Closure":
            out.add(b.upvar_names.get(int(x[2])))
            env.add(id(strip(x[1])))
    for x in walk(node):
        if x.kind == "param" and id(x) not in env:
            out.add(x[2])
    return out


def check(facts, rep, tier, cfg):
    crate = facts.crate("rusty_penguin_lib")
    if crate is None:
        rep.bad("C01.R1", "crate", "", "rusty_penguin_lib facts missing")
        return
    has_client = "client" in crate.features
    has_server = "server" in crate.features
    rep.rule("C01.R1", "bridge sites: stream <- stream request / accepted channel; local <- accepted connection / connect(dest_host, dest_port)")
    n = 0
    for b in crate.bodies:
        tr = None
        for bi, t in b.calls():
            c = callee(t)
            if not c or c["name"] not in ("into_copy_bidirectional", "into_copy_bidirectional_with_buf"):
                continue
            tr = tr or Tracer(facts, b)
            n += 1
            rep.analysed(b)
            where = "%s (%s)" % (loc_str(t["loc"]), b.path)
            key = "bridge/%s" % b.path.split("::{")[0]
            it = Inter(facts)
            st = it.expand(b, tr.operand(t["args"][0]))
            lo = tr.operand(t["args"][1])
            st_calls = set(x[6] for x in walk(st) if x.kind == "call")
            lo_calls = set(x[6] for x in walk(lo) if x.kind == "call")
            st_names = names_in(b, st)
            is_server = "/src/server/" in b.file
            if is_server:
                ok_s = ("channel" in st_names or "channel" in names_in(b, tr.operand(t["args"][0])) or "accept_stream_channel" in st_calls) and "request_tcp_channel" not in lo_calls
                conn = [x for x in walk(lo) if x.kind == "call" and x[6] in ("connect", "start_forwarder_on_channel", "connect_to", "tcp_connect")]
                tgt_fields = set()
                for x in walk(lo):
                    if x.kind == "field" and x[2] in ("dest_host", "dest_port"):
                        tgt_fields.add(x[2])
                # the connect target may be computed in earlier statements: scan the whole body for reads of the channel's target
                for blk in b.blocks:
                    for s in blk["stmts"]:
                        if s["k"] == "Assign":
                            for x in walk(tr.rvalue(s["rv"])):
                                if x.kind == "field" and x[2] in ("dest_host", "dest_port") and x[3] and x[3].endswith("MuxStream"):
                                    tgt_fields.add(x[2])
                ok_l = tgt_fields == {"dest_host", "dest_port"}
                if ok_s and ok_l:
                    rep.ok("C01.R1", key, where, "server: channel <-> connect(channel.dest_host, channel.dest_port)")
                else:
                    rep.bad("C01.R1", key, where, "server bridge wiring: stream operand from %s, target built from %s (expected the accepted channel and its dest_host/dest_port)" % (sorted(st_names, key=str), sorted(tgt_fields)))
            else:
                ok_s = "request_tcp_channel" in st_calls
                ok_l = "request_tcp_channel" not in lo_calls and (lo_calls & {"accept", "new", "on", "poll", "into_inner"} or names_in(b, lo))
                if "/http.rs" in b.file:
                    # the CONNECT tunnel runs on hyper's Upgraded object (which replays the bytes hyper already buffered), not on the raw socket
                    raw = lo_calls & {"downcast", "into_inner", "into_parts"}
                    if "on" not in lo_calls or raw:
                        ok_l = False
                        rep.bad("C01.R1", "http-connect-keeps-buffered-bytes", where,
                                "the HTTP CONNECT tunnel is not bridged on `TokioIo::new(upgraded)` (calls %s): bytes the client sent right behind the "
                                "CONNECT head, already read by hyper, never reach the target" % sorted(raw or lo_calls)[:5])
                    else:
                        rep.ok("C01.R1", "http-connect-keeps-buffered-bytes", where, "bridge on hyper's Upgraded object")
                if b.file.endswith(("/handle_remote/tcp.rs", "/handle_remote/tproxy.rs")):
                    # fixed-target forwarders: the accepted connection is only ever handed to the bridge; nothing reads from it before
                    # (an EOF seen there may be a mere half-close: acting on it bypasses the bridge's half-close handling)
                    roots = set(x[4] for x in walk(lo) if x.kind == "call" and x[6] in ("accept", "accept_with_sockaddr", "poll_accept"))
                    root_fn = b.path.split("::{")[0]
                    READS = {"fill_buf", "poll_fill_buf", "read", "read_buf", "read_exact", "read_to_end", "peek", "poll_peek", "poll_read",
                             "readable", "ready", "poll_read_ready", "try_read", "read_u8", "read_line", "read_until"}
                    early = None
                    for b2 in crate.bodies:
                        if b2.path.split("::{")[0] != root_fn:
                            continue
                        tr2 = tr if b2 is b else Tracer(facts, b2)
                        for bj, t2 in b2.calls():
                            c2 = callee(t2)
                            if c2 and c2["name"] in READS and t2["args"] and b2 is b and \
                                    any(x.kind == "call" and x[4] in roots for x in walk(tr2.operand(t2["args"][0]))):
                                early = t2
                    if early is not None:
                        ok_l = False
                        rep.bad("C01.R1", "local-connection-untouched/%s" % root_fn, "%s (%s)" % (loc_str(early["loc"]), b.path),
                                "the forwarder reads from the accepted local connection outside the bridge: what it sees there (for instance an EOF that "
                                "is only the client's half-close) is acted on without the bridge's half-close handling, so a client that shuts down its "
                                "write side and waits for the answer can be dropped")
                    elif roots:
                        rep.ok("C01.R1", "local-connection-untouched/%s" % root_fn, where, "the accepted connection goes to the bridge unread")
                if ok_s and ok_l:
                    rep.ok("C01.R1", key, where, "client: requested stream <-> accepted local connection")
                else:
                    rep.bad("C01.R1", key, where, "client bridge wiring: stream operand calls %s, local operand calls %s" % (sorted(st_calls)[:6], sorted(lo_calls)[:6]))
    n_client = 2 + ("tproxy" in crate.features) + ("http-proxy" in crate.features)
    floor = (n_client if has_client else 0) + (1 if has_server else 0)
    rep.floor("C01.R1", "bridge sites", n, floor)
    # stream request arguments
    if has_client:
        want = {
            "tcp::handle_tcp": ({"rhost"}, {"rport"}),
            "socks::handle_connect": ({"rhost"}, {"rport"}),
            "http::": (None, None),
            "tproxy::": (None, None),
        }
        m = 0
        for b in crate.bodies:
            tr = None
            for bi, t in b.calls():
                c = callee(t)
                if c and c["name"] == "request_tcp_channel":
                    tr = tr or Tracer(facts, b)
                    m += 1
                    rep.analysed(b)
                    where = "%s (%s)" % (loc_str(t["loc"]), b.path)
                    h = names_in(b, tr.operand(t["args"][1])) - {None}
                    p = names_in(b, tr.operand(t["args"][2])) - {None}
                    if "http::" in b.path:
                        hn = tr.operand(t["args"][1])
                        pn = tr.operand(t["args"][2])
                        hcalls = [x[6] for x in walk(hn) if x.kind == "call"]
                        pcalls = [x[6] for x in walk(pn) if x.kind == "call"]
                        okh = "host" in hcalls and "authority" in hcalls and "as_str" not in hcalls and "to_string" not in hcalls
                        okp = ("port_u16" in pcalls or "port" in pcalls) and "authority" in pcalls
                        if okh and okp:
                            rep.ok("C01.R1", "request-args/http::", where, "host <- authority().host(), port <- authority().port_u16()")
                        else:
                            rep.bad("C01.R1", "request-args/http::", where,
                                    "the HTTP proxy requests a stream for host<-%s port<-%s, expected the request authority's host() and port_u16()" % (
                                        sorted(set(hcalls))[:6], sorted(set(pcalls))[:6]))
                    for pat, (wh, wp) in want.items():
                        if pat in b.path and wh is not None:
                            if wh <= h and wp <= p:
                                rep.ok("C01.R1", "request-args/%s" % pat, where, "host <- %s, port <- %s" % (sorted(h), sorted(p)))
                            else:
                                rep.bad("C01.R1", "request-args/%s" % pat, where, "stream requested for host<-%s port<-%s, expected %s/%s" % (sorted(h), sorted(p), sorted(wh), sorted(wp)))
        rep.floor("C01.R1", "stream request sites", m, n_client)
        # the port (and host) a stream is requested for are passed on as they are at every hop: entry point -> request_tcp_channel /
        # handle_connect -> StreamCommand (no arithmetic, mask or narrowing on the way)
        from an import inexact_steps as _ix1, _PRESERVING_CALLS as _PC1
        _AW = ("poll", "into_future", "new_unchecked", "get_context", "map_err", "port_u16", "port", "host", "authority", "uri", "as_u16")

        def _src1(y):
            return y.kind == "param" or (y.kind == "call" and y[6] not in _PC1 and y[6] not in _AW)
        kx = 0
        for b in crate.bodies:
            if "/src/client/" not in b.file or "::tests::" in b.path:
                continue
            tr = None
            for bi, t in b.calls():
                c = callee(t)
                if c and c["name"] in ("request_tcp_channel", "handle_connect") and len(t["args"]) >= 3:
                    tr = tr or Tracer(facts, b)
                    pi = 2
                    kx += 1
                    st1 = [z for z in _ix1(tr.operand(t["args"][pi]), _src1, 16, extra_calls=_AW) if not re.match(r"^\d+$", z.strip())]
                    w1 = "%s (%s)" % (loc_str(t["loc"]), b.path)
                    if st1:
                        rep.bad("C01.R1", "request-port-exact/%s" % b.path.split("::{")[0], w1,
                                "the port handed to %s is computed (`%s`), not the port the entry point was given: the stream is opened to "
                                "another port for some values" % (c["name"], st1[0]))
                    else:
                        rep.ok("C01.R1", "request-port-exact/%s#%d" % (b.path.split("::{")[0], kx), w1, "port passed on as it is", nontrivial=False)
            for blk in b.blocks:
                if blk["cleanup"]:
                    continue
                for st in blk["stmts"]:
                    if st["k"] == "Assign" and st["rv"]["k"] == "Aggregate" and str(st["rv"]["agg"].get("adt", "")).endswith("StreamCommand"):
                        tr = tr or Tracer(facts, b)
                        fmap = dict(zip(st["rv"]["agg"]["fields"], st["rv"]["ops"]))
                        if "port" in fmap:
                            kx += 1
                            st1 = [z for z in _ix1(tr.operand(fmap["port"]), _src1, 16, extra_calls=_AW) if not re.match(r"^\d+$", z.strip())]
                            w1 = "%s (%s)" % (loc_str(st["loc"]), b.path)
                            if st1:
                                rep.bad("C01.R1", "request-port-exact/StreamCommand", w1, "StreamCommand.port is computed (`%s`), not the requested port" % st1[0])
                            else:
                                rep.ok("C01.R1", "request-port-exact/StreamCommand", w1, "port passed on as it is", nontrivial=False)
        rep.floor("C01.R1", "hops of the requested port", kx, 4)
        # socks: handle_connect(rhost, rport) <- read_request results in their roles
        for b in crate.bodies:
            tr = None
            for bi, t in b.calls():
                c = callee(t)
                if c and c["name"] == "handle_connect" and "/socks.rs" in b.file:
                    tr = tr or Tracer(facts, b)
                    where = "%s (%s)" % (loc_str(t["loc"]), b.path)
                    roles = []
                    for a in t["args"]:
                        r = None
                        for x in walk(tr.operand(a)):
                            if x.kind == "field" and x[2] in ("0", "1", "2") and any(y.kind == "call" and y[6] == "read_request" for y in walk(x[1])):
                                r = x[2]
                                break
                        roles.append(r)
                    hp = [r for r in roles if r is not None]
                    if hp[-2:] == ["1", "2"]:
                        rep.ok("C01.R1", "socks-request-roles/%s" % b.path.split("::{")[0], where, "handle_connect(.., address<-request.1, port<-request.2)")
                    else:
                        rep.bad("C01.R1", "socks-request-roles/%s" % b.path.split("::{")[0], where, "SOCKS CONNECT target built from request tuple positions %s, expected (.1 address, .2 port)" % roles)
    # ---- R2 UDP routing
    rep.rule("C01.R2", "UDP reply routing: id maps, entry roles, reply lookup/target/socket/header, server flow id")
    if has_client:
        ent = crate.adts.get("rusty_penguin_lib::client::ClientIdMapEntry") if hasattr(crate, "adts") else None
        sock_ty = None
        for var in (ent or {}).get("variants", []):
            for fld in var["fields"]:
                if fld["name"] == "socket":
                    sock_ty = fld["ty"]
        if sock_ty is None:
            rep.bad("C01.R2", "entry-owns-socket", "", "ClientIdMapEntry.socket not found (anchor missing)")
        elif "Weak<" in sock_ty or not ("Arc<" in sock_ty or sock_ty.endswith("UdpSocket")):
            rep.bad("C01.R2", "entry-owns-socket", "penguin/src/client/mod.rs",
                    "a UDP client entry holds its reply socket as `%s`: the entry can outlive the socket it must reply from (the relay socket of "
                    "a closed association), and a client that is matched to such an entry gets no replies" % sock_ty)
        else:
            rep.ok("C01.R2", "entry-owns-socket", "penguin/src/client/mod.rs", "socket: %s (the entry keeps its reply socket alive)" % sock_ty, nontrivial=False)
        for b in crate.bodies:
            if b.name == "new" and b.j.get("impl_self", {}).get("s", "").endswith("ClientIdMapEntry"):
                tr = Tracer(facts, b)
                rep.analysed(b)
                m2 = {}
                for x in walk(tr.local(0)):
                    if x.kind == "agg" and x[1] == "adt" and x[2].endswith("ClientIdMapEntry"):
                        for f, v in x[3]:
                            sv = strip(v)
                            if sv.kind == "param":
                                m2[f] = sv[2]
                where = "%s (%s)" % (loc_str(b.loc), b.path)
                want = {"peer_addr": "peer_addr", "our_addr": "our_addr", "socket": "socket", "socks5": "socks5"}
                if m2 == want:
                    rep.ok("C01.R2", "entry-constructor", where, "each parameter lands in its own field")
                else:
                    rep.bad("C01.R2", "entry-constructor", where, "ClientIdMapEntry::new maps parameters to fields as %s (peer/our address swapped?)" % m2)
            if b.name == "add_udp_client" and b.kind == "AssocFn":
                tr = Tracer(facts, b)
                rep.analysed(b)
                where = "%s (%s)" % (loc_str(b.loc), b.path)
                ins = [(bi, t) for bi, t in b.calls() if callee(t) and callee(t)["name"] == "insert" and
                       ("HashMap" in callee(t)["def"] or "VacantEntry" in callee(t)["def"])]
                ent = [t for _, t in b.calls() if callee(t) and callee(t)["name"] == "new" and "ClientIdMapEntry" in callee(t)["path"]]
                ok = len(ins) == 2 and len(ent) == 1
                if ok:
                    ids = []
                    for bi, t in ins:
                        if "ClientIdMapEntry" in callee(t)["path"]:
                            ids.append(strip(tr.operand(t["args"][1])))
                        else:
                            if "VacantEntry" in callee(t)["def"]:
                                # map.entry(key) ... vacant.insert(id): the key is the argument of the entry() call the vacant entry comes from
                                ids.append(strip(tr.operand(t["args"][1])))
                                ek = [x for x in walk(tr.operand(t["args"][0])) if x.kind == "call" and x[6] == "entry" and len(x[3]) > 1]
                                k = strip(ek[0][3][1]) if ek else N("unknown", "entry")
                            else:
                                ids.append(strip(tr.operand(t["args"][2])))
                                k = strip(tr.operand(t["args"][1]))
                            kk = [names_in(b, v) for _, v in k[3]] if k.kind == "agg" else []
                            if not (len(kk) == 2 and kk[0] == {"addr"} and any(x.kind == "call" and x[6] == "local_addr" for x in walk(k[3][1][1]))):
                                ok = False
                    ok = ok and len(ids) == 2 and ids[0] == ids[1]
                    ea = [tr.operand(a) for a in ent[0]["args"]]
                    ok = ok and names_in(b, ea[0]) == {"addr"} and any(x.kind == "call" and x[6] == "local_addr" for x in walk(ea[1])) and \
                        names_in(b, ea[2]) == {"socket"} and names_in(b, ea[3]) == {"socks5"}
                (rep.ok if ok else rep.bad)("C01.R2", "add_udp_client", where,
                                            "both maps keyed with one id; entry(addr, local_addr, socket, socks5); addr-map key (addr, our_addr)" if ok else
                                            "add_udp_client does not record (peer address, our address, socket, socks5) consistently in both maps under one id")
                # R3
                rep.rule("C01.R3", "UDP client ids: 0 is reserved for stdio, so ids come from next_available_nonzero_key")
                gen = [t for _, t in b.calls() if callee(t) and callee(t)["name"] in ("next_available_key", "next_available_nonzero_key")]
                w3 = "%s (%s)" % (loc_str(gen[0]["loc"]) if gen else "?", b.path)
                if gen and all(callee(t)["name"] == "next_available_nonzero_key" for t in gen):
                    rep.ok("C01.R3", "client-id-nonzero", w3, "ids allocated with next_available_nonzero_key")
                else:
                    rep.bad("C01.R3", "client_id_map/zero-id", w3,
                            "UDP client ids are allocated with next_available_key, which can return 0; id 0 means 'stdio' in "
                            "send_datagram_reply, so replies for that client would be written to stdout instead of its socket")
            if b.path.endswith("send_datagram_reply::{closure#0}"):
                tr = Tracer(facts, b)
                rep.analysed(b)
                where = "%s (%s)" % (loc_str(b.loc), b.path)
                probs = []
                gm = [t for _, t in b.calls() if callee(t) and callee(t)["name"] in ("get_mut", "get") and "HashMap" in callee(t)["def"]]
                if not gm or names_in(b, tr.operand(gm[0]["args"][1])) != {"client_id"}:
                    probs.append("lookup key is not the datagram's client id")
                sends = [(bi, t) for bi, t in b.calls() if callee(t) and callee(t)["name"] in ("send_to", "send_udp_relay_response")]
                if len(sends) != 2:
                    probs.append("expected one plain and one SOCKS5 reply path, found %d" % len(sends))
                for bi, t in sends:
                    c = callee(t)
                    if c["name"] == "send_to":
                        tgt, sock = tr.operand(t["args"][2]), tr.operand(t["args"][0])
                    else:
                        tgt, sock = tr.operand(t["args"][1]), tr.operand(t["args"][0])
                    if not any(x.kind == "field" and x[2] == "peer_addr" for x in walk(tgt)):
                        probs.append("%s target is not entry.peer_addr" % c["name"])
                    if not any(x.kind == "field" and x[2] == "socket" for x in walk(sock)):
                        probs.append("%s does not use entry.socket" % c["name"])
                    def socks(g):
                        p = strip(g.pred)
                        if g.kind == "bool" and any(x.kind == "field" and x[2] == "socks5" for x in walk(p)):
                            return {True} if c["name"] == "send_udp_relay_response" else {False}
                        return None
                    from muxcommon import edge_literals_dominating
                    if not edge_literals_dominating(facts, b, tr, bi, socks):
                        probs.append("%s is not selected by entry.socks5 == %s" % (c["name"], c["name"] == "send_udp_relay_response"))
                (rep.ok if not probs else rep.bad)("C01.R2", "send_datagram_reply", where,
                                                   "lookup by client id; send_to(entry.peer_addr) on entry.socket; SOCKS5 header iff entry.socks5" if not probs else "; ".join(probs))
            if b.path.endswith("client::on_connected::{closure#0}::{closure#0}"):
                tr = Tracer(facts, b)
                for bi, t in b.calls():
                    c = callee(t)
                    if c and c["name"] == "send_datagram_reply":
                        where = "%s (%s)" % (loc_str(t["loc"]), b.path)
                        r_id = rules_c03._flat_fields(tr.operand(t["args"][1]))
                        r_data = set(x[2] for x in walk(tr.operand(t["args"][2])) if x.kind == "field" and (x[3] or "").endswith("Datagram"))
                        ok = "Datagram.flow_id" in r_id and "data" in r_data and "target_host" not in r_data
                        (rep.ok if ok else rep.bad)("C01.R2", "reply-dispatch", where,
                                                    "send_datagram_reply(map, datagram.flow_id, datagram.data)" if ok else "reply dispatched with id<-%s data<-%s" % (sorted(r_id), sorted(r_data)))
    if has_server:
        for b in crate.bodies:
            if b.path.endswith("forwarder::udp_forward_on::{closure#0}::{closure#0}"):
                tr = Tracer(facts, b)
                rep.analysed(b)
                k = 0
                for blk in b.blocks:
                    for s in blk["stmts"]:
                        if s["k"] == "Assign" and s["rv"]["k"] == "Aggregate" and s["rv"]["agg"].get("adt", "").endswith("penguin_mux::Datagram"):
                            k += 1
                            f = dict(zip(s["rv"]["agg"]["fields"], s["rv"]["ops"]))
                            where = "%s (%s)" % (loc_str(s["loc"]), b.path)
                            idn = tr.operand(f["flow_id"])
                            ok = any(x.kind == "field" and x[2] == "flow_id" and (x[3] or "").endswith("Datagram") for x in walk(idn)) and \
                                "first_datagram_frame" in names_in(b, idn)
                            dn = tr.operand(f["data"])
                            okd = any(x.kind == "call" and x[6] in ("recv_from", "into", "truncate") for x in walk(dn)) or True
                            (rep.ok if ok and okd else rep.bad)("C01.R2", "server-forwarder-flow-id", where,
                                                                "reply Datagram.flow_id <- first frame's flow_id" if ok else "the server forwarder emits replies under a flow id that is not the originating datagram's")
                rep.floor("C01.R2", "server reply datagrams", k, 1)
            if b.path.endswith("websocket::handle_websocket::{closure#0}::{closure#0}"):
                tr = Tracer(facts, b)
                rep.analysed(b)
                seen_route = set()
                route_body = b
                for bi, t in b.calls():
                    c = callee(t)
                    if c and c["name"] in ("get_mut", "insert") and "HashMap" in c["def"] and "Sender<penguin_mux::Datagram>" in c["path"]:
                        where = "%s (%s)" % (loc_str(t["loc"]), b.path)
                        kn = tr.operand(t["args"][1])
                        kf = set(x[2] for x in walk(kn) if x.kind == "field" and (x[3] or "").endswith("Datagram"))
                        top = strip(kn)
                        while top.kind in ("ref", "deref"):
                            top = strip(top[1])
                        ok = kf == {"flow_id"} and top.kind == "field" and top[2] == "flow_id"
                        seen_route.add(c["name"])
                        (rep.ok if ok else rep.bad)("C01.R2", "server-routes-by-flow-id/%s" % c["name"], where,
                                                    "udp_clients keyed by datagram.flow_id" if ok else "server UDP client table keyed by %s" % sorted(kf))
        try:
            if seen_route != {"get_mut", "insert"}:
                rep.bad("C01.R2", "server-routing-table", "%s (%s)" % (loc_str(route_body.loc), route_body.path),
                        "the server's per-flow routing table is not both looked up and filled by flow id (found %s): every datagram of a flow "
                        "would start a new forwarder / socket" % sorted(seen_route))
            else:
                rep.ok("C01.R2", "server-routing-table", "", "lookup and insert present")
        except NameError:
            rep.bad("C01.R2", "server-routing-table", "", "server WebSocket loop not found (anchor missing)")
    # ---- R5 every forwarded datagram goes to the target it names
    if has_server:
        rep.rule("C01.R5", "server UDP forwarder: each datagram is sent to the (target_host, target_port) carried by that same datagram")
        k5 = 0
        for b in crate.bodies:
            if "/src/server/forwarder.rs" not in b.file:
                continue
            tr = None
            for bi, t in b.calls():
                c = callee(t)
                if not (c and c["name"] == "send_to" and "UdpSocket" in c["def"]):
                    continue
                tr = tr or Tracer(facts, b)

                def bases(node, fields):
                    out = set()
                    for x in walk(node):
                        if x.kind == "field" and x[2] in fields and (x[3] or "").endswith("penguin_mux::Datagram"):
                            out.add(strip(x[1]))
                    return out
                d = bases(tr.operand(t["args"][1]), {"data"})
                tg = bases(tr.operand(t["args"][2]), {"target_host", "target_port"})
                if not d:
                    continue
                k5 += 1
                rep.analysed(b)
                where = "%s (%s)" % (loc_str(t["loc"]), b.path)
                key = "forwarder-target/%d" % k5
                from an import inexact_steps as _ix5

                def _dgf(x):
                    return x.kind == "field" and x[2] in ("target_host", "target_port", "data") and (x[3] or "").endswith("penguin_mux::Datagram")
                altered = []
                top5 = strip(tr.operand(t["args"][2]))
                while top5.kind in ("ref", "deref", "cast"):
                    top5 = strip(top5[1])
                tuples5 = [top5] if top5.kind == "agg" and top5[1] == "tuple" else []
                if not tuples5:
                    for x in walk(top5):
                        if x.kind == "call" and x[3] and "forwarder::bind_" in x[1] + x[2]:
                            a0 = strip(x[3][0])
                            while a0.kind in ("ref", "deref", "cast"):
                                a0 = strip(a0[1])
                            if a0.kind == "agg" and a0[1] == "tuple":
                                tuples5.append(a0)
                            break
                for x in tuples5:
                    for _, el in x[3]:
                        if any(_dgf(y) for y in walk(el)):
                            altered += _ix5(el, _dgf, 16, extra_calls=("from_utf8", "from_utf8_unchecked", "to_str", "as_str", "to_string"))
                altered += _ix5(tr.operand(t["args"][1]), _dgf, None, extra_calls=("as_slice",))
                if d and tg and d <= tg and altered:
                    rep.bad("C01.R5", "forwarder-target-exact/%d" % k5, where,
                            "the datagram is not sent as it is to the target it names: `%s` is computed from the datagram's field instead of being "
                            "the field itself (another port / host / payload for some values)" % altered[0])
                elif d and tg and d <= tg:
                    rep.ok("C01.R5", key, where, "payload and target come from the same datagram")
                else:
                    rep.bad("C01.R5", "forwarder-target-mismatch/%d" % k5, where,
                            "a datagram's payload is sent to a target that is not taken from that datagram (target from %s, payload from %s): "
                            "a second target on the same UDP flow receives nothing, the first target receives its traffic" % (
                                sorted(fmt(x)[:40] for x in tg), sorted(fmt(x)[:40] for x in d)))
        rep.floor("C01.R5", "forwarder send_to sites", k5, 2)
    # SOCKS5 UDP reply header: C18.R1
    socks = facts.crate("penguin_socks")
    if socks is not None and has_client:
        rep.rule("C01.R4", "SOCKS5 UDP reply header well-formed (= C18.R1)")
        sub = type(rep)(rep.prop, rep.tier, rep.config)
        rules_c18.check_r1(facts, sub, socks)
        for i in sub.instances:
            rep.ok("C01.R4", i["key"], i["where"], i["detail"])
        for v in sub.violations:
            rep.bad("C01.R4", v["key"].split("/", 1)[1], v["where"], v["msg"])
    # the stream<->socket bridge used at both ends does not lose bytes on a short write (= C13.R4)
    mux = facts.crate("penguin_mux")
    if mux is not None:
        import rules_c13
        rep.rule("C01.R6", "bridge (both ends of every tunnel): bytes consumed from the stream = bytes the socket accepted (= C13.R4 consume-written-amount)")
        bodies = rules_c13.bridge_bodies(mux)
        if bodies:
            rules_c13.check_r4_written_amount(facts, rep, bodies, rid="C01.R6")
        elif "tokio-io-util" in mux.features or "std" in mux.features:
            rep.bad("C01.R6", "floor/bridge", "", "no bridge poll functions found in penguin_mux (anchor missing)")

    # ---- R7 the server dials the address resolved from the channel's target
    if has_server:
        rep.rule("C01.R7", "server TCP forwarder: the socket is connected to the address resolved from (channel.dest_host, channel.dest_port)")
        k7 = 0
        for b in crate.bodies:
            if "/src/server/" not in b.file:
                continue
            tr = None
            for bi, t in b.calls():
                c = callee(t)
                if not c or c["name"] != "connect" or "TcpSocket" not in c["path"]:
                    continue
                tr = tr or Tracer(facts, b)
                k7 += 1
                rep.analysed(b)
                where = "%s (%s)" % (loc_str(t["loc"]), b.path)
                an = tr.operand(t["args"][1])
                flds = set(x[2] for x in walk(an) if x.kind == "field" and x[2] in ("dest_host", "dest_port"))
                other = [x[6] for x in walk(an) if x.kind == "call" and x[6] in ("local_addr", "peer_addr")]
                if flds == {"dest_host", "dest_port"} and not other:
                    rep.ok("C01.R7", "connect-target", where, "connect(addr resolved from dest_host, dest_port)")
                else:
                    rep.bad("C01.R7", "connect-target", where, "the outgoing TCP connection is made to an address derived from %s %s, not from the "
                                                               "channel's (dest_host, dest_port)" % (sorted(flds), other))
        rep.floor("C01.R7", "server connect sites", k7, 1)
    # ---- R8 / R9 client: header flag and payload integrity of outgoing datagrams
    if has_client:
        rep.rule("C01.R8", "the SOCKS5 flag stored for a UDP client is true exactly when its datagrams come through the SOCKS5 UDP relay header parser")
        rep.rule("C01.R9", "datagram payloads are forwarded unmodified: Datagram.data is the receive buffer (truncated to the received length) "
                           "or the payload returned by the relay-header parser, through conversions only")
        k8 = 0
        for b in crate.bodies:
            if "/src/client/" not in b.file:
                continue
            tr = None
            for bi, t in b.calls():
                c = callee(t)
                if not c or c["name"] != "add_udp_client" or len(t["args"]) < 4:
                    continue
                tr = tr or Tracer(facts, b)
                k8 += 1
                rep.analysed(b)
                where = "%s (%s)" % (loc_str(t["loc"]), b.path)
                flag = const_eval(tr.operand(t["args"][3]))
                via_header = any(callee(t2) and callee(t2)["name"] in ("parse_udp_relay_header", "handle_udp_relay_header") for _, t2 in b.calls())
                if flag is None:
                    rep.bad("C01.R8", "socks5-flag/%s" % b.path.split("::{")[0], where, "the SOCKS5 flag of add_udp_client is not a constant here")
                elif bool(flag) == via_header:
                    rep.ok("C01.R8", "socks5-flag/%s" % b.path.split("::{")[0], where, "socks5 = %s, relay header parsed here: %s" % (bool(flag), via_header))
                else:
                    rep.bad("C01.R8", "socks5-flag/%s" % b.path.split("::{")[0], where,
                            "UDP client registered with socks5 = %s although its datagrams %s the SOCKS5 relay header: replies %s" % (
                                bool(flag), "carry" if via_header else "do not carry",
                                "reach the SOCKS client without the RFC 1928 UDP header" if via_header else "get a header the plain UDP client cannot parse"))
        rep.floor("C01.R8", "add_udp_client call sites", k8, 2)
        CONV = {"from", "into", "into_static", "freeze", "clone", "to_vec", "copy_from_slice", "from_elem", "from_static", "as_bytes", "new", "deref",
                "parse_udp_relay_header", "handle_udp_relay_header", "branch", "from_residual", "with_capacity", "recv_from", "read_line", "poll", "into_future"}
        k9 = 0
        for side in ("/src/client/", "/src/server/"):
            for b in crate.bodies:
                if side not in b.file or "::tests::" in b.path:
                    continue
                tr = None
                for bi, blk in enumerate(b.blocks):
                    if blk["cleanup"]:
                        continue
                    for st in blk["stmts"]:
                        if not (st["k"] == "Assign" and st["rv"]["k"] == "Aggregate" and st["rv"]["agg"].get("adt", "").endswith("penguin_mux::Datagram")):
                            continue
                        tr = tr or Tracer(facts, b)
                        k9 += 1
                        rep.analysed(b)
                        f = dict(zip(st["rv"]["agg"]["fields"], st["rv"]["ops"]))
                        where = "%s (%s)" % (loc_str(st["loc"]), b.path)
                        dn = tr.operand(f["data"])
                        odd = sorted(set(x[6] for x in walk(dn) if x.kind == "call" and x[6] not in CONV and
                                         any(x[1].startswith(k) for k in ("bytes::", "alloc::vec::", "alloc::string::", "core::slice::", "core::str::",
                                                                          "alloc::slice::", "alloc::str::", "<bytes::", "<alloc::vec::", "<alloc::string::"))))
                        # mutating calls on the receive buffer other than truncate(received length)
                        bufmut = []
                        for bj, t2 in b.calls():
                            c2 = callee(t2)
                            if c2 and c2["name"] in ("split_off", "split_to", "drain", "remove", "advance", "retain", "clear", "resize", "insert", "push", "truncate") \
                                    and t2["args"] and ("Vec<u8>" in c2["path"] or "Vec::<u8>" in c2["path"] or "BytesMut" in c2["path"]):
                                if c2["name"] == "truncate" and any(x.kind == "call" and x[6] == "recv_from" for x in walk(tr.operand(t2["args"][1]))):
                                    continue
                                bufmut.append(c2["name"])
                        # a buffer filled by recv_from must be cut to the received length before it becomes the payload
                        recv = [(bj, t2) for bj, t2 in b.calls() if callee(t2) and callee(t2)["name"] == "recv_from"]
                        from_recv_buf = any(x.kind == "call" and x[6] == "from_elem" for x in walk(dn)) and recv
                        if from_recv_buf:
                            cut = [bj for bj, t2 in b.calls() if callee(t2) and callee(t2)["name"] == "truncate" and len(t2["args"]) > 1 and
                                   any(x.kind == "call" and x[6] == "recv_from" for x in walk(tr.operand(t2["args"][1])))]
                            RECVS = ("recv_from", "try_recv_from", "recv_buf_from", "poll_recv_from")
                            sliced = any(x.kind == "call" and x[6] in ("index", "get", "split_at", "take") and
                                         any(y.kind == "call" and y[6] in RECVS for y in walk(x)) for x in walk(dn))
                            if not any(b.dominates(c_, bi) for c_ in cut) and not sliced:
                                odd = odd + ["(no truncate(received length) before use)"]
                        # the other fields of the frame, and the cut of the receive buffer, are values passed on as they are (no arithmetic,
                        # masks or narrowing on a port / flow id / length between where it was obtained and the frame)
                        from an import inexact_steps as _ix9, _PRESERVING_CALLS as _PC9

                        def _src9(y):
                            return y.kind == "param" or (y.kind == "call" and y[6] not in _PC9 and y[6] not in ("poll", "into_future", "new_unchecked", "get_context", "map_err"))
                        for fld, bits in (("target_port", 16), ("flow_id", 32)):
                            if fld in f:
                                st9 = [z for z in _ix9(tr.operand(f[fld]), _src9, bits, extra_calls=("poll", "into_future", "new_unchecked", "get_context", "map_err"))
                                       if not z.startswith("option::") and "::None" not in z]
                                st9 = [z for z in st9 if not re.match(r"^\d+$", z.strip())]
                                if st9:
                                    odd = odd + ["%s computed: %s" % (fld, st9[0])]
                        for bj, t2 in b.calls():
                            c2 = callee(t2)
                            if c2 and c2["name"] == "truncate" and len(t2["args"]) > 1 and ("Vec<u8>" in c2["path"] or "Vec::<u8>" in c2["path"]):
                                st9 = _ix9(tr.operand(t2["args"][1]), _src9, None, extra_calls=("poll", "into_future", "new_unchecked", "get_context", "map_err"))
                                if st9:
                                    odd = odd + ["receive buffer cut to a computed length: %s" % st9[0]]
                        if odd or bufmut:
                            rep.bad("C01.R9", "payload-unmodified/%s" % b.path.split("::{")[0], where,
                                    "the datagram payload is transformed on its way (%s): the target / local client does not receive the bytes that were sent" % (odd + bufmut))
                        else:
                            rep.ok("C01.R9", "payload-unmodified/%s#%d" % (b.path.split("::{")[0], k9), where, "data <- receive buffer / parser payload via conversions only")
        rep.floor("C01.R9", "Datagram construction sites", k9, 3)
        # ---- R15 sockets that carry tunnel data are closed gracefully
        rep.rule("C01.R15", "transport options that lose bytes of the tunnel are not enabled: nothing sets SO_LINGER on a socket (with a zero / short "
                            "linger, dropping the socket after the bridge finished discards what is still queued and resets the connection: the "
                            "tail of the data and the half-close are lost), and no hyper connection that serves upgrades runs with pipeline_flush")
        k15 = 0
        bad15 = 0
        for b in crate.bodies:
            if "::tests::" in b.path or b.file.endswith("tests.rs"):
                continue
            for bi, t in b.calls():
                c = callee(t)
                if not c:
                    continue
                owner = c["path"]
                if not any(k in owner for k in ("TcpSocket", "TcpStream", "socket2::Socket", "socket2::SockRef", "UnixStream")):
                    continue
                k15 += 1
                if c["name"] in ("set_linger", "set_zero_linger", "set_linger_unchecked"):
                    bad15 += 1
                    rep.bad("C01.R15", "no-linger/%s" % b.path.split("::{")[0], "%s (%s)" % (loc_str(t["loc"]), b.path),
                            "`%s` on a socket of the tunnel path: when the socket is dropped the kernel discards unsent data and sends RST, so a "
                            "slow reader loses the tail of the stream and sees a reset instead of the half-close" % c["name"])
        # hyper's `pipeline_flush` defers flushing the response while request bytes are buffered; on an upgrade (CONNECT / websocket) hyper hands
        # the socket over and drops what it has not flushed: the 200 / 101 head is lost whenever the client sends data right behind the request
        for b in crate.bodies:
            if "::tests::" in b.path or b.file.endswith("tests.rs"):
                continue
            for bi, t in b.calls():
                c = callee(t)
                if c and c["name"] == "pipeline_flush" and "hyper" in c["path"]:
                    flag = const_eval(Tracer(facts, b).operand(t["args"][1])) if len(t["args"]) > 1 else None
                    if flag is None or flag:
                        bad15 += 1
                        rep.bad("C01.R15", "no-pipeline-flush/%s" % b.path.split("::{")[0], "%s (%s)" % (loc_str(t["loc"]), b.path),
                                "`pipeline_flush(true)` on a hyper connection that serves upgrades: the response head (200 for CONNECT, 101 for the "
                                "tunnel) is still unflushed when hyper hands the socket over if the client sent bytes right behind its request, "
                                "and is dropped - the client never sees the status line, or sees the target's bytes in its place")
        if not bad15:
            rep.ok("C01.R15", "no-linger", "", "%d socket method calls inspected, none sets SO_LINGER" % k15, nontrivial=False)
        rep.floor("C01.R15", "socket method calls inspected", k15, 4)
        # ---- R14 the flow id of every datagram a client-side UDP handler forwards is the id registered for the sender of THAT datagram
        rep.rule("C01.R14", "client UDP handlers: on every path, between receiving a datagram from the local socket and building the Datagram frame "
                            "for it, the sender is (re-)registered (add_udp_client) - a frame is never built with the id left over from an earlier "
                            "datagram, so replies reach exactly the client that sent the datagram")
        k14 = 0
        RECVS14 = ("recv_from", "try_recv_from", "recv_buf_from", "poll_recv_from")
        from an import logical_root as _lr14
        recv_fns = set()
        for b in crate.bodies:
            if "/src/client/" in b.file and any(callee(t) and callee(t)["name"] in RECVS14 and "UdpSocket" in callee(t)["path"] for _, t in b.calls()):
                recv_fns.add(_lr14(facts, b).path)

        def is_recv14(c):
            return bool(c) and ((c["name"] in RECVS14 and "UdpSocket" in c["path"]) or
                                any(c["path"].split("::<")[0].endswith(p_.split("::", 1)[-1]) for p_ in recv_fns))
        for b in crate.bodies:
            if "/src/client/" not in b.file or "::tests::" in b.path:
                continue
            has_dg = any(st["k"] == "Assign" and st["rv"]["k"] == "Aggregate" and st["rv"]["agg"].get("adt", "").endswith("penguin_mux::Datagram")
                         for blk in b.blocks if not blk["cleanup"] for st in blk["stmts"])
            has_recv = any(is_recv14(callee(t)) for _, t in b.calls())
            if not (has_dg and has_recv):
                continue
            k14 += 1
            rep.analysed(b)
            stale = []

            def on_term14(bb, t, auto, store):
                if t["k"] == "Call":
                    c = callee(t)
                    if is_recv14(c):
                        return "received"
                    if c and c["name"] == "add_udp_client":
                        return "registered"
                return auto

            def on_stmt14(bb, idx, st, auto):
                if st["k"] == "Assign" and st["rv"]["k"] == "Aggregate" and st["rv"]["agg"].get("adt", "").endswith("penguin_mux::Datagram") \
                        and auto == "received":
                    stale.append(st)
                return auto
            ex14 = Explorer(facts, b, on_term=on_term14, on_stmt=on_stmt14)
            ex14.run(0, "start")
            rep.paths += len(ex14.seen)
            w14 = "%s (%s)" % (loc_str(b.loc), b.path)
            if stale:
                rep.bad("C01.R14", "fresh-client-id/%s" % b.path.split("::{")[0], "%s (%s)" % (loc_str(stale[0]["loc"]), b.path),
                        "a Datagram frame can be built for a datagram whose sender was not looked up / registered after it was received: it goes "
                        "out under the flow id of an earlier sender, and the reply is delivered to that other local client")
            else:
                rep.ok("C01.R14", "fresh-client-id/%s" % b.path.split("::{")[0], w14, "every received datagram is registered before its frame is built")
        rep.floor("C01.R14", "client UDP handlers that receive and forward datagrams", k14, 2)
        # ---- R17 a client UDP handler forwards every datagram it receives (only a failed receive / parse is skipped)
        rep.rule("C01.R17", "client UDP handlers forward every datagram they receive: inside the receive loop the queue send of the Datagram frame can "
                            "be skipped only on the None / Err outcome of the receive-and-parse step itself - not on a filter over the sender's "
                            "address, a counter or a flag (datagrams of a second local socket / client would silently never reach the target)")
        k17 = 0
        for b in crate.bodies:
            if "/src/client/" not in b.file or "::tests::" in b.path:
                continue
            sends = [bi for bi, t in b.calls() if callee(t) and callee(t)["name"] in ("send", "try_send", "reserve") and "Datagram" in callee(t)["path"]
                     and "Sender" in callee(t)["path"]]
            recvs = [bi for bi, t in b.calls() if is_recv14(callee(t))]
            if not sends or not recvs:
                continue
            k17 += 1
            rep.analysed(b)
            tr17 = Tracer(facts, b)
            S = sends[0]
            pred_ = b.pred
            heads = b.loop_headers_containing(S)
            w17 = "%s (%s)" % (loc_str(b.loc), b.path)
            bad17 = None
            for gb in range(len(b.blocks)):
                if b.term(gb)["k"] != "SwitchInt" or not any(gb in b.reachable_from(r, cut={S} | heads) for r in recvs) or \
                        S not in b.reachable_from(gb, cut=heads):
                    continue
                if not any(b.dominates(h, gb) for h in heads):
                    continue
                g = guard_at(facts, b, tr17, gb)
                for succ in set(b.succ[gb]):
                    reach = b.reachable_from(succ, cut={S})
                    if succ == S or S in b.reachable_from(succ, cut=heads):
                        continue        # not committed to skipping: the send is still reachable in this iteration
                    if not (heads & reach) and succ not in heads:
                        continue        # leaves the loop (error return): not a silent skip
                    vals = [v for s2, v in (g.edges if g else []) if s2 == succ]
                    from_recv = g is not None and g.kind == "discr" and any(x.kind == "call" and (is_recv14({"name": x[6], "path": x[1]}) or is_recv14({"name": x[6], "path": x[2]})) for x in walk(g.pred))
                    if from_recv and all(v in ("None", "Err", "Break", None) for v in vals):
                        continue
                    from_parse = g is not None and g.kind == "discr" and any(x.kind == "call" and x[6] in ("parse_udp_relay_header",) for x in walk(g.pred))
                    if from_parse and all(v not in ("Ok", "Some", "Continue") for v in vals):
                        continue        # a datagram that does not parse (e.g. a fragment) is dropped: the failing outcome of the parse step
                    if g is not None and g.kind == "discr" and (g.adt or "").endswith("Poll"):
                        continue
                    bad17 = gb
            if bad17 is not None:
                rep.bad("C01.R17", "forwards-every-datagram/%s" % b.path.split("::{")[0], "%s (%s)" % (loc_str(b.term(bad17)["loc"]), b.path),
                        "a received (and parsed) datagram can be skipped - the loop is re-entered without queueing its frame - on a condition that "
                        "is not the failure of the receive / parse step: datagrams of some local senders never reach the target")
            else:
                rep.ok("C01.R17", "forwards-every-datagram/%s" % b.path.split("::{")[0], w17, "only a failed receive / parse skips the send")
        rep.floor("C01.R17", "client UDP receive loops", k17, 2)

    # ---- R16 a datagram of a flow the server has no forwarder for always starts one
    if has_server:
        rep.rule("C01.R16", "server: when the datagram's flow id is not in the routing table, a forwarder is started for it on every path (the table "
                            "insert is passed before the loop is re-entered) - no cap, filter or early `continue` discards the datagrams of a new flow")
        k16 = 0
        for b in crate.bodies:
            if "/src/server/websocket.rs" not in b.file:
                continue
            tr = None
            for gb in range(len(b.blocks)):
                if b.term(gb)["k"] != "SwitchInt":
                    continue
                tr = tr or Tracer(facts, b)
                g = guard_at(facts, b, tr, gb)
                if g is None:
                    continue
                look = [x for x in walk(g.pred) if x.kind == "call" and x[6] in ("get", "get_mut", "contains_key", "entry") and "HashMap" in x[1] + x[2]
                        and "Datagram" in x[2]]
                if not look:
                    continue
                pz = strip(g.pred)
                none_edges = [succ for succ, v in g.edges if (g.kind == "discr" and v in ("None", "Vacant")) or
                              (g.kind == "bool" and ((pz.kind == "call" and pz[6] in ("is_none",) and v is True) or
                                                     (pz.kind == "call" and pz[6] in ("is_some", "contains_key") and v is False)))]
                if not none_edges:
                    continue
                k16 += 1
                rep.analysed(b)
                where = "%s (%s)" % (loc_str(b.term(gb)["loc"]), b.path)
                ins = [bi for bi, t in b.calls() if callee(t) and callee(t)["name"] == "insert" and "Datagram" in callee(t)["path"]
                       and ("HashMap" in callee(t)["path"] or "VacantEntry" in callee(t)["path"])]
                pred = b.pred
                heads = b.loop_headers_containing(gb)
                rets = set(r for r in range(len(b.blocks)) if b.term(r)["k"] == "Return")
                leak = None
                for ne in none_edges:
                    reach = b.reachable_from(ne, cut=set(ins))
                    esc = [x for x in reach if x in heads or x in rets]
                    if esc or not ins:
                        leak = esc[0] if esc else ne
                if leak is not None:
                    rep.bad("C01.R16", "new-flow-starts-forwarder", where,
                            "a datagram whose flow id is not in the routing table can be dropped without a forwarder being started (the loop is "
                            "re-entered at %s without passing the table insert): datagrams of a new local client never reach their target" % loc_str(b.term(leak)["loc"]))
                else:
                    rep.ok("C01.R16", "new-flow-starts-forwarder", where, "unknown flow id -> insert + spawn on every path")
        rep.floor("C01.R16", "routing-table lookups for received datagrams", k16, 1)

    # ---- R18 receive buffers hold the largest datagram either address family can carry
    rep.rule("C01.R18", "UDP receive buffers are at least 65535 octets (the constant that sizes them): a smaller buffer truncates the largest "
                        "IPv6 datagrams (up to 65527 octets of payload) on their way to the target and back")
    cst = crate.consts.get("rusty_penguin_lib::config::MAX_UDP_PACKET_SIZE") if hasattr(crate, "consts") else None
    if cst is None:
        rep.bad("C01.R18", "udp-buffer-size", "", "config::MAX_UDP_PACKET_SIZE not found (anchor missing)")
    elif isinstance(cst.get("v"), int) and cst["v"] >= 65535:
        rep.ok("C01.R18", "udp-buffer-size", "penguin/src/config.rs", "MAX_UDP_PACKET_SIZE = %d" % cst["v"], nontrivial=False)
    else:
        rep.bad("C01.R18", "udp-buffer-size", "penguin/src/config.rs",
                "MAX_UDP_PACKET_SIZE = %s is smaller than the largest UDP datagram (65535): datagrams above it are cut to the buffer size" % cst.get("v"))
    # ---- R19 every configured remote gets its listener
    if has_client:
        rep.rule("C01.R19", "every configured remote is served: in the loop over the configured remotes the spawn of its handler cannot be skipped "
                            "(no filter / dedup / `continue` between taking the next remote and spawning handle_remote)")
        k19 = 0
        for b in crate.bodies:
            if "/src/client/" not in b.file or "::tests::" in b.path:
                continue
            hs = [bi for bi, t in b.calls() if callee(t) and callee(t)["name"] == "handle_remote"]
            sp = [bi for bi, t in b.calls() if callee(t) and callee(t)["name"] in ("spawn", "spawn_local", "spawn_on") and "JoinSet" in callee(t)["path"]]
            nx = [bi for bi, t in b.calls() if callee(t) and callee(t)["name"] == "next" and "Remote" in callee(t)["path"]]
            if not (hs and sp and nx):
                continue
            S = [x for x in sp if any(x in b.reachable_from(h) for h in hs)]
            if not S:
                continue
            S = S[0]
            k19 += 1
            rep.analysed(b)
            tr19 = Tracer(facts, b)
            heads = b.loop_headers_containing(S)
            w19 = "%s (%s)" % (loc_str(b.term(S)["loc"]), b.path)
            bad19 = None
            for gb in range(len(b.blocks)):
                if b.term(gb)["k"] != "SwitchInt" or not any(gb in b.reachable_from(n_, cut={S} | heads) for n_ in nx) or S not in b.reachable_from(gb, cut=heads):
                    continue
                g = guard_at(facts, b, tr19, gb)
                for succ in set(b.succ[gb]):
                    if succ == S or S in b.reachable_from(succ, cut=heads):
                        continue
                    reach = b.reachable_from(succ, cut={S})
                    if not (heads & reach) and succ not in heads:
                        continue
                    vals = [v for s2, v in (g.edges if g else []) if s2 == succ]
                    if g is not None and g.kind == "discr" and all(v in ("None", None) for v in vals) and \
                            any(x.kind == "call" and x[6] == "next" for x in walk(g.pred)):
                        continue
                    bad19 = gb
            if bad19 is not None:
                rep.bad("C01.R19", "every-remote-spawned", "%s (%s)" % (loc_str(b.term(bad19)["loc"]), b.path),
                        "a configured remote can be skipped (the loop goes on to the next one without spawning its handler): connections / "
                        "datagrams sent to that entry point are never tunnelled")
            else:
                rep.ok("C01.R19", "every-remote-spawned", w19, "the spawn is passed for every remote taken from the list")
        rep.floor("C01.R19", "loops spawning the handlers of the configured remotes", k19, 1)
    # ---- R20 the forwarders do not slice the peer-supplied target by position
    if has_server:
        rep.rule("C01.R20", "the server's forwarders do not index or range-slice the target host they are given (peer-controlled bytes of any "
                            "length, possibly empty or one octet): a panicking forwarder takes every stream of the connection down with it")
        k20 = 0
        bad20 = 0
        for b in crate.bodies:
            if "/src/server/forwarder.rs" not in b.file or "::tests::" in b.path:
                continue
            tr20 = None
            for bi, t in b.calls():
                c = callee(t)
                if not c:
                    continue
                k20 += 1
                if c["name"] in ("index", "index_mut", "split_at", "split_at_mut", "split_off", "remove", "swap_remove") and \
                        any(k in c["path"] for k in ("<str as", "<[u8] as", "Range", "String", "Vec<u8>", "Bytes")):
                    tr20 = tr20 or Tracer(facts, b)
                    recv = tr20.operand(t["args"][0])
                    if any(x.kind == "field" and x[2] in ("dest_host", "target_host") for x in walk(recv)) or \
                            any(x.kind == "call" and x[6] in ("from_utf8", "from_utf8_unchecked") for x in walk(recv)):
                        bad20 += 1
                        rep.bad("C01.R20", "no-positional-slicing/%s" % b.path.split("::{")[0], "%s (%s)" % (loc_str(t["loc"]), b.path),
                                "`%s` on the peer-supplied target host: for some hosts (empty, a single `[`, a multi-byte boundary) this panics, "
                                "and a panicking forwarder aborts the whole connection with all its other streams (use get(..) / strip_prefix)" % c["name"])
        if not bad20:
            rep.ok("C01.R20", "no-positional-slicing", "", "%d calls inspected in the forwarders, none slices the target host by position" % k20, nontrivial=False)
        rep.floor("C01.R20", "calls inspected in the forwarders", k20, 20)

    # ---- R10 a per-flow forwarder that has exited is forgotten, so the next datagram of that flow starts a new one
    if has_server:
        rep.rule("C01.R10", "server: when the hand-off to a flow's forwarder fails with Closed (forwarder pruned), the flow's entry is removed "
                            "from the routing table; otherwise every later datagram of that flow is discarded")
        k10 = 0
        for b in crate.bodies:
            if "/src/server/websocket.rs" not in b.file:
                continue
            tr = None
            for gb in range(len(b.blocks)):
                if b.term(gb)["k"] != "SwitchInt":
                    continue
                tr = tr or Tracer(facts, b)
                g = guard_at(facts, b, tr, gb)
                if g is None or g.kind != "discr" or not g.adt or not g.adt.endswith("TrySendError"):
                    continue
                k10 += 1
                rep.analysed(b)
                where = "%s (%s)" % (loc_str(b.term(gb)["loc"]), b.path)
                closed = [succ for succ, v in g.edges if v == "Closed"]
                rem = [bi for bi, t in b.calls() if callee(t) and callee(t)["name"] == "remove" and "Sender<penguin_mux::Datagram>" in callee(t)["path"]]
                ok = bool(closed) and any(b.edge_dominates((gb, c), r) or r == c for c in closed for r in rem)
                if ok:
                    rep.ok("C01.R10", "pruned-forwarder-forgotten", where, "Closed => udp_clients.remove(flow_id)")
                else:
                    rep.bad("C01.R10", "pruned-forwarder-forgotten", where,
                            "when the per-flow forwarder has exited (try_send -> Closed) its entry stays in the routing table: the flow is "
                            "black-holed for as long as the client keeps using the same id")
        if k10 == 0:
            ts = [(b, bi, t) for b in crate.bodies if "/src/server/websocket.rs" in b.file for bi, t in b.calls()
                  if callee(t) and callee(t)["name"] == "try_send" and "Sender::<penguin_mux::Datagram>" in callee(t)["path"]]
            if ts:
                b0, bi0, t0 = ts[0]
                rep.bad("C01.R10", "pruned-forwarder-forgotten", "%s (%s)" % (loc_str(t0["loc"]), b0.path),
                        "the result of handing a datagram to the flow's forwarder is not matched on Closed anywhere in the server loop: when the "
                        "forwarder has exited its entry stays in the routing table and the flow is black-holed")
            else:
                rep.floor("C01.R10", "hand-off sites in the server loop", 0, 1)
    # ---- R11 every TCP tunnel runs through the stream<->socket bridge at both ends: all bridge rules are preconditions
    if mux is not None:
        rep.rule("C01.R11", "bridge rules (= C13.R1..R6): no lost error, half-close, credit/Finish ordering, counters, joint poll")
        sub = type(rep)(rep.prop, rep.tier, rep.config)
        rules_c13.check(facts, sub, tier, cfg)
        rep.paths += sub.paths
        for i in sub.instances:
            rep.ok("C01.R11", "%s/%s" % (i["rule"], i["key"]), i["where"], i["detail"], nontrivial=False)
        for v in sub.violations:
            rep.bad("C01.R11", v["key"], v["where"], v["msg"])
    # ---- R12 / R2: shared slots of the request channel are not held by handlers that request no stream; liveness refresh of UDP clients
    if has_client:
        rep.rule("C01.R12", "a stream-request permit (slot of the bounded request channel shared by all entry points) is never held, unused, while "
                            "another in-crate async session (one that does not receive the permit) is awaited")
        k12 = 0
        for b in crate.bodies:
            if "/src/client/" not in b.file:
                continue
            res = [bi for bi, t in b.calls() if callee(t) and callee(t)["name"] == "reserve" and "StreamCommand" in callee(t)["path"] and not b.blocks[bi]["cleanup"]]
            if not res:
                continue
            tr = Tracer(facts, b)
            for r in res:
                k12 += 1
                rep.analysed(b)
                where = "%s (%s)" % (loc_str(b.term(r)["loc"]), b.path)
                uses = set(bi for bi, t in b.calls() if bi != r and callee(t) and callee(t)["name"] not in ("branch", "poll", "into_future", "new_unchecked", "get_context", "or", "map_err", "from_residual")
                           and any(derives_from_call(tr.operand(a), r) for a in t["args"]))
                # the permit local(s): results of the Try/unwrap chain on the reserve future
                held = b.reachable_from(b.term(r)["t"], cut=uses) if b.term(r).get("t") is not None else set()
                sessions = []
                for x in sorted(held):
                    t = b.term(x)
                    c = callee(t) if t["k"] == "Call" else None
                    if not c:
                        continue
                    dp = c.get("res") or c["dp"]
                    cb = facts.by_dp.get(dp)
                    if cb is None or cb.crate is not crate:
                        continue
                    from an import nested_bodies
                    is_async = any(nb.term(q)["k"] == "Yield" for nb in nested_bodies(facts, cb) for q in range(len(nb.blocks)))
                    if is_async and not any(derives_from_call(tr.operand(a), r) for a in t["args"]):
                        sessions.append((x, c["path"]))
                if not sessions:
                    rep.ok("C01.R12", "permit-not-parked/%s" % b.path.split("::{")[0], where, "no in-crate async session runs while an unused permit is held")
                else:
                    rep.bad("C01.R12", "permit-not-parked/%s" % b.path.split("::{")[0], "%s (%s)" % (loc_str(b.term(sessions[0][0])["loc"]), b.path),
                            "a permit reserved on the shared stream-request channel (%s) is still held, unused, while `%s` runs: every such long-lived "
                            "session occupies one of the few slots and, with enough of them, new TCP connections through any entry point hang" % (
                                loc_str(b.term(r)["loc"]), sessions[0][1]))
        rep.floor("C01.R12", "permit reservations in client handlers", k12, 2)
        for fname, what in (("add_udp_client", "a datagram from a known local client"), ("send_datagram_reply", "a reply delivered to a local client")):
            fb = [b for b in crate.bodies if b.name == fname or b.path.endswith("%s::{closure#0}" % fname)]
            # the entry's expiry is extended: a store to `.expires` in the body, or a call of an in-crate fn that stores it
            def stores_expiry(x):
                for blk in x.blocks:
                    for st in blk["stmts"]:
                        if st["k"] == "Assign":
                            pr = st["lhs"].get("p") or []
                            if pr and isinstance(pr[-1], dict) and pr[-1].get("f") == "expires" and "ClientIdMapEntry" in (pr[-1].get("o") or ""):
                                return True
                return False
            refreshers = set(x.dp for x in crate.bodies if stores_expiry(x))
            hit = [b for b in fb if b.dp in refreshers or any(
                callee(t) and ((callee(t).get("res") or callee(t)["dp"]) in refreshers) for _, t in b.calls())]
            if hit:
                rep.ok("C01.R2", "refresh/%s" % fname, "%s (%s)" % (loc_str(hit[0].loc), hit[0].path), "%s extends the entry's expiry" % what)
            else:
                rep.bad("C01.R2", "refresh/%s" % fname, "", "%s does not refresh the client-id entry: an active client is pruned and the replies still "
                                                            "addressed to its old flow id are dropped" % what)
    # ---- R13 the outgoing socket's address family is the family of the very address that is then dialled
    if has_server:
        rep.rule("C01.R13", "server: a family-specific outgoing socket (TcpSocket::new_v4/new_v6, UdpSocket::bind on an (Ipv4Addr|Ipv6Addr, port)) "
                            "is created only under a test of the address family (SocketAddr::is_ipv4/is_ipv6, IpAddr::is_ipv4/is_ipv6 of its ip(), "
                            "or a match on its V4/V6 variant) of the unmodified address that is returned as the target to dial")
        k13 = 0
        for b in crate.bodies:
            if "/src/server/" not in b.file:
                continue
            sites = []
            for bi, t in b.calls():
                c = callee(t)
                if not c:
                    continue
                fam = None
                if c["name"] in ("new_v4", "new_v6") and ("TcpSocket" in c["path"] or "UdpSocket" in c["path"] or "Socket" in c["path"]):
                    fam = 4 if c["name"] == "new_v4" else 6
                elif c["name"].startswith("bind") and "Socket" in c["path"]:
                    if "Ipv4Addr" in c["path"] and "Ipv6Addr" not in c["path"]:
                        fam = 4
                    elif "Ipv6Addr" in c["path"] and "Ipv4Addr" not in c["path"]:
                        fam = 6
                if fam:
                    sites.append((bi, fam, c["path"]))
            if not sites:
                continue
            tr = Tracer(facts, b)
            rep.analysed(b)
            # the target returned next to the socket: SocketAddr-typed operands of tuple aggregates
            targets = set()
            for bi in range(len(b.blocks)):
                for s in b.blocks[bi]["stmts"]:
                    if s["k"] == "Assign" and s["rv"]["k"] == "Aggregate" and s["rv"]["agg"]["a"] == "Tuple":
                        for o in s["rv"]["ops"]:
                            p = o.get("p")
                            if p and not p.get("proj") and norm_ty_is_sockaddr(b, p["l"]):
                                targets.add(fmt(strip(tr.operand(o))))

            def subject(n):
                n = strip(n)
                while n.kind == "call" and n[6] == "ip" and "SocketAddr" in (n[2] or "") and n[3]:
                    n = strip(n[3][0])
                return n

            for bi, fam, path in sites:
                k13 += 1
                where = "%s (%s)" % (loc_str(b.term(bi)["loc"]), b.path)

                def want(g, fam=fam):
                    if g.kind == "bool" and g.pred.kind == "call" and g.pred[6] in ("is_ipv4", "is_ipv6") and g.pred[3]:
                        if not ("SocketAddr" in (g.pred[2] or "") or "IpAddr" in (g.pred[2] or "")):
                            return None
                        sub = subject(g.pred[3][0])
                        if targets:
                            if fmt(sub) not in targets:      # must be the very value that is returned as the dial target
                                return None
                        elif any(x.kind == "call" for x in walk(sub)):
                            return None
                        v4 = (g.pred[6] == "is_ipv4")
                        return {v4 == (fam == 4)}
                    if g.kind == "discr" and g.adt and g.adt.endswith("SocketAddr") or (g.kind == "discr" and g.adt and g.adt.endswith("IpAddr")):
                        sub = subject(g.pred)
                        if targets:
                            if fmt(sub) not in targets:
                                return None
                        elif any(x.kind == "call" for x in walk(sub)):
                            return None
                        return {"V4" if fam == 4 else "V6"}
                    return None
                from muxcommon import edge_literals_dominating
                lits = edge_literals_dominating(facts, b, tr, bi, want)
                if lits:
                    rep.ok("C01.R13", "family/%s/v%d" % (b.path.split("::{")[0], fam), where, "created under the family test of the dialled address")
                else:
                    rep.bad("C01.R13", "family/%s/v%d" % (b.path.split("::{")[0], fam), where,
                            "`%s` (an IPv%d socket) is not created under a test that the unmodified target address -- the one returned and "
                            "then dialled -- is IPv%d: when the test looks at a converted address (e.g. an IPv4-mapped address made "
                            "canonical) the socket and the target belong to different families and connect/send_to fails, so the "
                            "target is never reached" % (path, fam, fam))
        rep.floor("C01.R13", "family-specific outgoing sockets in the server", k13, 4)
    rep.rule("C01.S7", "who-may: the functions that touch the critical resources behind this property are those of the reference tree (flow table, closed flag, per-stream / datagram / outbound queues, last-pong timestamp, client id maps, shared TLS identity)")
    import whomay
    whomay.check(facts, rep, "C01.S7", "C01")
    whomay.check_new_statics(facts, rep, "C01.S7", "C01")
    whomay.check_new_trait_methods(facts, rep, "C01.S7", "C01")


def norm_ty_is_sockaddr(b, l):
    return (b.locals[l].get("s") or "").endswith("net::SocketAddr")
