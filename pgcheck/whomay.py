"""S7  who-may table: which functions touch the protocol's critical resources.

The rules of each property analyse the functions that, on the pinned tree, write / consume a critical resource (the flow table,
the closed flag, a stream's inbound queue, the datagram queue, the outbound queue, the last-pong timestamp, the client id maps,
the shared TLS identity, a stream's read buffer).  A change that makes some *other* function touch one of them adds a mechanism that
none of those rules looks at (a cache, a janitor task, a second consumer, a guard object with a Drop ...).  The table of functions
per resource is recorded in inventory.json for the pinned tree; a function outside it that performs the effect is reported.

Evaluated after normalisation, so a helper extracted from an allowed function (inlined back), a renamed or moved function and the
closures / coroutines nested in an allowed function are all still "that function"."""
from an import Tracer, callee, walk
from mir import loc_str
from shared import atomic_call

# effect id -> (description, properties it matters for)
EFFECTS = {
    "flowmap-mutation": ("inserts into / removes from the flow table", ("C02", "C05", "C06", "C07", "C08", "C10", "C15")),
    "closed-flag-write": ("sets the stream's closed-for-writing flag", ("C04", "C05", "C06", "C08", "C12")),
    "inbound-dispatch": ("puts data on a stream's inbound queue", ("C02", "C03", "C05", "C10")),
    "inbound-receive": ("takes data off a stream's inbound queue", ("C02", "C03", "C05", "C13")),
    "stream-buf-write": ("replaces the stream's read buffer", ("C02", "C05", "C13")),
    "datagram-receive": ("takes datagrams off the datagram queue", ("C11",)),
    "outbound-receive": ("takes messages off the outbound queue", ("C02", "C08", "C05")),
    "last-pong-write": ("writes the last-pong timestamp", ("C16",)),
    "client-maps-mutation": ("mutates the UDP client id maps", ("C01", "C11")),
    "tls-identity-store": ("replaces the shared TLS identity", ("C17",)),
}


def _recv_fields(tr, op):
    return set(x[2] for x in walk(tr.operand(op)) if x.kind == "field")


def effects_of_body(facts, b):
    out = {}
    tr = None
    for bi, t in b.calls():
        c = callee(t)
        if not c:
            continue
        nm, d, path = c["name"], c["def"], c["path"]
        eff = None
        if "FlowSlot" in path and (("HashMap" in d and nm in ("insert", "remove", "drain", "clear", "retain", "remove_entry", "extract_if")) or
                                   (("OccupiedEntry" in d or "VacantEntry" in d or "::Entry<" in d or "hash_map::Entry" in d) and
                                    nm in ("remove", "remove_entry", "insert", "insert_entry", "or_insert", "or_insert_with", "or_default"))):
            eff = "flowmap-mutation"
        elif atomic_call(t) in ("swap", "store", "fetch_or", "fetch_and", "compare_exchange", "compare_exchange_weak") and t["args"]:
            tr = tr or Tracer(facts, b)
            if "finish_sent" in _recv_fields(tr, t["args"][0]):
                eff = "closed-flag-write"
        elif "mpsc" in d and "Sender" in d and "Sender::<bytes::Bytes>" in path and nm in ("try_send", "send", "blocking_send", "send_timeout", "reserve", "try_reserve"):
            eff = "inbound-dispatch"
        elif "mpsc" in d and "Receiver" in d and "Receiver::<bytes::Bytes>" in path and nm in ("recv", "poll_recv", "try_recv", "recv_many", "poll_recv_many", "blocking_recv"):
            eff = "inbound-receive"
        elif "mpsc" in d and "Receiver" in d and "Receiver::<Datagram>" in path.replace("frame::", "") and nm in ("recv", "poll_recv", "try_recv", "recv_many", "poll_recv_many", "blocking_recv"):
            eff = "datagram-receive"
        elif "mpsc" in d and "UnboundedReceiver" in d and "ws::Message" in path and nm in ("recv", "poll_recv", "try_recv", "recv_many", "poll_recv_many", "blocking_recv"):
            eff = "outbound-receive"
        elif "ArcSwap" in d + path and nm in ("store", "swap", "rcu", "compare_and_swap"):
            eff = "tls-identity-store"
        elif "HashMap" in d and nm in ("insert", "remove", "retain", "clear", "drain", "entry", "extract_if") and t["args"]:
            tr = tr or Tracer(facts, b)
            if _recv_fields(tr, t["args"][0]) & {"client_id_map", "client_addr_map"}:
                eff = "client-maps-mutation"
        if eff:
            out.setdefault(eff, t["loc"])
    for bi, blk in enumerate(b.blocks):
        if bi not in b.reach0:
            continue
        for s in blk["stmts"]:
            if s["k"] != "Assign":
                continue
            pr = s["lhs"].get("p") or []
            fl = [e for e in pr if isinstance(e, dict) and "f" in e]
            if fl and fl[-1]["f"] == "buf" and (fl[-1].get("o") or "").endswith("stream::MuxStream"):
                out.setdefault("stream-buf-write", s["loc"])
            if pr and pr[-1] == "*" and not fl:
                # `*guard = value` where the guard is the lock of the last-pong timestamp
                tr = tr or Tracer(facts, b)
                if any(x.kind == "field" and x[2] == "last_pong_timestamp" for x in walk(tr.local(s["lhs"]["l"]))):
                    out.setdefault("last-pong-write", s["loc"])
    return out


def logical_fn(path):
    return path.split("::{")[0]


def table(facts):
    """effect -> {crate::logical fn path: loc}"""
    out = {}
    for crate in facts.crates.values():
        if crate.name.startswith("__"):
            continue
        for b in crate.bodies:
            if "tests::" in b.path or b.path.startswith("tests"):
                continue
            for eff, loc in effects_of_body(facts, b).items():
                out.setdefault(eff, {}).setdefault("%s::%s" % (crate.name, logical_fn(b.path)), loc)
    return out


def callers_closure(facts, fns, depth=4):
    """{fn: sorted callers (logical functions, transitively up to `depth`)} over the in-workspace call graph."""
    rev = {}
    for crate in facts.crates.values():
        for b in crate.bodies:
            src = "%s::%s" % (crate.name, logical_fn(b.path))
            for _bi, t in b.calls():
                c = callee(t)
                tb = facts.by_dp.get((c.get("res") or c["dp"])) if c else None
                if tb is not None:
                    dst = "%s::%s" % (tb.crate.name, logical_fn(tb.path))
                    if dst != src:
                        rev.setdefault(dst, set()).add(src)
    out = {}
    for f in fns:
        seen, frontier = set(), {f}
        for _ in range(depth):
            nxt = set()
            for x in frontier:
                for y in rev.get(x, ()):
                    if y not in seen:
                        seen.add(y)
                        nxt.add(y)
            frontier = nxt
        out[f] = sorted(seen)
    return out


def check(facts, rep, rid, prop):
    """Report every function outside the pinned tree's table that performs an effect relevant to `prop`."""
    import normalize
    inv = normalize.inventory().get("__whomay__")
    if inv is None:
        rep.info("%s: no who-may table in the inventory; not decided" % rid)
        return
    cur = table(facts)
    callers = normalize.inventory().get("__whomay_callers__", {})
    present = set("%s::%s" % (c.name, logical_fn(b.path)) for c in facts.crates.values() for b in c.bodies)
    n = 0
    for eff, (desc, props) in sorted(EFFECTS.items()):
        if prop not in props:
            continue
        allowed = set(inv.get(eff, []))
        for fn, loc in sorted(cur.get(eff, {}).items()):
            n += 1
            key = "who-may/%s/%s" % (eff, fn.split("::", 1)[1])
            merged = [a for a in allowed if a not in present and fn in callers.get(a, ())]
            if fn in allowed:
                rep.ok(rid, key, loc_str(loc), "known %s site" % eff, nontrivial=False)
            elif merged:
                # an allowed function was inlined into its (reference-tree) caller and deleted: the site is still that mechanism
                rep.ok(rid, key, loc_str(loc), "%s site of %s, now written inline in its caller" % (eff, merged[0].split("::", 1)[1]), nontrivial=False)
            else:
                rep.bad(rid, key, "%s (%s)" % (loc_str(loc), fn.split("::", 1)[1]),
                        "`%s` %s, which on the reference tree only %s do: this is a new mechanism acting on a resource whose discipline the "
                        "rules of %s decide function by function (a cache, a second consumer, a guard object, a janitor ...); nothing "
                        "establishes that it keeps that discipline" % (fn.split("::", 1)[1], desc,
                                                                       ", ".join(sorted(x.split("::", 1)[1] for x in allowed)) or "no function", prop))
    if n == 0:
        rep.info("%s: no %s-relevant resource access in this configuration" % (rid, prop))


_CELL = ("OnceCell<", "OnceLock<", "LazyLock<", "LazyCell<", "Lazy<", "Mutex<", "RwLock<", "ArcSwap", "RefCell<", "thread::LocalKey<", "AtomicPtr<", "AtomicBool")
_ANCHORS = None


def _anchor_files(prop):
    global _ANCHORS
    if _ANCHORS is None:
        import json, os
        _ANCHORS = {}
        p = os.path.join(os.path.dirname(os.path.dirname(os.path.abspath(__file__))), "properties.jsonl")
        for l in open(p):
            j = json.loads(l)
            _ANCHORS[j["id"]] = set(j["anchors"]["files"])
    return _ANCHORS.get(prop, set())


def check_new_statics(facts, rep, rid, prop):
    """Process-wide mutable state (a `static` holding a cell / lock / once-cell) that the reference tree does not have, in a file the
    property is anchored in: the property's rules reason about per-connection / per-call state; a value cached across calls or
    connections is outside what they establish (e.g. a TLS connector built once from the first caller's settings)."""
    import normalize
    known = normalize.inventory().get("__consts__", {})
    files = _anchor_files(prop)
    n = 0
    for crate in facts.crates.values():
        for b in crate.bodies:
            if not b.kind.startswith("Static") or b.dp in known:
                continue
            ty = b.locals[0]["s"]
            if not any(c in ty for c in _CELL) or "tracing::" in ty:
                continue
            if not any(b.file.endswith(f) for f in files):
                continue
            n += 1
            rep.bad(rid, "new-static/%s" % b.path, "%s (%s)" % (loc_str(b.loc), b.path),
                    "new process-wide mutable state `%s: %s` in a file %s is anchored in: what it caches outlives the call / connection it was "
                    "computed for, which none of the property's rules accounts for" % (b.path, ty[:80], prop))
    if n == 0:
        rep.ok(rid, "no-new-process-wide-state", "", "no new static cell / lock in the anchored files", nontrivial=False)


_BEHAVIOUR_TRAITS = ("bytes::Buf", "bytes::buf::Buf", "bytes::BufMut", "tokio::io::AsyncRead", "tokio::io::AsyncWrite", "tokio::io::AsyncBufRead",
                     "core::future::Future", "core::ops::Drop", "std::io::Read", "std::io::Write", "futures_core::Stream", "futures_sink::Sink",
                     "core::iter::Iterator")


def check_new_trait_methods(facts, rep, rid, prop):
    """A method of a behaviour-bearing external trait (Buf, AsyncRead/Write/BufRead, Future, Drop, Read, Stream, Sink) implemented for a type of
    the anchored files that the reference tree does not implement: an override of a provided method (e.g. Buf::copy_to_bytes) or a new
    destructor changes what the public operations / every scope end do, and no rule of the property was written for it (the facts are
    taken before drop elaboration, so a new Drop impl is invisible to every path rule)."""
    import normalize
    inv = normalize.inventory()
    files = _anchor_files(prop)
    n = 0
    for crate in facts.crates.values():
        known = inv.get(crate.name)
        if known is None:
            continue
        for b in crate.bodies:
            if b.kind != "AssocFn" or not b.j.get("impl_trait") or b.path in known:
                continue
            tr_ = (b.j.get("impl_trait") or "").replace("std::", "core::").replace("core::io", "std::io")
            tdef = b.j.get("impl_trait_def") or tr_
            if not any(t.split("::")[-1] == tdef.split("::")[-1].split("<")[0] and t.split("::")[0] in tdef.replace("std::", "core::").replace("core::io", "std::io")
                       for t in _BEHAVIOUR_TRAITS) and not any(tr_.startswith(t) or tdef.startswith(t) for t in _BEHAVIOUR_TRAITS):
                continue
            if not any(b.file.endswith(f) for f in files):
                continue
            n += 1
            what = "a destructor" if b.name == "drop" else "`%s`" % b.name
            rep.bad(rid, "new-trait-method/%s" % b.path, "%s (%s)" % (loc_str(b.loc), b.path),
                    "%s of `%s` is implemented for `%s` here but not on the reference tree: it changes what a public operation (or every scope end) "
                    "of this type does, and none of %s's rules was written for it" % (what, tdef, (b.j.get("impl_self") or {}).get("adt") or "?", prop))
    if n == 0:
        rep.ok(rid, "no-new-trait-methods", "", "no new Buf / AsyncRead / AsyncWrite / Future / Drop / ... method on the anchored types", nontrivial=False)
