"""C11 Datagram service: host bound, field roles, never blocking / never fatal."""
from an import (Tracer, guard_at, strip, strip_casts, walk, fmt, callee, const_eval, Inter)
from mir import loc_str
from muxcommon import *
import rules_c03, rules_c10, rules_c09, rules_c04

EXPLANATION = (
    "(R1) the sender accepts exactly host lengths 0..=255 (the maximum of the wire field's u8 type): the Datagram "
    "queue-send is dominated by the `len <= 255` edge and the rejecting edge returns DatagramHostTooLong before "
    "any effect; (R2) the four fields travel unchanged: Datagram{flow_id,target_host,target_port,data} -> "
    "new_datagram_owned arguments -> DatagramPayload fields (constructor) -> encoder/decoder roles (C09) -> the "
    "Datagram built in the reaction, each in its own role (host and data are both Bytes); (R3) never blocking, "
    "never fatal: try_send only (C04.R3), the Datagram row of the reaction table (Full => no error), and every "
    "Datagram with a valid header decodes (C09.R2 on the Datagram arm).")
EXPLANATION_ADDED = 'R2 also requires that no test of the frame id can bypass the opcode dispatch (any flow id is delivered); (R4) the datagram queue is sized by datagram_buffer_size.'
EXPLANATION_ADDED2 = ' R1 also requires that every Ok(()) of the sender is dominated by the queue send.'
EXPLANATION = EXPLANATION + " Added while testing against seeded changes: " + EXPLANATION_ADDED + EXPLANATION_ADDED2
EXPLANATION = EXPLANATION + ' Round 10: (R5) datagrams reach the application in queue order: one-at-a-time receive, or a strictly first-in first-out intermediate store; the Options setter stores its argument (R4).'
EXPLANATION = EXPLANATION + ' Rounds 12-13: (R7) a datagram the sender refuses does not end the connection: at the send_datagram call sites of the client / server loops the Err edge returns to the loop (a return only under a test for Closed).'
EXPLANATION = EXPLANATION + ' Rounds 14-15: (S9) Frame::new_datagram* are exact.'
ASSUMPTIONS = ["single FIFO (S1) + bounded tokio queue give order and at-most-once"]
NOT_DECIDED = "loss only when the buffer is full (needs counting at run time)"
DG = "penguin_mux::Datagram"


def check(facts, rep, tier, cfg):
    crate = facts.crate("penguin_mux")
    if crate is None:
        rep.bad("C11.R1", "crate", "", "penguin_mux facts missing")
        return
    inter = Inter(facts)
    rep.rule("C11.R1", "sender accepts exactly host lengths 0..=255; rejection before any effect")
    rep.rule("C11.R2", "field roles preserved sender -> frame -> receiver")
    n = 0
    for b, bi, t, tr, msg in queue_sends(facts, crate):
        for cn in ctor_calls(msg, {"new_datagram", "new_datagram_owned"}):
            n += 1
            rep.analysed(b)
            where = "%s (%s)" % (loc_str(t["loc"]), b.path)
            host = cn[3][1]

            def bound(g):
                p = strip_casts(g.pred)
                if g.kind != "bool" or p.kind != "bin":
                    return None
                a, c = strip(p[2]), strip(p[3])
                if a.kind == "call" and a[6] == "len" and any(x.kind == "field" and x[2] == "target_host" for x in walk(a)):
                    k = const_eval(c)
                    if k == 255:
                        return {"Gt": {False}, "Le": {True}}.get(p[1])
                    if k == 256:
                        return {"Ge": {False}, "Lt": {True}}.get(p[1])
                return None
            doms = edge_literals_dominating(facts, b, tr, bi, bound)
            if doms:
                rep.ok("C11.R1", "host-len-bound", where, "send dominated by target_host.len() <= 255")
                gb = doms[0][0]
                g = guard_at(facts, b, tr, gb)
                rej = [s for s, v in g.edges if v not in bound(g)][0]
                region = b.reachable_from(rej, cut={gb})
                errs = [x for x in region for s in b.blocks[x]["stmts"] if s["k"] == "Assign" and s["rv"]["k"] == "Aggregate"
                        and s["rv"]["agg"].get("variant") == "DatagramHostTooLong"]
                effects = [x for x in region if is_queue_send(b.term(x))]
                if errs and not effects:
                    rep.ok("C11.R1", "too-long-rejected", where, "Err(DatagramHostTooLong), no effect")
                else:
                    rep.bad("C11.R1", "too-long-rejected", where, "a host longer than 255 bytes is not refused with DatagramHostTooLong before any effect")
            else:
                rep.bad("C11.R1", "host-len-bound", where,
                        "the Datagram send is not dominated by `target_host.len() <= 255` (the u8 wire field): accepted set of host lengths differs from 0..=255 (encoder panics / valid hosts refused)")
            # accepted = queued: no Ok return of the sending function bypasses the queue send
            oks = [x for x, blk in enumerate(b.blocks) if not blk["cleanup"] for st in blk["stmts"]
                   if st["k"] == "Assign" and st["lhs"]["l"] == 0 and not st["lhs"].get("p") and st["rv"]["k"] == "Aggregate"
                   and st["rv"]["agg"].get("variant") == "Ok"]
            if oks and all(b.dominates(bi, x) for x in oks):
                rep.ok("C11.R1", "accepted-means-queued", where, "every Ok(()) of the sender is dominated by the queue send")
            else:
                rep.bad("C11.R1", "accepted-means-queued", where,
                        "the sending function can return Ok(()) without queueing the Datagram frame (special-cased input): an accepted datagram is "
                        "lost although the connection is up and the receiver's buffer has room")
            roles = []
            for a in cn[3]:
                roles.append(sorted(rules_c03.top_roles(a)))
            want = [["Datagram.flow_id"], ["Datagram.target_host"], ["Datagram.target_port"], ["Datagram.data"]]
            if roles == want:
                rep.ok("C11.R2", "send-args", where, "new_datagram_owned(flow_id, target_host, target_port, data)")
            else:
                rep.bad("C11.R2", "send-args", where, "datagram fields are passed in roles %s, expected %s" % (roles, want))
    rep.floor("C11.R1", "Datagram emissions", n, 1)
    for b in crate.bodies:
        if b.name in ("new_datagram_owned", "new_datagram") and b.kind == "AssocFn":
            tr = Tracer(facts, b)
            rep.analysed(b)
            m = {}
            for x in walk(tr.local(0)):
                if x.kind == "agg" and x[1] == "adt":
                    for f, val in x[3]:
                        ps = [y[2] for y in walk(val) if y.kind == "param"]
                        if len(ps) == 1 and f in ("id", "target_host", "target_port", "data"):
                            m[f] = ps[0]
            where = "%s (%s)" % (loc_str(b.loc), b.path)
            if m == {"id": "id", "target_host": "target_host", "target_port": "target_port", "data": "data"}:
                rep.ok("C11.R2", "%s-mapping" % b.name, where, "each parameter lands in its own field")
            else:
                rep.bad("C11.R2", "%s-mapping" % b.name, where, "constructor maps parameters to fields as %s" % m)
    for b, bi, s, fields in struct_inits(facts, crate, DG):
        if "task::" not in b.path:
            continue
        rep.analysed(b)
        _d = rules_c10.dispatcher(crate)
        it = Inter(facts, root=_d.dp if _d else b.dp)   # expand helper parameters up to (not beyond) the frame dispatcher
        where = "%s (%s)" % (loc_str(s["loc"]), b.path)
        got = {f: sorted(rules_c03.top_roles(it.expand(b, it.tracer(b).operand(op)))) for f, op in fields.items()}
        want = {"flow_id": ["Frame.id"], "target_host": ["DatagramPayload.target_host"], "target_port": ["DatagramPayload.target_port"],
                "data": ["DatagramPayload.data"]}
        if got == want:
            rep.ok("C11.R2", "reaction-fields", where, "delivered Datagram fields <- same-role payload fields")
        else:
            rep.bad("C11.R2", "reaction-fields", where, "delivered datagram is built from %s" % got)
        # any flow id: no test of the frame's id can bypass the opcode dispatch (a datagram's flow id is opaque to the multiplexor)
        def id_guards(xb, site):
            xit = Inter(facts, root=xb.dp)
            xtr = xit.tracer(xb)
            disp = [bb for bb, v in edge_literals_dominating(facts, xb, xtr, site, lambda g: {"Datagram"} if g.kind == "discr" else None)]
            rets = set(x for x in range(len(xb.blocks)) if xb.term(x)["k"] == "Return")
            idg = []
            for D in disp[:1]:
                for bb in range(len(xb.blocks)):
                    if xb.term(bb)["k"] != "SwitchInt" or not xb.dominates(bb, D) or bb == D:
                        continue
                    g = guard_at(facts, xb, xtr, bb)
                    if g is None or g.kind == "discr":
                        continue
                    roles = set(r for x in walk(g.pred) if x.kind == "bin" for a in (x[2], x[3]) for r in rules_c03.top_roles(xit.expand(xb, a)))
                    roles |= rules_c03.top_roles(xit.expand(xb, g.pred))
                    if "Frame.id" in roles and any(rets & xb.reachable_from(t, cut={D}) for t, _ in g.edges):
                        idg.append(bb)
            return disp, idg
        xb, site = b, bi
        disp, idg = id_guards(xb, site)
        if not disp:
            # the delivery may live in a helper: look at the helper's call site inside the dispatcher
            from an import CallIndex
            for cb, cbi, ct in CallIndex(facts).callers.get(b.dp, []):
                d2, g2 = id_guards(cb, cbi)
                if d2:
                    xb, site, disp, idg = cb, cbi, d2, g2
                    break
        if not disp:
            rep.bad("C11.R2", "any-flow-id", where, "the Datagram delivery is not dominated by the opcode dispatch (anchor not recognised)")
        elif idg:
            rep.bad("C11.R2", "any-flow-id", "%s (%s)" % (loc_str(xb.term(idg[0])["loc"]), xb.path),
                    "the delivery of a datagram to the application is conditioned on the frame's flow id (guard at %s): datagrams with "
                    "some flow ids (e.g. 0, which the client uses for stdio UDP) are dropped although the buffer has room" % loc_str(xb.term(idg[0])["loc"]))
        else:
            rep.ok("C11.R2", "any-flow-id", where, "no guard on the frame id dominates the delivery")
    rep.rule("C11.R3", "never blocking, never fatal: try_send only; table row Datagram; every valid Datagram decodes")
    for mod, rule_sel, pref in ((rules_c04, lambda r, k: r == "C04.R3", "no-block/"),
                                (rules_c10, lambda r, k: "Datagram" in k or (r == "C10.R1" and "unmatched/" in k and "op:" not in k), "table/"),
                                (rules_c09, lambda r, k: "Datagram" in k and r in ("C09.R1", "C09.R2", "C09.R3", "C09.R4"), "codec/")):
        sub = type(rep)(rep.prop, rep.tier, rep.config)
        mod.check(facts, sub, tier, cfg)
        rep.paths += sub.paths
        for i in sub.instances:
            if rule_sel(i["rule"], i["key"]):
                rep.ok("C11.R3", pref + i["key"], i["where"], i["detail"], nontrivial=False)
        for v in sub.violations:
            if rule_sel(v["rule"], v["key"]):
                rep.bad("C11.R3", pref + v["key"].split("/", 1)[1], v["where"], v["msg"])

    rep.rule("C11.R4", "the datagram receive buffer is a bounded queue whose capacity is the configured datagram_buffer_size")
    check_capacity_role(facts, rep, crate, "C11.R4", "Datagram", "Options.datagram_buffer_size", "datagram receive buffer")


    # ---- R5 delivery order on the receiving side
    rep.rule("C11.R5", "datagrams reach the application in queue order: they are taken off the bounded datagram queue one at a time, or through "
                       "an intermediate store that is strictly first-in first-out (no store at all on the pinned tree)")
    check_datagram_fifo(facts, rep, crate)
    rep.rule("C11.R6", "get_datagram is cancel safe: no suspension point after a datagram has been taken off the queue (it is polled inside select! by the client and the server)")
    check_receive_cancel_safe(facts, rep, crate)
    check_option_setters(facts, rep, crate, "C11.R4", ['datagram_buffer_size'])
    check_send_failure_not_fatal(facts, rep)
    rep.rule("C11.S1", "S1: every message taken off the outbound queue is handed to the WebSocket sink by the send loop (= C02.R2): the frames this property relies on are not dropped, deduplicated or reordered on the way out")
    import_outbound_queue_rule(facts, rep, tier, cfg, "C11.S1")
    import_constructor_rule(facts, rep, "C11.S9", ['new_datagram', 'new_datagram_owned'])
    rep.rule("C11.S7", "who-may: the functions that touch the critical resources behind this property are those of the reference tree (flow table, closed flag, per-stream / datagram / outbound queues, last-pong timestamp, client id maps, shared TLS identity)")
    import whomay
    whomay.check(facts, rep, "C11.S7", "C11")
    whomay.check_new_statics(facts, rep, "C11.S7", "C11")
    whomay.check_new_trait_methods(facts, rep, "C11.S7", "C11")


_RECV_ONE = {"recv", "poll_recv", "try_recv", "blocking_recv"}
_RECV_MANY = {"recv_many", "poll_recv_many"}
_ORDERLESS = ("BinaryHeap<", "HashMap<", "HashSet<", "BTreeMap<", "BTreeSet<")
_ORDERED = ("Vec<", "VecDeque<", "LinkedList<", "SmallVec<")
_REORDER = {"swap_remove", "swap_remove_back", "swap_remove_front", "pop", "pop_back", "push_front", "sort", "sort_by", "sort_by_key",
            "sort_unstable", "sort_unstable_by", "sort_unstable_by_key", "reverse", "swap", "rotate_left", "rotate_right", "insert",
            "dedup", "dedup_by", "dedup_by_key", "retain", "retain_mut", "split_off", "truncate", "drain_filter", "extract_if"}


def check_datagram_fifo(facts, rep, crate):
    from an import Tracer, callee, walk, strip, const_eval
    k = 0
    for b in crate.bodies:
        for bi, t in b.calls():
            c = callee(t)
            if not c or "Receiver::<Datagram>" not in c["path"].replace("frame::", "").replace("crate::", "") and \
                    not ("mpsc" in c["path"] and "Receiver" in c["path"] and "Datagram" in c["path"]):
                continue
            where = "%s (%s)" % (loc_str(t["loc"]), b.path)
            if c["name"] in _RECV_ONE:
                k += 1
                rep.ok("C11.R5", "receive/%s" % b.path.split("::{")[0], where, "%s: one datagram at a time, in queue order" % c["name"])
            elif c["name"] in _RECV_MANY:
                k += 1
                rep.ok("C11.R5", "receive-batch/%s" % b.path.split("::{")[0], where, "%s: batch kept in queue order (store discipline checked below)" % c["name"], nontrivial=False)
    rep.floor("C11.R5", "receive sites on the datagram queue", k, 1)
    # intermediate stores: fields of in-crate types that hold Datagrams in a collection
    stores = []
    for dp, a in crate.adts.items():
        if not a.get("local"):
            continue
        for v in a["variants"]:
            for fl in v["fields"]:
                ty = fl["ty"]
                if "Datagram" in ty and "Receiver<" not in ty and "Sender<" not in ty and any(x in ty for x in _ORDERLESS + _ORDERED):
                    stores.append((dp, fl["name"], ty))
    if not stores:
        rep.ok("C11.R5", "no-intermediate-store", "", "no in-crate type keeps Datagrams in a collection between the queue and the application", nontrivial=False)
        return
    for dp, fname, ty in stores:
        key = "store/%s.%s" % (dp.split("::")[-1], fname)
        if any(x in ty for x in _ORDERLESS):
            rep.bad("C11.R5", key, dp, "datagrams are kept in `%s`, a collection without insertion order: they are handed to the application in a different order than they were sent" % ty)
            continue
        bad = None
        uses = 0
        for b in crate.bodies:
            tr = None
            for bi, t in b.calls():
                c = callee(t)
                if not c or not t["args"]:
                    continue
                tr = tr or Tracer(facts, b)
                if not any(x.kind == "field" and x[2] == fname for x in walk(tr.operand(t["args"][0]))):
                    continue
                uses += 1
                nm = c["name"]
                if nm in _REORDER:
                    bad = bad or (b, bi, "`%s` on the store" % nm)
                if nm == "remove":
                    idx = const_eval(strip(tr.operand(t["args"][1]))) if len(t["args"]) > 1 else None
                    if idx != 0:
                        bad = bad or (b, bi, "`remove(i)` with an index other than the constant 0")
        if bad:
            rep.bad("C11.R5", key, "%s (%s)" % (loc_str(bad[0].term(bad[1])["loc"]), bad[0].path),
                    "the intermediate datagram store `%s` is not drained first-in first-out (%s): a burst of datagrams that outruns the reader is "
                    "delivered out of order" % (fname, bad[2]))
        else:
            rep.ok("C11.R5", key, dp, "%d uses, only order-preserving operations (push_back / pop_front / remove(0) / extend / drain)" % uses)


def check_receive_cancel_safe(facts, rep, crate):
    """get_datagram is documented (and used, inside select!) as cancel safe: once a datagram has been taken off the queue the future completes
    without suspending again; an await after the dequeue loses the datagram whenever the select! takes another branch meanwhile."""
    from an import Tracer, callee, walk, strip, guard_at
    import whomay
    k = 0
    for b in crate.bodies:
        if not b.j.get("coroutine") and "{closure" not in b.path.split("::")[-1]:
            continue
        if not b.path.split("::{")[0].endswith("get_datagram"):
            continue
        # closures of this logical function that take a datagram off the queue
        takers = set()
        for kb in crate.bodies:
            if kb.path.startswith(b.path.split("::{")[0]) and "datagram-receive" in whomay.effects_of_body(facts, kb):
                takers.add(kb.dp)
        tr = Tracer(facts, b)
        for bi, t in b.calls():
            c = callee(t)
            if not c or c["name"] != "poll" or not t["args"]:
                continue
            src = tr.operand(t["args"][0])
            hit = any((x.kind == "agg" and x[1] == "closure" and x[2] in takers) or (x.kind == "closureconst" and x[1] in takers) or
                      (x.kind == "call" and x[6] in ("recv", "recv_many") and "Datagram" in x[2]) for x in walk(src))
            if not hit:
                continue
            k += 1
            where = "%s (%s)" % (loc_str(t["loc"]), b.path)
            ready = []
            for gb in range(len(b.blocks)):
                if b.term(gb)["k"] != "SwitchInt":
                    continue
                g = guard_at(facts, b, tr, gb)
                if g is None or g.kind != "discr" or not (g.adt or "").endswith("poll::Poll"):
                    continue
                r = strip(g.pred)
                if r.kind == "call" and r[4] == bi:
                    ready += [sb for sb, v in g.edges if v == "Ready"]
            later = [x for rb in ready for x in b.reachable_from(rb, cut={bi}) if b.term(x)["k"] == "Yield"]
            if later:
                rep.bad("C11.R6", "receive-cancel-safe", "%s (%s)" % (loc_str(b.term(later[0])["loc"]), b.path),
                        "get_datagram suspends again (await at %s) after it has taken a datagram off the queue: when the caller's select! completes on "
                        "another branch during that suspension the datagram is dropped although the buffer was not full" % loc_str(b.term(later[0])["loc"]))
            else:
                rep.ok("C11.R6", "receive-cancel-safe", where, "no suspension point between the dequeue and the return")
    rep.floor("C11.R6", "datagram receive awaits", k, 1)


def check_send_failure_not_fatal(facts, rep):
    """Callers of Multiplexor::send_datagram in the application crate: a refused datagram (host name too long) 'has no other effect' and
    'no datagram terminates the connection' - so the Err edge of the call must lead back into the caller's loop, not to a return of the
    function that owns the connection. Leaving only on the `Closed` variant (the multiplexor is gone anyway) is accepted."""
    rid = "C11.R7"
    rep.rule(rid, "a datagram the sender refuses does not end the connection: at every send_datagram call of the client / server loops the Err "
                  "edge returns to the loop (a return is reachable from it only under a test for the Closed variant)")
    crate = facts.crate("rusty_penguin_lib")
    if crate is None:
        return
    n = 0
    for b in crate.bodies:
        if "::tests::" in b.path or b.file.endswith("tests.rs"):
            continue
        tr = None
        for cbi, t in b.calls():
            c = callee(t)
            if not c or c["name"] != "send_datagram" or "Multiplexor" not in c["path"]:
                continue
            tr = tr or Tracer(facts, b)
            n += 1
            rep.analysed(b)
            where = "%s (%s)" % (loc_str(t["loc"]), b.path)
            key = "send-failure-not-fatal/%s" % b.path.split("::{")[0]
            # innermost loop header: dominates the call and is reachable from it
            pred = b.pred
            heads = sorted(b.loop_headers_containing(cbi) - {cbi})         # natural-loop headers whose loop contains the call
            head = heads[0] if heads else None
            if head is None:
                rep.ok(rid, key, where, "not inside a loop: nothing to tear down", nontrivial=False)
                continue
            bad = None
            for gb in b.reachable_from(cbi, cut=set(heads)):
                if b.term(gb)["k"] != "SwitchInt":
                    continue
                g = guard_at(facts, b, tr, gb)
                if g is None or not any(x.kind == "call" and x[6] == "send_datagram" for x in walk(g.pred)):
                    continue
                for succ, v in g.edges:
                    failing = (g.kind == "discr" and v in ("Err", "Break")) or \
                              (g.kind == "bool" and strip(g.pred).kind == "call" and strip(g.pred)[6] in ("is_err", "is_ok") and v == (strip(g.pred)[6] == "is_err"))
                    if not failing:
                        continue
                    # walk from the failing edge; at a test of the error's variant follow every edge except `Closed`
                    seen, st = set(), [succ]
                    while st:
                        x = st.pop()
                        if x in seen or x in heads:
                            continue
                        seen.add(x)
                        tx = b.term(x)
                        if tx["k"] == "Return":
                            bad = x
                            break
                        nxt = list(b.succ[x])
                        if tx["k"] == "SwitchInt":
                            g2 = guard_at(facts, b, tr, x)
                            if g2 is not None and g2.kind == "discr" and g2.adt and g2.adt.endswith("Error"):
                                nxt = [s2 for s2, v2 in g2.edges if v2 != "Closed"]
                        st.extend(nxt)
                    if bad is not None:
                        break
                if bad is not None:
                    break
            if bad is not None:
                rep.bad(rid, key, where,
                        "when send_datagram fails (e.g. DatagramHostTooLong for a target host of more than 255 octets) this loop returns "
                        "(%s): one refused datagram ends the whole connection and resets every stream on it" % loc_str(b.term(bad)["loc"]))
            else:
                rep.ok(rid, key, where, "the Err edge goes back to the loop")
    rep.floor(rid, "send_datagram call sites in the application loops", n, 2)
