"""Layout extraction for Buf-consuming parsers and Vec-building encoders (rules S4, C09, C18)."""
import re
from an import (Tracer, Explorer, STOP, guard_at, strip, strip_casts, walk, fmt, callee, const_eval, N)
from mir import loc_str

GET_RE = re.compile(r"^get_(u|i)(8|16|32|64|128)(_le|_ne)?$")
PUT_RE = re.compile(r"^put_(u|i)(8|16|32|64|128)(_le|_ne)?$")


# ---------------------------------------------------------------- linear forms
def lin(node):
    """Linear form {key: coeff} with key 'c' for the constant and ('v', site) for the value of a
    width-limited read performed at `site`. None if not linear."""
    node = strip_casts(node)
    v = const_eval(node)
    if v is not None:
        return {"c": v}
    k = node.kind
    if k == "bin":
        op = node[1].replace("WithOverflow", "").replace("Unchecked", "")
        a, b = lin(node[2]), lin(node[3])
        if a is None or b is None:
            return None
        if op == "Add":
            return _ladd(a, b, 1)
        if op == "Sub":
            return _ladd(a, b, -1)
        if op == "Mul":
            if set(a) <= {"c"}:
                return {k2: a.get("c", 0) * v2 for k2, v2 in b.items()}
            if set(b) <= {"c"}:
                return {k2: b.get("c", 0) * v2 for k2, v2 in a.items()}
        return None
    if k == "field" and node[2] == "0" and strip_casts(node[1]).kind == "bin":
        return lin(node[1])
    if k == "call":
        nm = node[6]
        if nm in ("from", "into", "try_from", "unwrap", "expect", "clone") and node[3]:
            return lin(node[3][0])
        if GET_RE.match(nm) or nm in ("read_u8", "len"):
            return {("v", node[4], nm): 1}
    if k == "phi":
        forms = [lin(x) for x in node[1]]
        if forms and all(f == forms[0] for f in forms) and forms[0] is not None:
            return forms[0]
    return None


def _ladd(a, b, sign):
    out = dict(a)
    for k, v in b.items():
        out[k] = out.get(k, 0) + sign * v
    return {k: v for k, v in out.items() if v != 0 or k == "c"}


def lin_nonneg(f):
    """f >= 0 for all non-negative variable values."""
    return all(v >= 0 for v in f.values())


def lin_nonpos(f):
    return all(v <= 0 for v in f.values())


def lin_str(f):
    if f is None:
        return "?"
    parts = []
    for k, v in f.items():
        if k == "c":
            if v or len(f) == 1:
                parts.append(str(v))
        else:
            parts.append(("%d*" % v if v != 1 else "") + "%s@bb%d" % (k[2], k[1]))
    return " + ".join(parts) if parts else "0"


# ---------------------------------------------------------------- parser side
def is_buf_arg(tr, op, buf_local):
    n = strip(tr.operand(op))
    return n.kind == "param" and n[1] == buf_local


def consume_paths(facts, body, buf_local=1, extra_guard=None):
    """Enumerate (with constant pruning and state memoisation) the event words of a parser body.
    Returns list of dict(events=[...], blocks=[...], end=kind)."""
    tr = Tracer(facts, body)
    guards = {}
    for bb in range(len(body.blocks)):
        if body.term(bb)["k"] == "SwitchInt":
            guards[bb] = guard_at(facts, body, tr, bb)

    def rem_guard(g):
        """For a bool guard comparing remaining()/len() of the buffer with X, return
        dict(edge_value -> ('ge'|'lt', X linear form))."""
        p = strip_casts(g.pred)
        if p.kind != "bin":
            return None
        op, a, b = p[1], strip(p[2]), strip(p[3])

        def is_rem(n):
            return n.kind == "call" and n[6] in ("remaining", "len") and n[3] and \
                strip(n[3][0]).kind == "param" and strip(n[3][0])[1] == buf_local
        if is_rem(a):
            x = lin(p[3])
            if x is None:
                return None
            one = {"c": 1}
            return {
                "Lt": {True: ("lt", x), False: ("ge", x)},
                "Ge": {True: ("ge", x), False: ("lt", x)},
                "Le": {True: ("lt", _ladd(x, one, 1)), False: ("ge", _ladd(x, one, 1))},
                "Gt": {True: ("ge", _ladd(x, one, 1)), False: ("lt", _ladd(x, one, 1))},
            }.get(op)
        if is_rem(b):
            x = lin(p[2])
            if x is None:
                return None
            one = {"c": 1}
            return {
                "Gt": {True: ("lt", x), False: ("ge", x)},
                "Le": {True: ("ge", x), False: ("lt", x)},
                "Ge": {True: ("lt", _ladd(x, one, 1)), False: ("ge", _ladd(x, one, 1))},
                "Lt": {True: ("ge", _ladd(x, one, 1)), False: ("lt", _ladd(x, one, 1))},
            }.get(op)
        return None

    rg = {}
    for bb, g in guards.items():
        if g is not None and g.kind == "bool":
            r = rem_guard(g)
            if r:
                rg[bb] = r

    def key_of(f):
        return tuple(sorted(f.items(), key=lambda kv: str(kv[0])))

    def on_term(bb, t, auto, store):
        if t["k"] != "Call":
            return auto
        c = callee(t)
        if not c:
            return auto
        nm = c["name"]
        ev = None
        if t["args"] and is_buf_arg(tr, t["args"][0], buf_local):
            m = GET_RE.match(nm)
            if m:
                ev = ("get", nm, int(m.group(2)) // 8, "le" if m.group(3) == "_le" else ("ne" if m.group(3) else "be"), bb)
            elif nm in ("split_to", "advance", "copy_to_bytes", "split_off", "truncate"):
                ln = lin(tr.operand(t["args"][1])) if len(t["args"]) > 1 else None
                ev = (nm, key_of(ln) if ln is not None else None, bb)
        if ev is None:
            if nm in ("panic", "panic_fmt", "unwrap_failed", "expect_failed", "panic_bounds_check", "assert_failed"):
                ev = ("panic", bb)
            elif nm == "from_residual" and (t.get("dest") or {}).get("l") == 0 and not (t.get("dest") or {}).get("p") \
                    and "result::Result" in c["path"].replace("std::", "core::"):
                # `?` on the Err of an (inlined) helper: the function returns Err
                ev = ("ret", "Err", "residual")
        if ev is not None and ev not in auto:
            return auto + (ev,)
        return auto

    def on_stmt(bb, i, s, auto):
        if s["k"] == "Assign" and s["lhs"]["l"] == 0 and not s["lhs"].get("p"):
            rv = s["rv"]
            if rv["k"] == "Aggregate" and rv["agg"]["a"] == "Adt" and rv["agg"]["adt"].endswith("result::Result"):
                ev = ("ret", rv["agg"]["variant"], bb)
                if rv["agg"]["variant"] == "Err":
                    n = strip(tr.operand(rv["ops"][0]))
                    if n.kind == "agg":
                        ev = ("ret", "Err", n[2].split("::")[-1])
                return auto + (ev,)
        return auto

    def on_edge(bb, succ, auto, store):
        g = guards.get(bb)
        if g is None:
            return auto
        vals = [v for s2, v in g.edges if s2 == succ]
        if not vals:
            return auto
        val = vals[0]
        if g.kind == "discr" and len(vals) > 1:
            val = "|".join(v for v in vals if v)
        if bb in rg:
            kind, x = rg[bb][val]
            ev = (kind, key_of(x), bb)
        elif g.kind == "discr":
            ev = ("variant", g.adt or _short(fmt(g.pred)), val, bb)
        elif g.kind == "int":
            ev = ("case", _short(fmt(g.pred)), val, bb)
        else:
            if is_noise_guard(body, bb):
                return auto
            ev = ("cond", _short(fmt(g.pred)), val, bb)
        if ev not in auto:
            return auto + (ev,)
        return auto

    ex = Explorer(facts, body, on_stmt=on_stmt, on_term=on_term, on_edge=on_edge, budget=60000)
    finals = ex.run(0, ())
    out = []
    for st, auto, kind in finals:
        if body.blocks[st[0]]["cleanup"]:
            continue
        out.append({"events": list(auto), "blocks": ex.witness(st), "end": kind})
    return out, tr, rg, ex


def _short(s):
    return s if len(s) < 100 else s[:100] + "…"


def is_noise_guard(body, bb):
    from mir import is_noise
    return is_noise(body.term(bb)["loc"])


def unkey(k):
    """inverse of key_of -> dict"""
    if k is None:
        return None
    return dict(k)


def s4_check(path):
    """Bounds check = consumption on one success path. Returns (problems, total_consumed_form)."""
    problems = []
    cum = {"c": 0}
    guards = []   # (cum_at_guard, X, bb)
    for ev in path["events"]:
        if ev[0] == "ge":
            guards.append((dict(cum), unkey(ev[1]), ev[2]))
        elif ev[0] == "get":
            cum = _ladd(cum, {"c": ev[2]}, 1)
            if not any(lin_nonneg(_ladd(_ladd(c0, x, 1), cum, -1)) for c0, x, _ in guards):
                problems.append(("under", "read of %d byte(s) by %s at bb%d is not covered by a preceding length check "
                                          "(consumed so far %s)" % (ev[2], ev[1], ev[4], lin_str(cum)), ev[4]))
        elif ev[0] in ("split_to", "advance", "copy_to_bytes"):
            ln = unkey(ev[1])
            if ln is None:
                problems.append(("unknown", "%s with non-linear length at bb%d" % (ev[0], ev[2]), ev[2]))
                continue
            cum = _ladd(cum, ln, 1)
            if not any(lin_nonneg(_ladd(_ladd(c0, x, 1), cum, -1)) for c0, x, _ in guards):
                problems.append(("under", "%s(%s) at bb%d is not covered by a preceding length check" % (
                    ev[0], lin_str(ln), ev[2]), ev[2]))
    for c0, x, bb in guards:
        d = _ladd(_ladd(c0, x, 1), cum, -1)
        if not lin_nonpos(d):
            problems.append(("over", "length check at bb%d demands %s byte(s) after %s consumed, but the layout on this "
                                     "path consumes only %s in total: valid inputs are rejected (excess %s)" % (
                                         bb, lin_str(x), lin_str(c0), lin_str(cum), lin_str(d)), bb))
    return problems, cum


# ---------------------------------------------------------------- encoder side
def emit_paths(facts, body, vec_pred):
    """Event words of a byte-vector builder: put_uN / extend / push on the output vector."""
    tr = Tracer(facts, body)
    guards = {}
    for bb in range(len(body.blocks)):
        if body.term(bb)["k"] == "SwitchInt":
            guards[bb] = guard_at(facts, body, tr, bb)

    def on_term(bb, t, auto, store):
        if t["k"] != "Call":
            return auto
        c = callee(t)
        if not c or not t["args"]:
            return auto
        nm = c["name"]
        a0 = strip(tr.operand(t["args"][0]))
        if not vec_pred(a0):
            return auto
        ev = None
        m = PUT_RE.match(nm)
        if m:
            ev = ("put", int(m.group(2)) // 8, "le" if m.group(3) == "_le" else "be", bb)
        elif nm in ("extend", "extend_from_slice", "put_slice", "put", "push"):
            ev = ("extend", bb)
        if ev is not None and ev not in auto:
            return auto + (ev,)
        return auto

    def on_edge(bb, succ, auto, store):
        g = guards.get(bb)
        if g is None or g.kind != "discr":
            return auto
        vals = [v for s2, v in g.edges if s2 == succ]
        if not vals or vals[0] is None:
            return auto
        ev = ("variant", g.adt or _short(fmt(g.pred)), "|".join(v for v in vals if v), bb)
        if ev not in auto:
            return auto + (ev,)
        return auto

    ex = Explorer(facts, body, on_term=on_term, on_edge=on_edge, budget=60000)
    finals = ex.run(0, ())
    out = []
    for st, auto, kind in finals:
        if body.blocks[st[0]]["cleanup"] or kind != "Return":
            continue
        out.append({"events": list(auto), "blocks": ex.witness(st)})
    return out, tr
