"""Effect engine (P6 + P7): per-function outcome sets = {(facts, effects)} with in-crate inlining under
constant-argument contexts. Used for the frame-reaction table (C10) and the teardown rules (C08)."""
import re
from an import (Tracer, Explorer, STOP, Multi, guard_at, strip, strip_casts, walk, fmt, callee, const_eval, N)
from mir import loc_str, is_noise
from shared import atomic_call, field_of_receiver, is_waker_wake, is_waker_register
from muxcommon import is_queue_send, ctors_in

CTOR_NAMES = {"new_connect": "Connect", "new_acknowledge": "Acknowledge", "new_reset": "Reset", "new_finish": "Finish",
              "new_push": "Push", "new_push_owned": "Push", "new_push_vectored": "Push", "new_bind": "Bind",
              "new_datagram": "Datagram", "new_datagram_owned": "Datagram"}

FACT_ADTS = {
    "penguin_mux::frame::Payload": "op",
    "penguin_mux::FlowSlot": "slot",
    "tokio::sync::mpsc::error::TrySendError": "trysend",
    "penguin_mux::ws::Message": "msg",
    "penguin_mux::frame::PushPayload": "push",
}


def oadd(t, items, eng=None):
    """ordered-unique append (or sorted set union when the engine is unordered)"""
    if eng is not None and eng.keep is not None:
        items = [x for x in items if eng.keep(x[4:] if x.startswith("may:") else x)]
    if eng is not None and not eng.ordered:
        return tuple(sorted(set(t) | set(items)))
    out = list(t)
    seen = set(t)
    for x in items:
        if x not in seen:
            seen.add(x)
            out.append(x)
    return tuple(out)


def _residual_err_name(node, depth=0):
    """Variant name of the error when the residual is (only through moves, downcasts and Try::branch) an
    `Err(Error::X)` aggregate built in this body; None when it comes from anywhere else."""
    n = strip(node)
    if depth > 12:
        return None
    if n.kind in ("field", "downcast"):
        return _residual_err_name(n[1], depth + 1)
    if n.kind == "call" and n[6] == "branch" and n[3]:
        return _residual_err_name(n[3][0], depth + 1)
    if n.kind == "phi":
        names = set(_residual_err_name(x, depth + 1) for x in n[1])
        names.discard(None)
        return sorted(names)[0] if len(names) == 1 else None
    if n.kind == "agg" and n[1] == "adt" and n[2].endswith("Result::Err") and n[3]:
        e = strip(n[3][0][1])
        if e.kind == "agg" and e[1] == "adt":
            return e[2].split("::")[-1]
    return None


class EffectEngine:
    def __init__(self, facts, crate_name="penguin_mux", maxdepth=40, extra_call_effects=None, ordered=False,
                 keep=None, keep_fact=None, opaque=None):
        self.opaque = opaque
        self.ordered = ordered
        self.keep = keep
        self.keep_fact = keep_fact
        self.facts = facts
        self.crate = facts.crate(crate_name)
        self.memo = {}
        self.maxdepth = maxdepth
        self.inprog = set()
        self.states = 0
        self.tracers = {}
        self.extra = extra_call_effects
        self.exhausted = False
        self.sites = set()
        self.trunc = 0

    def tracer(self, b):
        t = self.tracers.get(b.dp)
        if t is None:
            t = Tracer(self.facts, b)
            self.tracers[b.dp] = t
        return t

    # ------------------------------------------------------------ classification of one call
    def call_effects(self, b, tr, bi, t):
        c = callee(t)
        if c is None:
            return set()
        name, d, path = c["name"], c["def"], c["path"]
        out = set()
        if is_queue_send(t):
            cs = ctors_in(tr.operand(t["args"][1]))
            for x in cs:
                out.add("send:" + CTOR_NAMES.get(x, x.replace("Message::", "")))
            if not cs:
                out.add("send:?")
            return out
        if "HashMap" in d and "FlowSlot" in path:
            if name == "entry":
                out.add("map:get_mut")        # a lookup; what is done with the entry is classified below
            elif name in ("insert", "remove", "drain", "clear", "retain", "get_mut", "get", "contains_key", "values", "values_mut", "iter", "iter_mut"):
                out.add("map:" + name)
            return out
        if "FlowSlot" in path and ("OccupiedEntry" in d or "VacantEntry" in d or "hash_map::Entry" in d or "::Entry<" in d):
            # entry API on the flow table = the same table operations
            if name in ("remove", "remove_entry"):
                out.add("map:remove")
            elif name in ("insert", "insert_entry", "or_insert", "or_insert_with", "or_insert_with_key", "or_default"):
                out.add("map:insert")
            return out
        a = atomic_call(t)
        if a and t["args"]:
            f = field_of_receiver(tr, t["args"][0]) or ""
            if f.endswith(".psh_send_remaining") and a == "fetch_add":
                out.add("credit+=")
            elif f.endswith(".finish_sent") and a in ("swap", "store", "fetch_or"):
                out.add("flag:set")
            return out
        if is_waker_wake(t):
            return {"wake"}
        if name == "take" and "option::Option" in d and "mpsc::Sender<bytes::Bytes>" in path:
            return {"take-sender"}
        if name == "send" and "oneshot::Sender" in d:
            v = strip(tr.operand(t["args"][1]))
            if v.kind == "const":
                return {"oneshot:%s" % ("true" if v[1] else "false")}
            if v.kind == "agg":
                return {"oneshot:%s" % v[2].split("::")[-1]}
            return {"oneshot:?"}
        if name in ("try_send", "send", "reserve", "blocking_send", "send_timeout") and "mpsc" in d and "Sender" in d:
            kind = "try" if name == "try_send" else "blocking"
            if "Sender::<bytes::Bytes>" in path:
                return {"dispatch" if kind == "try" else "dispatch-blocking"}
            if "Sender::<Datagram>" in path:
                return {"dgram-dispatch" if kind == "try" else "dgram-dispatch-blocking"}
            if "Sender::<stream::MuxStream>" in path:
                return {"accept-queue" if kind == "blocking" else "accept-queue-try"}
            if "BindRequest" in path:
                return {"bind-queue" if kind == "blocking" else "bind-queue-try"}
        if name == "close" and "mpsc" in d and "Receiver" in d:
            if "UnboundedReceiver::<ws::Message>" in path:
                return {"outq:close"}
            if "UnboundedReceiver::<u32>" in path:
                return {"dropq:close"}
        if name in ("recv", "poll_recv") and "UnboundedReceiver::<ws::Message>" in path:
            return {"outq:recv"}
        if name in ("recv", "poll_recv") and "UnboundedReceiver::<u32>" in path:
            return {"dropq:recv"}
        if name in ("timeout", "now_or_never", "timeout_at") :
            return {"bounded:" + name}
        if name in ("tick",) and "Interval" in d:
            return {"tick"}
        if name == "replace" and d.endswith("mem::replace") and "FlowSlot" in path:
            return {"establish"}
        if c.get("trait", "").endswith("ws::WebSocket"):
            return {"ws:" + name.replace("_unpin", "")}
        if name in ("panic", "panic_fmt", "assert_failed", "unwrap_failed", "expect_failed", "panic_bounds_check") and "panicking" in d:
            return {"panic"}
        if self.extra:
            e = self.extra(b, tr, bi, t, c)
            if e:
                return set(e)
        return out

    # ------------------------------------------------------------ facts from a branch edge
    def edge_fact(self, b, tr, g, succ):
        vals = [v for s2, v in g.edges if s2 == succ]
        if not vals:
            return None
        if g.kind == "discr":
            if any(v is None for v in vals):
                return None
            v = "|".join(vals)
            tag = FACT_ADTS.get(g.adt)
            if tag:
                return "%s:%s" % (tag, v)
            if g.adt and g.adt.endswith("::Entry") and any(x.kind == "call" and x[6] == "entry" and "FlowSlot" in x[2] for x in walk(g.pred)):
                return "slot:%s" % ("absent" if v == "Vacant" else "present")
            if g.adt and g.adt.endswith("option::Option"):
                p = g.pred
                calls = [x for x in walk(p) if x.kind == "call"]
                for x in calls:
                    if "HashMap" in x[1] and "FlowSlot" in x[2] and x[6] in ("get", "get_mut", "remove"):
                        return "slot:%s" % ("absent" if v == "None" else "present")
                    if x[6] == "dispatch":
                        return "dispatch:%s" % v
                flds = [x[2] for x in walk(p) if x.kind == "field"]
                if "bnd_request_tx" in flds:
                    return "bind:%s" % ("enabled" if v == "Some" else "disabled")
                return None
            if g.adt and g.adt.endswith("result::Result"):
                for x in walk(g.pred):
                    if x.kind == "call" and x[6] == "try_send":
                        return "trysend:%s" % v
                    if x.kind == "call" and x[6] == "dispatch":
                        return "dispatch-result:%s" % v
                return None
            if g.adt and g.adt.endswith("__PrivResult"):
                return "select:%s" % v
            if g.adt and g.adt.endswith("ControlFlow"):
                for x in walk(g.pred):
                    if x.kind == "field" and x[2] == "sender":
                        return "read:%s" % ("open" if v == "Continue" else "closed")
                return None
            return None
        if g.kind == "bool":
            if is_noise(b.term(g.bb)["loc"]):
                return None
            val = vals[0]
            p = strip_casts(g.pred)
            sp = strip(p)
            if sp.kind == "call" and sp[6] == "contains_key" and "FlowSlot" in sp[2]:
                return "slot:%s" % ("present" if val else "absent")
            if sp.kind == "bin" and sp[1] in ("Eq", "Ne") and const_eval(sp[3]) == 0:
                nm = self._var_name(b, sp[2])
                if nm:
                    z = val if sp[1] == "Eq" else (not val)
                    return "%s:%s" % (nm, "zero" if z else "nonzero")
            nm = self._var_name(b, sp)
            if nm:
                return "%s:%s" % (nm, "true" if val else "false")
            if sp.kind == "call" and sp[6] in ("disallow_write",):
                return "finish_sent_old:%s" % ("true" if val else "false")
            if sp.kind == "call" and sp[6] in ("is_none", "is_some") and any(x.kind == "call" and x[6] == "disallow_read" for x in walk(sp)):
                return None
        return None

    def _var_name(self, b, node):
        n = strip(node)
        if n.kind == "param":
            return n[2]
        if n.kind == "field" and strip(n[1]).kind == "param" and strip(n[1])[1] == 1 and n[2].isdigit() and b.kind == "Closure":
            return b.upvar_names.get(int(n[2]), "upvar%s" % n[2])
        return None

    # ------------------------------------------------------------ outcomes
    def target_body(self, c):
        """In-crate body to inline for a call, or None."""
        dp = c.get("res") or c["dp"]
        b = self.facts.by_dp.get(dp)
        if b is None or b.crate.name != self.crate.name:
            return None
        return b

    def outcomes(self, b, ctx=(), depth=0):
        """Set of (facts frozenset, effects frozenset) over all normal-return paths of `b`."""
        key = (b.dp, tuple(sorted(ctx, key=lambda kv: str(kv[0]))))
        if key in self.memo:
            return self.memo[key]
        if key in self.inprog or depth > self.maxdepth:
            self.trunc += 1
            return {(frozenset(), ("recursion",))}
        self.inprog.add(key)
        trunc0 = self.trunc
        tr = self.tracer(b)
        guards = {}
        for bb in range(len(b.blocks)):
            if b.term(bb)["k"] == "SwitchInt":
                guards[bb] = guard_at(self.facts, b, tr, bb)
        eng = self

        def const_args(t, store, ex):
            out = []
            for i, a in enumerate(t["args"]):
                v = ex._const_of(a, store)
                if v is not None and not isinstance(v, tuple):
                    out.append((i + 1, v))
            return tuple(out)

        def combine(auto, outs, may=False):
            res = []
            for f2, e2 in outs:
                if may:
                    res.append((auto[0], oadd(auto[1], [x if x.startswith("may:") else "may:" + x for x in e2], eng)))
                else:
                    res.append((auto[0] | f2, oadd(auto[1], e2, eng)))
            return res

        def on_stmt(bb, i, s, auto):
            if s["k"] == "Assign" and s["rv"]["k"] == "Aggregate":
                a = s["rv"]["agg"]
                if a["a"] in ("Coroutine",) and a["def"] in eng.facts.by_dp and not a.get("spliced"):
                    cb = eng.facts.by_dp[a["def"]]
                    # upvar constants from the creation operands
                    ctx2 = []
                    for k, o in enumerate(s["rv"]["ops"]):
                        v = ex._const_of(o, ex.cur_store) if getattr(ex, "cur_store", None) is not None else None
                        if v is not None and not isinstance(v, tuple):
                            ctx2.append((("u", k), v))
                    outs = eng.outcomes(cb, tuple(ctx2), depth + 1)
                    res = combine(auto, outs)
                    return Multi(res) if len(res) != 1 else res[0]
            if s["k"] == "Assign" and s["rv"]["k"] == "Aggregate" and s["rv"]["agg"]["a"] == "Adt" \
                    and s["rv"]["agg"]["adt"] == "penguin_mux::stream::MuxStream":
                # a stream handle comes into existence: dropping it notifies the task, which closes the flow registered under its id
                if eng.keep is None or eng.keep("mk-stream"):
                    eng.sites.add((b.dp, bb, "mk-stream"))
                    return (auto[0], oadd(auto[1], ["mk-stream"], eng))
            if s["k"] == "Assign" and s["lhs"]["l"] == 0 and not s["lhs"].get("p") and s["rv"]["k"] == "Aggregate":
                a = s["rv"]["agg"]
                if a["a"] == "Adt" and a["adt"].endswith("result::Result") and a["variant"] == "Err":
                    n = strip(tr.operand(s["rv"]["ops"][0]))
                    nm = n[2].split("::")[-1] if n.kind == "agg" else "?"
                    return (auto[0], oadd(auto[1], ["ret:Err(%s)" % nm], eng))
            return auto

        cur_store = [None]

        def on_term(bb, t, auto, store):
            cur_store[0] = store
            if t["k"] != "Call":
                return auto
            c = callee(t)
            if c is None:
                return auto
            effs = eng.call_effects(b, tr, bb, t)
            if c["name"] == "from_residual" and (t.get("dest") or {}).get("l") == 0 and not (t.get("dest") or {}).get("p") and t["args"]:
                # `?` on the Err built by a helper that normalize.py inlined here: the function returns that Err
                nm = _residual_err_name(tr.operand(t["args"][0]))
                if nm:
                    effs = set(effs or ()) | {"ret:Err(%s)" % nm}
            if effs:
                for e in effs:
                    eng.sites.add((b.dp, bb, e))
            if effs:
                auto = (auto[0], oadd(auto[1], sorted(e for e in effs if e != "~"), eng))
            # closure call
            tb = eng.target_body(c)
            if tb is not None and eng.opaque is not None and eng.opaque(tb):
                auto = (auto[0], oadd(auto[1], ["call:" + tb.name], None))
                tb = None
                effs = effs or {"~"}
            if tb is not None and tb.j.get("coroutine"):
                tb = None  # coroutine bodies are accounted for where the future is created
                effs = effs or {"~"}
            results = [auto]
            if tb is not None and not effs:
                ca = const_args(t, store, ex)
                outs = eng.outcomes(tb, ca, depth + 1)
                results = combine(auto, outs)
            elif tb is None:
                # in-crate closures passed to an external combinator: may be called
                for a in t["args"]:
                    n = strip(tr.operand(a))
                    if n.kind == "agg" and n[1] == "closure" and n[2] in eng.facts.by_dp:
                        cb = eng.facts.by_dp[n[2]]
                        if cb.crate.name != eng.crate.name or cb.j.get("coroutine"):
                            continue
                        outs = eng.outcomes(cb, (), depth + 1)
                        new = []
                        for r in results:
                            new += combine(r, outs, may=True)
                        results = new
            results = list(dict.fromkeys(results))
            return Multi(results) if len(results) != 1 else results[0]

        def on_edge(bb, succ, auto, store):
            g = guards.get(bb)
            if g is None:
                return auto
            f = eng.edge_fact(b, tr, g, succ)
            if f is None or (eng.keep_fact is not None and not eng.keep_fact(f)):
                return auto
            return (auto[0] | frozenset([f]), auto[1])

        ex = Explorer(self.facts, b, on_stmt=on_stmt, on_term=on_term, on_edge=on_edge, budget=120000, init_store=ctx)
        finals = ex.run(0, (frozenset(), ()))
        self.states += len(ex.seen)
        if ex.exhausted:
            self.exhausted = True
        outs = set()
        for st, auto, kind in finals:
            if kind == "Return" and not b.blocks[st[0]]["cleanup"]:
                outs.add(auto)
            elif kind == "Unreachable" or (kind not in ("Return",) and not b.blocks[st[0]]["cleanup"]):
                # diverging path (panic): record as an outcome only if a panic effect was seen
                if "panic" in auto[1]:
                    outs.add((auto[0], oadd(auto[1], ["diverges"])))
        self.inprog.discard(key)
        if self.trunc == trunc0:
            self.memo[key] = outs
        return outs


