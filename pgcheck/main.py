#!/usr/bin/env python3
"""pgcheck entry point: ./check <Cxx|all> [--tier quick|thorough]"""
import importlib, json, os, sys, time, traceback

HERE = os.path.dirname(os.path.abspath(__file__))
sys.path.insert(0, HERE)

import extract, normalize
from core import Report, merge_reports, finish
from mir import Facts

PROPS = ["C%02d" % i for i in range(1, 21)]


def load_rules(prop):
    return importlib.import_module("rules_%s" % prop.lower())


_facts_cache = {}


def get_facts(config, thash):
    key = (config, thash)
    if key not in _facts_cache:
        d = extract.ensure_facts(config, thash)
        f = Facts(d)
        try:
            pairs = normalize.detect_adt_renames(f)
            pre = []
            if pairs:
                # private types renamed: reload the fact files with the inventory names written back
                f = Facts(d, text_filter=normalize.adt_rename_filter(pairs))
                pre = ["type rename %s -> treated as %s" % (n, o) for o, n in pairs]
            normalize.apply(f)
            f.normalize_log = pre + list(getattr(f, "normalize_log", []))
        except Exception as e:      # normalisation is an aid, never a reason to fail: analyse the facts as extracted
            f = Facts(d)
            f.normalize_log = ["normalisation skipped after an internal error: %s: %s" % (type(e).__name__, str(e)[:200])]
        _facts_cache[key] = f
    return _facts_cache[key]


def run_prop(prop, tier):
    t0 = time.time()
    mod = load_rules(prop)
    thash, nfiles = extract.tree_hash()
    configs = list(getattr(mod, "QUICK_CONFIGS", ["default"]))
    if tier == "thorough":
        for c in getattr(mod, "THOROUGH_CONFIGS", []):
            if c not in configs:
                configs.append(c)
    reports = []
    cfg_info = []
    for cfg in configs:
        rep = Report(prop, tier, cfg)
        try:
            facts = get_facts(cfg, thash)
        except extract.ExtractError as e:
            rep.bad("%s.build" % prop, "extract/%s" % cfg, "",
                    "fact extraction failed (fail closed): %s" % str(e)[:2000])
            reports.append(rep)
            continue
        cfg_info.append({"config": cfg, "crates": {c.name: len(c.bodies) for c in facts.crates.values()},
                         "features": {c.name: c.features for c in facts.crates.values()},
                         "normalization": list(getattr(facts, "normalize_log", []))})
        try:
            mod.check(facts, rep, tier, cfg)
        except Exception as e:  # fail closed
            tb = traceback.format_exc()
            rep.bad("%s.internal" % prop, "exception/%s" % cfg, "",
                    "rule engine raised %s (fail closed)\n%s" % (e, tb[-3000:]))
        reports.append(rep)
    rep = merge_reports(reports)
    wall = time.time() - t0
    return finish(rep, getattr(mod, "META", {}), wall, thash, cfg_info,
                  getattr(mod, "EXPLANATION", ""), getattr(mod, "ASSUMPTIONS", []),
                  getattr(mod, "NOT_DECIDED", ""))


def main(argv):
    tier = os.environ.get("VERIF_TIER", "quick")
    props = []
    i = 0
    while i < len(argv):
        a = argv[i]
        if a == "--tier":
            tier = argv[i + 1]
            i += 2
            continue
        if a == "all":
            props = list(PROPS)
        elif a == "setup":
            extract.ensure_driver()
            extract.ensure_facts("default")
            return 0
        else:
            props.append(a)
        i += 1
    if tier not in ("quick", "thorough"):
        tier = "quick"
    rc = 0
    for p in props:
        rc |= run_prop(p, tier)
    return rc


if __name__ == "__main__":
    sys.exit(main(sys.argv[1:]))
