"""C04 Streams always make progress while the application keeps reading (configuration / no-blocking clauses)."""
from an import (Tracer, guard_at, strip, strip_casts, walk, fmt, callee, const_eval, Inter)
from mir import loc_str
from shared import (s2_unjustified_pending, s3_register_recheck, s3b_wake_after_write, is_poll_body)
from muxcommon import *
import rules_c03

EXPLANATION = (
    "Structural necessary conditions for progress: (R1) the per-stream acknowledgement threshold is "
    "min(..) of values that include the window this endpoint granted to the peer (the inbound queue capacity, "
    "Options.rwnd): if the threshold can exceed our own window the peer runs out of credit before we ever "
    "acknowledge and both writers block forever (e.g. local rwnd 4, threshold 8, peer rwnd 16); (R2) the "
    "options API only stores rwnd / threshold values dominated by a `> 0` check; (R3) the connection task never "
    "performs a blocking send on a per-stream or datagram queue (no send/reserve/blocking_send on "
    "Sender<Bytes>/Sender<Datagram> in penguin_mux; try_send present as positive control); (R4) parked writers "
    "are woken by every grant and close (S3/S3b); (R5) no unjustified Pending on the writer path (S2).")
EXPLANATION_ADDED = '(R6) advertised window = local rwnd (=C03.R3/R4); (R7) credit-implies-push (=C03.R7); R1 requires the threshold to be a min that includes the local window.'
EXPLANATION = EXPLANATION + " Added while testing against seeded changes: " + EXPLANATION_ADDED
EXPLANATION = EXPLANATION + ' Round 10: R2 also requires the window setters to store their argument.'
ASSUMPTIONS = ["tokio mpsc try_send never blocks", "fair scheduling of tasks (liveness itself is not decided)"]
NOT_DECIDED = "liveness under fairness; isolation of a slow stream beyond the no-blocking rule"
THOROUGH_CONFIGS = ["mux-nodefault", "mux-std-only", "mux-nohash"]
MUX = "penguin_mux::stream::MuxStream"


def check(facts, rep, tier, cfg):
    crate = facts.crate("penguin_mux")
    if crate is None:
        rep.bad("C04.R1", "crate", "", "penguin_mux facts missing")
        return
    inter = Inter(facts)
    rep.rule("C04.R1", "ack threshold initialiser = min(..) whose operands include the local window (inbound queue capacity source)")
    n = 0
    for b, bi, s, fields in struct_inits(facts, crate, MUX):
        if "rwnd_threshold" not in fields:
            continue
        n += 1
        rep.analysed(b)
        where = "%s (%s)" % (loc_str(s["loc"]), b.path)
        tr = inter.tracer(b)
        v = tr.operand(fields["rwnd_threshold"])
        sv = strip(v)
        # capacity source in the same body
        cap = set()
        for bj, t in b.calls():
            c = callee(t)
            if c and c["name"] == "channel" and "mpsc" in c["def"] and "bytes::Bytes" in c["path"]:
                cap |= rules_c03._flat_fields(tr.operand(t["args"][0]))
        if not cap:
            cap = {"Task.rwnd"}
        mins = [x for x in walk(v) if x.kind == "call" and x[6] in ("min", "clamp")]
        ok = False
        srcs = set()
        for m in mins:
            for a in m[3]:
                srcs |= rules_c03._flat_fields(a)
        if mins and (srcs & cap) and sv.kind == "call" and sv[6] in ("min", "clamp") and sv in mins:
            ok = True
        if ok:
            rep.ok("C04.R1", "threshold-bounded-by-own-window", where, "min over %s includes %s" % (sorted(srcs), sorted(cap)))
        else:
            rep.bad("C04.R1", "threshold-bounded-by-own-window", where,
                    "the acknowledgement threshold `%s` is not bounded by the window this endpoint grants to the peer "
                    "(%s): with threshold > own rwnd the peer exhausts its credit before an Acknowledge is ever sent and "
                    "both directions stall (e.g. local rwnd 4, threshold 8, peer rwnd 16)" % (fmt(sv), sorted(cap)))
    rep.floor("C04.R1", "threshold initialisations", n, 1)

    rep.rule("C04.R2", "Options::rwnd / default_rwnd_threshold store only values dominated by `> 0`")
    n = 0
    for b, bi, si, s in field_stores(crate, "penguin_mux::config::Options", "rwnd"):
        n += _check_positive(facts, rep, b, bi, s, "rwnd")
    for b, bi, si, s in field_stores(crate, "penguin_mux::config::Options", "default_rwnd_threshold"):
        n += _check_positive(facts, rep, b, bi, s, "default_rwnd_threshold")
    rep.floor("C04.R2", "option setters", n, 2)

    rep.rule("C04.R3", "no blocking send on Sender<Bytes>/Sender<Datagram> in penguin_mux (try_send only)")
    blocking = 0
    tries = {"bytes::Bytes": 0, "Datagram": 0}
    for b in crate.bodies:
        for bi, t in b.calls():
            c = callee(t)
            if not c or "mpsc::Sender" not in c["def"] and "mpsc::bounded::Sender" not in c["def"]:
                continue
            which = "bytes::Bytes" if "Sender::<bytes::Bytes>" in c["path"] else ("Datagram" if "Sender::<Datagram>" in c["path"] else None)
            if which is None:
                continue
            where = "%s (%s)" % (loc_str(t["loc"]), b.path)
            if c["name"] in ("send", "reserve", "reserve_owned", "send_timeout", "blocking_send", "reserve_many"):
                blocking += 1
                rep.bad("C04.R3", "blocking-%s/%s" % (c["name"], which), where,
                        "the connection task awaits capacity on a bounded %s queue: one slow reader stalls every stream, "
                        "new stream requests and datagrams on the connection" % which)
            elif c["name"] == "try_send":
                tries[which] += 1
                rep.ok("C04.R3", "try_send/%s/%s" % (which, b.path), where, "non-blocking dispatch")
    for which, k in tries.items():
        rep.floor("C04.R3", "try_send on Sender<%s> (positive control)" % which, k, 1)
    if not blocking:
        rep.ok("C04.R3", "no-blocking-send", "penguin_mux", "0 blocking sends on per-stream / datagram queues")

    rep.rule("C04.R4", "S3 + S3b on the credit path (see C12)")
    takes = credit_take_bodies(facts, crate)
    for b in takes:
        inst, viol, regs = s3_register_recheck(facts, b)
        for r, fields in inst:
            rep.ok("C04.R4", "%s/register" % b.path, "%s (%s)" % (loc_str(b.term(r)["loc"]), b.path), "re-loads %s" % fields)
        for r, missing, wit in viol:
            rep.bad("C04.R4", "%s/register" % b.path, "%s (%s)" % (loc_str(b.term(r)["loc"]), b.path),
                    "register-then-recheck missing for %s (see C12.R1): a blocked writer can sleep forever" % ", ".join(missing))
    for b in crate.bodies:
        ok, bad = s3b_wake_after_write(facts, b)
        for bi, f, a in ok:
            rep.ok("C04.R4", "%s/%s" % (b.path, a), "%s (%s)" % (loc_str(b.term(bi)["loc"]), b.path), "then wake")
        for bi, f, a in bad:
            rep.bad("C04.R4", "%s/%s" % (b.path, a), "%s (%s)" % (loc_str(b.term(bi)["loc"]), b.path), "%s on %s without wake" % (a, f))
    rep.rule("C04.R5", "S2 on the stream's own poll functions")
    n = 0
    for b in crate.bodies:
        if is_poll_body(b) and b.j.get("impl_self", {}).get("adt") == MUX:
            n += 1
            rep.analysed(b)
            out, states, exh = s2_unjustified_pending(facts, b)
            rep.paths += states
            if out:
                for k, (wit, pb) in enumerate(out):
                    rep.bad("C04.R5", "%s/pending#%d" % (b.path, k), "%s (%s)" % (loc_str(b.term(pb)["loc"]), b.path), "unjustified Pending on the stream's poll path")
            else:
                rep.ok("C04.R5", b.path, "%s (%s)" % (loc_str(b.loc), b.path), "%d states" % states)
    rep.floor("C04.R5", "MuxStream poll functions", n, 8 if "std" in crate.features else 3)
    # ---- R6 the window granted to the peer is the window the threshold is measured against
    rep.rule("C04.R6", "the window advertised to the peer (Connect / handshake Acknowledge) is the local rwnd that bounds the ack threshold (= C03.R3/R4)")
    sub = type(rep)(rep.prop, rep.tier, rep.config)
    rules_c03.check_r3_r4(facts, sub, crate, inter)
    for i in sub.instances:
        rep.ok("C04.R6", i["key"], i["where"], i["detail"], nontrivial=False)
    for v in sub.violations:
        rep.bad("C04.R6", v["key"].split("/", 1)[1], v["where"], v["msg"])
    # ---- R7 no credit is consumed without a frame (a leaked credit is never acknowledged: the writer eventually parks for good)
    rep.rule("C04.R7", "every successful credit take is followed by a Push on every success path (= C03.R7)")
    sub = type(rep)(rep.prop, rep.tier, rep.config)
    rules_c03.check_r7(facts, sub, crate, credit_take_bodies(facts, crate))
    for i in sub.instances:
        rep.ok("C04.R7", i["key"], i["where"], i["detail"], nontrivial=False)
    for v in sub.violations:
        rep.bad("C04.R7", v["key"].split("/", 1)[1], v["where"], v["msg"])
    check_option_setters(facts, rep, crate, "C04.R2", ['rwnd', 'default_rwnd_threshold'])
    rep.rule("C04.S7", "no new process-wide mutable state (static cell / lock / once-cell) in the files this property is anchored in")
    import whomay
    whomay.check(facts, rep, "C04.S7", "C04")
    whomay.check_new_statics(facts, rep, "C04.S7", "C04")
    whomay.check_new_trait_methods(facts, rep, "C04.S7", "C04")


def _check_positive(facts, rep, b, bi, s, what):
    tr = Tracer(facts, b)
    v = strip(tr.rvalue(s["rv"]))
    where = "%s (%s)" % (loc_str(s["loc"]), b.path)
    if v.kind != "param":
        # struct-literal defaults are handled elsewhere; only setters store a parameter
        return 0
    rep.analysed(b)

    def pos(g):
        if g.kind != "bool":
            return None
        p = strip_casts(g.pred)
        if p.kind != "bin":
            return None
        a, c = strip(p[2]), strip(p[3])
        if a == v and const_eval(c) == 0:
            return {"Gt": {True}, "Ne": {True}, "Eq": {False}, "Le": {False}}.get(p[1])
        if a == v and const_eval(c) == 1:
            return {"Ge": {True}, "Lt": {False}}.get(p[1])
        if c == v and const_eval(a) == 0:
            return {"Lt": {True}, "Ne": {True}, "Eq": {False}, "Ge": {False}}.get(p[1])
        return None
    if edge_literals_dominating(facts, b, tr, bi, pos):
        rep.ok("C04.R2", "Options::%s" % what, where, "stored value dominated by `%s > 0`" % v[2])
    else:
        rep.bad("C04.R2", "Options::%s" % what, where, "Options::%s accepts 0: a zero window / threshold makes every stream stall" % what)
    return 1
