"""C02 Streams deliver bytes intact, in order, exactly once, without cross-talk (routing / FIFO skeleton)."""
from an import (Tracer, guard_at, strip, strip_casts, walk, fmt, callee, const_eval, Inter, leaves)
from mir import loc_str
from muxcommon import *
import rules_c03, rules_c10

EXPLANATION = (
    "(R1) routing: in the Push reaction the flow-table key is the frame's id and the value dispatched is the "
    "frame's own payload, sent through that slot's sender (provenance); (R2 = S1) single ordered outbound queue: "
    "the WebSocket sink's start_send is called only with messages taken from the outbound receiver, and every "
    "frame reaches the wire only through a queue-send on that queue; (R3) the reader keeps the remainder: "
    "consume(amt) advances the buffer by amt, poll_read copies and consumes the same min(got.len(), remaining), "
    "and the buffer is overwritten only when empty; (R4) honest write counts: poll_write returns the length of "
    "the slice that went into the frame, poll_write_vectored the sum of the lengths of exactly the slices pushed.")
EXPLANATION_ADDED = '(R5) advertised window = inbound queue capacity (=C03.R3/R4); (R6) Connect/Acknowledge cells never replace a live slot (C10 table); (R7) no empty Push reaches the wire (=C05.R1); R2 also requires that a message dequeued from the outbound queue always reaches start_send before the poll function returns.'
EXPLANATION_ADDED2 = ' (R8) the whole C03 rule set as a precondition of loss-free delivery; (R9) the C09 rules on Push frames. (R11) at teardown the source is dispatched before the flow table is drained and a dispatch error does not end that loop (= C05.R5).'
EXPLANATION = EXPLANATION + " Added while testing against seeded changes: " + EXPLANATION_ADDED + EXPLANATION_ADDED2
EXPLANATION = EXPLANATION + ' Rounds 12-13: (R11) at teardown the source is dispatched before the flow table is drained and one undispatchable message does not end that loop (= C05.R5).'
EXPLANATION = EXPLANATION + " Rounds 14-15: (R12) only the stream handle's Drop reports its id on the dropped-flows queue, conditionally or not (= C06.R7); R4 also pairs, path-wise, every slice counted by a vectored write with a slice put into the frame; (S8) the WebSocket adapters hand over every message; (S9) the Push constructors are exact."
EXPLANATION = EXPLANATION + " Rounds 16-17: S8 also covers the outgoing half of the adapters (start_send / poll_ready / poll_flush / poll_close hand on the result of the underlying call; no branch on the library's error kinds)."
EXPLANATION = EXPLANATION + ' Round 18: (R13) the flow-id generators return only ids that are not in the flow table and non-zero (= C07.R1 / R2).'
ASSUMPTIONS = ["tokio channels are FIFO; the WebSocket sink preserves message order"]
NOT_DECIDED = "that no interleaving corrupts or duplicates bytes (follows from R1-R4 + FIFO, not re-proved)"
THOROUGH_CONFIGS = ["mux-nodefault", "mux-std-only", "mux-yawc"]
MUX = "penguin_mux::stream::MuxStream"


def check(facts, rep, tier, cfg):
    crate = facts.crate("penguin_mux")
    if crate is None:
        rep.bad("C02.R1", "crate", "", "penguin_mux facts missing")
        return
    # ---- R1
    rep.rule("C02.R1", "Push routed by the frame's id; payload dispatched is the frame's payload, via that slot's sender")
    sub = type(rep)(rep.prop, rep.tier, rep.config)
    rules_c10.check(facts, sub, tier, cfg)
    rep.paths += sub.paths
    for i in sub.instances:
        if i["rule"] == "C10.R2" and i["key"].startswith("key/get/") or i["key"] in ("cell/Push/delivered-or-closed", "cell/Push/no-taker"):
            rep.ok("C02.R1", i["key"], i["where"], i["detail"])
    for v in sub.violations:
        k = v["key"].split("/", 1)[1]
        if (v["rule"] == "C10.R2" and "key/get" in k) or "Push" in k:
            rep.bad("C02.R1", k, v["where"], v["msg"])
    d = rules_c10.dispatcher(crate)
    n = 0
    for b in crate.bodies:
        tr = None
        for bi, t in b.calls():
            c = callee(t)
            if c and c["name"] == "try_send" and "Sender::<bytes::Bytes>" in c["path"]:
                tr = tr or Tracer(facts, b)
                n += 1
                rep.analysed(b)
                it = Inter(facts, root=d.dp if d else None)
                where = "%s (%s)" % (loc_str(t["loc"]), b.path)
                val = it.expand(b, it.tracer(b).operand(t["args"][1]))
                snd = it.expand(b, it.tracer(b).operand(t["args"][0]))
                roles = rules_c03._flat_fields(val)
                sroles = rules_c03._flat_fields(snd)
                if not sroles and b.kind == "Closure" and strip(snd).kind == "param":
                    # closure parameter bound by the combinator it is passed to (Option::map(receiver, closure))
                    cs = it.creation_site(b)
                    if cs:
                        parent, _ops = cs
                        ptr = it.tracer(parent)
                        for pbi, pt in parent.calls():
                            for a in pt["args"][1:]:
                                an = strip(ptr.operand(a))
                                if an.kind == "agg" and an[1] == "closure" and an[2] == b.dp:
                                    sroles = rules_c03._flat_fields(ptr.operand(pt["args"][0]))
                okv = "as:Push" in roles and "as:Single" in roles and not any(r.startswith("Datagram") for r in roles)
                oks = "EstablishedStreamData.sender" in sroles
                if okv and oks:
                    rep.ok("C02.R1", "dispatch-payload", where, "try_send(frame's Push payload) on the slot's own sender")
                else:
                    rep.bad("C02.R1", "dispatch-payload", where, "the bytes dispatched to the stream (%s) / the sender used (%s) are not the frame's payload / the addressed slot's sender" % (sorted(roles), sorted(sroles)))
    rep.floor("C02.R1", "inbound dispatch sites", n, 1)
    # ---- R2 = S1
    check_r2_outbound(facts, rep, crate)
    rep.rule("C02.R3", "reader keeps the remainder: consume advances by amt; poll_read copies and consumes the same amount; buffer overwritten only when empty")
    for b in crate.bodies:
        if b.j.get("impl_self", {}).get("adt") != MUX:
            continue
        tr = Tracer(facts, b)
        where = "%s (%s)" % (loc_str(b.loc), b.path)
        if b.name == "consume":
            rep.analysed(b)
            adv = [t for _, t in b.calls() if callee(t) and callee(t)["name"] == "advance"]
            ok = len(adv) == 1 and strip(tr.operand(adv[0]["args"][1])).kind == "param" and \
                any(x.kind == "field" and x[2] == "buf" for x in walk(tr.operand(adv[0]["args"][0])))
            (rep.ok if ok else rep.bad)("C02.R3", "consume", where, "self.buf.advance(amt)" if ok else "consume() does not advance the read buffer by exactly its argument")
        if b.name == "poll_read":
            rep.analysed(b)
            cons = [t for _, t in b.calls() if callee(t) and callee(t)["name"] == "consume"]
            puts = [t for _, t in b.calls() if callee(t) and callee(t)["name"] == "put_slice"]
            ok = False
            if len(cons) == 1 and len(puts) == 1:
                amt = strip(tr.operand(cons[0]["args"][1]))
                sl = tr.operand(puts[0]["args"][1])
                rng = [x for x in walk(sl) if x.kind == "agg" and x[2].endswith("RangeTo::RangeTo")]
                if amt.kind == "call" and amt[6] == "min" and rng and strip(dict(rng[0][3])["end"]) == amt:
                    a0 = [strip(a) for a in amt[3]]
                    if any(a.kind == "call" and a[6] == "len" for a in a0) and any(a.kind == "call" and a[6] == "remaining" for a in a0):
                        ok = True
            (rep.ok if ok else rep.bad)("C02.R3", "poll_read", where,
                                        "copies got[..amt] and consumes amt = min(got.len(), buf.remaining())" if ok else
                                        "poll_read does not copy and consume the same min(got.len(), buf.remaining()) bytes (bytes lost or duplicated)")
    for b, bi, si, s in field_stores(crate, MUX, "buf"):
        tr = Tracer(facts, b)
        v = tr.rvalue(s["rv"])
        if not any(x.kind == "call" and x[6] in ("poll_recv", "recv", "try_recv") for x in walk(v)):
            continue
        rep.analysed(b)
        where = "%s (%s)" % (loc_str(s["loc"]), b.path)

        def empty(g):
            p = strip(g.pred)
            if g.kind == "bool" and p.kind == "call" and p[6] == "is_empty" and any(x.kind == "field" and x[2] == "buf" and x[3] == MUX for x in walk(p)):
                return {True}
            return None
        if edge_literals_dominating(facts, b, tr, bi, empty):
            rep.ok("C02.R3", "buf-overwritten-only-when-empty", where, "store dominated by self.buf.is_empty()")
        else:
            rep.bad("C02.R3", "buf-overwritten-only-when-empty", where, "the read buffer can be overwritten while it still holds unread bytes")
    # ---- R4 write counts
    rep.rule("C02.R4", "honest write counts for poll_write / poll_write_vectored")
    for b in crate.bodies:
        if b.j.get("impl_self", {}).get("adt") != MUX or b.name not in ("poll_write", "poll_write_vectored"):
            continue
        rep.analysed(b)
        tr = Tracer(facts, b)
        where = "%s (%s)" % (loc_str(b.loc), b.path)
        rets = []
        for x in walk(tr.local(0)):
            if x.kind == "agg" and x[2].endswith("Result::Ok"):
                rets.append(strip(dict(x[3])["0"]))
        if b.name == "poll_write":
            pw = [t for _, t in b.calls() if callee(t) and callee(t)["name"] in ("poll_write_push", "new_push")]
            ok = False
            if rets and pw:
                data = strip(tr.operand(pw[0]["args"][-1]))
                for r in rets:
                    if r.kind == "call" and r[6] == "len" and strip(r[3][0]) == data:
                        ok = True
            (rep.ok if ok else rep.bad)("C02.R4", "poll_write-count", where, "returns buf.len() of the slice sent" if ok else "poll_write's returned count is not the length of the slice that was put into the frame")
        else:
            # path-wise pairing: in every iteration over the caller's slices, a slice is counted iff it is put into the frame's slice list
            from an import Explorer as _Ex4
            pushes_ = [bi for bi, t in b.calls() if callee(t) and callee(t)["name"] == "push" and "Vec" in callee(t)["def"]]
            nexts_ = [bi for bi, t in b.calls() if callee(t) and callee(t)["name"] == "next" and "Iterator" in callee(t).get("trait", callee(t)["path"])]
            if pushes_ and nexts_:
                unbalanced = []

                def _is_len_add(st):
                    if st["k"] != "Assign" or st["rv"]["k"] != "BinaryOp" or not str(st["rv"].get("op", "")).startswith("Add"):
                        return False
                    v = tr.rvalue(st["rv"])
                    return any(x.kind == "call" and x[6] == "len" for x in walk(v))

                def on_stmt4(bb, idx, st, auto):
                    if auto is not None and _is_len_add(st):
                        return (min(auto[0] + 1, 2), auto[1])
                    return auto

                def on_term4(bb, t, auto, store):
                    if t["k"] != "Call":
                        return auto
                    c = callee(t)
                    if not c:
                        return auto
                    if bb in pushes_ and auto is not None:
                        return (auto[0], min(auto[1] + 1, 2))
                    if bb in nexts_ or c["name"] == "new_push_vectored":
                        if auto is not None and auto[0] != auto[1]:
                            unbalanced.append(bb)
                        return (0, 0)
                    return auto
                ex4 = _Ex4(facts, b, on_stmt=on_stmt4, on_term=on_term4)
                ex4.run(0, None)
                rep.paths += len(ex4.seen)
                if unbalanced:
                    rep.bad("C02.R4", "vectored-count-pairs-with-frame", "%s (%s)" % (loc_str(b.term(unbalanced[0])["loc"]), b.path),
                            "on some path through the loop over the caller's slices a slice is added to the returned count without being put "
                            "into the frame (or the reverse): the caller is told bytes were written that never reach the peer (a "
                            "write-all loop skips them), or bytes are sent twice")
                else:
                    rep.ok("C02.R4", "vectored-count-pairs-with-frame", where, "every counted slice is framed on every path")
            ok = False
            pushes = [t for _, t in b.calls() if callee(t) and callee(t)["name"] == "push" and "Vec" in callee(t)["def"]]
            for r in rets:
                # accumulator: phi(0, Add(acc, len(buf)))
                adds = [x for x in walk(r) if x.kind == "bin" and x[1].startswith("Add")]
                lens = [x for a in adds for x in walk(a[3]) if x.kind == "call" and x[6] == "len"]
                if adds and lens and pushes:
                    el = strip(tr.operand(pushes[0]["args"][1]))
                    src_len = strip(lens[0][3][0])
                    shared = leaves(el) & leaves(src_len)
                    subs = [x for x in walk(r) if x.kind == "bin" and (x[1].startswith("Sub") or x[1].startswith("Mul"))]
                    if shared and not subs and any(const_eval(x) == 0 for x in walk(r) if x.kind == "const"):
                        ok = True
                elif adds and lens and not pushes:
                    # the frame's slice list is built by an order- and count-preserving iterator chain over the same parameter the
                    # lengths are summed over:  bufs.iter().map(|b| wrap(b)).collect()
                    ctor = [t for _, t in b.calls() if callee(t) and callee(t)["name"] == "new_push_vectored"]
                    if ctor:
                        v = strip(tr.operand(ctor[0]["args"][-1]))
                        names = [x[6] for x in walk(v) if x.kind == "call"]
                        keep = {"collect", "map", "iter", "into_iter", "copied", "cloned", "deref", "as_ref", "from_iter", "to_vec", "into", "from", "borrow"}
                        src_len = strip(lens[0][3][0])
                        shared = set(x for x in leaves(v) & leaves(src_len) if x.startswith("param:"))
                        subs = [x for x in walk(r) if x.kind == "bin" and (x[1].startswith("Sub") or x[1].startswith("Mul"))]
                        one_to_one = True
                        for x in walk(v):
                            if (x.kind == "agg" and x[1] == "closure") or x.kind == "closureconst":
                                cdef = x[2] if x.kind == "agg" else x[1]
                                cb = facts.by_dp.get(cdef) if isinstance(cdef, str) else None
                                if cb is None:
                                    one_to_one = False
                                    continue
                                ctr = Tracer(facts, cb)
                                rv = ctr.local(0)
                                cn = set(y[6] for y in walk(rv) if y.kind == "call")
                                if not (cn <= {"deref", "as_ref", "borrow", "into", "from", "as_slice"}) or not any(y.kind == "param" for y in walk(rv)) \
                                        or any(y.kind in ("bin", "index") for y in walk(rv)):
                                    one_to_one = False
                        if "collect" in names and set(names) <= keep and shared and not subs and one_to_one and \
                                any(const_eval(x) == 0 for x in walk(r) if x.kind == "const"):
                            ok = True
            (rep.ok if ok else rep.bad)("C02.R4", "poll_write_vectored-count", where, "returns the sum of len() over exactly the slices pushed" if ok else "poll_write_vectored's returned count is not the Add-accumulation of the lengths of the slices pushed into the frame")
    # ---- R5 window vs queue capacity (a window larger than the inbound queue makes the receiver drop frames)
    rep.rule("C02.R5", "the window advertised to the peer equals the inbound queue capacity; the send credit is the peer's window (= C03.R3/R4)")
    from an import Inter as _Inter
    sub = type(rep)(rep.prop, rep.tier, rep.config)
    rules_c03.check_r3_r4(facts, sub, crate, _Inter(facts))
    for i in sub.instances:
        rep.ok("C02.R5", i["key"], i["where"], i["detail"], nontrivial=False)
    for v in sub.violations:
        rep.bad("C02.R5", v["key"].split("/", 1)[1], v["where"], v["msg"])

    # ---- R6 no two live streams under one id: the Connect / Acknowledge reactions never replace a live slot (C10 table cells)
    rep.rule("C02.R6", "no cross-talk through id reuse: a Connect on an id that is in use (or 0) inserts nothing and answers Reset; "
                       "an Acknowledge establishes only a Requested slot (C10 table cells)")
    sub = type(rep)(rep.prop, rep.tier, rep.config)
    rules_c10.check(facts, sub, tier, cfg)
    rep.paths += sub.paths
    pick = lambda k: ("cell/Connect/" in k or "unmatched/op:Connect" in k or "cell/Acknowledge/" in k or "unmatched/op:Acknowledge" in k)
    k = 0
    for v in sub.violations:
        if pick(v["key"]):
            rep.bad("C02.R6", v["key"].split("/", 1)[1], v["where"], v["msg"])
    for i in sub.instances:
        if pick(i["key"]):
            k += 1
            rep.ok("C02.R6", i["key"], i["where"], i["detail"], nontrivial=False)
    rep.floor("C02.R6", "Connect / Acknowledge cells of the reaction table", k, 4)
    # ---- R7 a zero-byte write never becomes an empty Push (the reader would take it for end-of-stream in the middle of the data)
    rep.rule("C02.R7", "no empty Push on the wire / reader ignores empty frames (= C05.R1): otherwise the reader sees EOF before the writer's later bytes")
    import rules_c05
    sub = type(rep)(rep.prop, rep.tier, rep.config)
    rules_c05.check(facts, sub, tier, cfg)
    for i in sub.instances:
        if i["rule"] == "C05.R1":
            rep.ok("C02.R7", i["key"], i["where"], i["detail"], nontrivial=False)
    for v in sub.violations:
        if v["rule"] == "C05.R1":
            rep.bad("C02.R7", v["key"].split("/", 1)[1], v["where"], v["msg"])
    # ---- R8 flow control is a precondition of loss-free delivery: a frame sent beyond the receiver's window is dropped and the flow reset
    rep.rule("C02.R8", "credit discipline (= C03.R1..R7): every violation of the flow-control rules lets a frame exceed the receiver's queue, "
                       "where it is dropped although the write succeeded")
    sub = type(rep)(rep.prop, rep.tier, rep.config)
    rules_c03.check(facts, sub, tier, cfg)
    rep.paths += sub.paths
    for i in sub.instances:
        rep.ok("C02.R8", "%s/%s" % (i["rule"], i["key"]), i["where"], i["detail"], nontrivial=False)
    for v in sub.violations:
        rep.bad("C02.R8", v["key"], v["where"], v["msg"])
    # ---- R9 the codec carries Push payloads unchanged (= C09 rules on the Push arms)
    rep.rule("C02.R9", "codec: Push frames are encoded / decoded / appended without reordering or losing payload bytes (= C09 rules on Push)")
    import rules_c09
    sub = type(rep)(rep.prop, rep.tier, rep.config)
    rules_c09.check(facts, sub, tier, cfg)
    rep.paths += sub.paths
    sel = lambda k: ("Push" in k or "vectored" in k or "append" in k or "push-check" in k)
    for i in sub.instances:
        if sel(i["key"]):
            rep.ok("C02.R9", "%s/%s" % (i["rule"], i["key"]), i["where"], i["detail"], nontrivial=False)
    for v in sub.violations:
        if sel(v["key"]):
            rep.bad("C02.R9", v["key"], v["where"], v["msg"])
    # ---- R10 a write that reports Pending has queued nothing of the caller's buffer
    rep.rule("C02.R10", "exactly once under back-pressure: a write entry point that takes the caller's buffer never returns Poll::Pending after it has "
                        "queued part of that buffer (the caller re-submits the same bytes after Pending, so they would be sent twice)")
    k10 = 0
    for b, bi, t, tr, msg in queue_sends(facts, crate):
        if not (ctors_in(msg) & {"new_push", "new_push_owned", "new_push_vectored"}):
            continue
        rt = b.locals[0]["s"]
        if "Poll<" not in rt:
            continue
        # the payload comes from a parameter of this function (a caller-owned buffer), not from state the function keeps (the bridge)
        from_param = any(x.kind == "param" and x[1] >= 2 and ("[u8]" in (x[3] or "") or "IoSlice" in (x[3] or "")) for x in walk(msg))
        if not from_param:
            continue
        k10 += 1
        where = "%s (%s)" % (loc_str(t["loc"]), b.path)
        key = "no-pending-after-queueing/%s" % b.path.split("::{")[0]
        pend = [x for x in b.reachable_from(bi) if x != bi or True for st in b.blocks[x]["stmts"]
                if st["k"] == "Assign" and st["lhs"]["l"] == 0 and not st["lhs"].get("p") and st["rv"]["k"] == "Aggregate"
                and st["rv"]["agg"].get("variant") == "Pending"]
        pend = [x for x in pend if x in b.reachable_from(b.succ[bi][0]) or x == b.succ[bi][0]] if b.succ[bi] else []
        if pend:
            rep.bad("C02.R10", key, "%s (%s)" % (loc_str(b.term(pend[0])["loc"]), b.path),
                    "after queueing a Push built from the caller's buffer (at %s) this write can still return Poll::Pending: the AsyncWrite contract "
                    "makes the caller submit the same buffer again, so the part already queued is delivered twice" % loc_str(t["loc"]))
        else:
            rep.ok("C02.R10", key, where, "no Pending return is reachable after the Push is queued")
    rep.floor("C02.R10", "write entry points that queue a caller-owned buffer", k10, 2 if "std" in crate.features else 1)
    # ---- R11 teardown: EOF after the data (= C05.R5)
    rep.rule("C02.R11", "complete delivery at teardown (= C05.R5): the frames still buffered in the WebSocket source are dispatched before the flow "
                        "table is drained, and one undispatchable message does not end that loop (a reader that reads to EOF has every byte the peer wrote)")
    import rules_c08
    wd11, res11 = rules_c08.teardown_outcomes(facts, crate)
    if wd11 is None:
        rep.bad("C02.R11", "wind-down", "", "no function drains the flow table (teardown anchor missing)")
    else:
        rep.analysed(wd11)
        for val, label in ((0, "failure"), (1, "local-drop")):
            okd, detail = rules_c08.source_dispatch_before_eof(res11.get(val, []))
            w11 = "%s (%s)" % (loc_str(wd11.loc), wd11.path)
            if okd and res11.get(val):
                rep.ok("C02.R11", "source-before-drain/%s" % label, w11, detail)
            else:
                rep.bad("C02.R11", "source-before-drain/%s" % label, w11, detail if res11.get(val) else "no terminating teardown path")
        for okd, wd_, dd in rules_c08.dispatch_not_cut_short(facts, crate):
            (rep.ok if okd else rep.bad)("C02.R11", "dispatch-survives-errors", wd_, dd)
    rep.rule("C02.R12", "no cross-talk through flow-id reuse (= C06.R7): only the stream handle's Drop (own id) and the multiplexor handle (0) report on "
                        "the dropped-flows queue, so a finished stream's later drop can never close a new stream that re-used its id")
    check_dropped_flow_senders(facts, rep, crate, "C02.R12")
    import adapter
    adapter.check_adapter(facts, rep, "C02.S8")
    # ---- R13 a new stream never takes the id of a live one (= C07.R1 / R2)
    rep.rule("C02.R13", "no cross-talk through id allocation (= C07.R2): the flow-id generators return only ids that are not in the flow table "
                        "(and non-zero): an id of a live stream handed to a new one replaces that stream's slot - its reader sees EOF and the "
                        "peer's later data is answered with Reset")
    import rules_c07
    sub7 = type(rep)(rep.prop, rep.tier, rep.config)
    rules_c07.check(facts, sub7, tier, cfg)
    for i in sub7.instances:
        if i["rule"] in ("C07.R1", "C07.R2"):
            rep.ok("C02.R13", "%s/%s" % (i["rule"], i["key"]), i["where"], i["detail"], nontrivial=False)
    for v in sub7.violations:
        if v["rule"] in ("C07.R1", "C07.R2"):
            rep.bad("C02.R13", v["key"], v["where"], v["msg"])
    import_constructor_rule(facts, rep, "C02.S9", ['new_push', 'new_push_owned', 'new_push_vectored'])
    rep.rule("C02.S7", "who-may: the functions that touch the critical resources behind this property are those of the reference tree (flow table, closed flag, per-stream / datagram / outbound queues, last-pong timestamp, client id maps, shared TLS identity)")
    import whomay
    whomay.check(facts, rep, "C02.S7", "C02")
    whomay.check_new_statics(facts, rep, "C02.S7", "C02")
    whomay.check_new_trait_methods(facts, rep, "C02.S7", "C02")

def check_r2_outbound(facts, rep, crate):
    rep.rule("C02.R2", "S1: start_send only with messages taken from the outbound receiver; frames reach the wire only via the queue")
    n = 0
    for b in crate.bodies:
        tr = None
        for bi, t in b.calls():
            c = callee(t)
            if c and c["name"] == "start_send_unpin" and c.get("trait", "").endswith("ws::WebSocket") and not b.j.get("impl_trait", "").endswith("WebSocket"):
                tr = tr or Tracer(facts, b)
                it = Inter(facts)
                n += 1
                rep.analysed(b)
                where = "%s (%s)" % (loc_str(t["loc"]), b.path)
                msg = it.expand(b, it.tracer(b).operand(t["args"][1]))
                from_q = any(x.kind == "call" and x[6] in ("poll_recv", "recv") and "UnboundedReceiver::<ws::Message>" in x[2] for x in walk(msg)) or \
                    any(x.kind == "call" and x[6] == "poll" and "Option<ws::Message>" in x[2] for x in walk(msg))
                direct = any(x.kind == "call" and x[6] in FRAME_CTORS for x in walk(msg))
                if from_q and not direct:
                    rep.ok("C02.R2", "start_send/%s" % b.path, where, "message <- outbound receiver")
                else:
                    rep.bad("C02.R2", "start_send/%s" % b.path, where, "a message reaches the WebSocket sink without going through the single ordered outbound queue (frames of one stream can be reordered / interleaved)")
    rep.floor("C02.R2", "start_send sites", n, 2)
    # a message taken off the outbound queue is always handed to the sink before the poll function returns
    kq = 0
    for b in crate.bodies:
        recvs = [bi for bi, t in b.calls() if callee(t) and callee(t)["name"] == "poll_recv" and "UnboundedReceiver::<ws::Message>" in callee(t)["path"]
                 and not b.blocks[bi]["cleanup"]]
        if not recvs:
            continue
        tr = Tracer(facts, b)
        sends = set(bi for bi, t in b.calls() if callee(t) and callee(t)["name"] == "start_send_unpin")
        for r in recvs:
            kq += 1
            rep.analysed(b)
            where = "%s (%s)" % (loc_str(b.term(r)["loc"]), b.path)
            leak = credit_leak_after_take(facts, b, tr, r, sends)
            if leak is None:
                rep.ok("C02.R2", "dequeued-message-always-sent/%s" % b.path, where, "every path from Ready(Some(msg)) reaches start_send before returning")
            else:
                rep.bad("C02.R2", "dequeued-message-always-sent/%s" % b.path, where,
                        "after a message has been taken off the outbound queue the function can return (%s) without handing it to the sink: "
                        "under sink back-pressure the frame is dropped and the byte stream has a hole although the write succeeded" % loc_str(b.term(leak)["loc"]))
    rep.floor("C02.R2", "outbound queue poll_recv sites", kq, 1)
    qs = list(queue_sends(facts, crate))
    # a site whose message is one of several frames (`let f = if ok { finish } else { reset }; send(f)`) counts once per frame kind
    nqs = sum(max(1, len(ctors_in(msg))) for _b, _bi, _t, _tr, msg in qs)
    rep.floor("C02.R2", "queue-send sites", nqs, 14 + 2 * ("std" in crate.features) + ("tokio-time" in crate.features))
    # the receiver half is created once
    chans = [(b, bi) for b in crate.bodies for bi, t in b.calls() if callee(t) and callee(t)["name"] == "unbounded_channel" and "ws::Message" in callee(t)["path"]]
    if len(chans) == 1:
        rep.ok("C02.R2", "single-outbound-queue", "%s (%s)" % (loc_str(chans[0][0].term(chans[0][1])["loc"]), chans[0][0].path), "one unbounded_channel::<Message>")
    else:
        rep.bad("C02.R2", "single-outbound-queue", "", "%d outbound message queues are created, expected exactly one" % len(chans))
    # ---- R3 reader
