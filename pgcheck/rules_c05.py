"""C05 End-of-stream exactly when the peer finished, after all its data."""
from an import (Tracer, guard_at, strip, strip_casts, walk, fmt, callee, const_eval, leaves, Inter)
from mir import loc_str
from shared import atomic_call, field_of_receiver
from muxcommon import *
import rules_c08

EXPLANATION = (
    "(R1) An empty Push must never be mistaken for EOF: the reader reports EOF through an empty buffer, so either "
    "every Push emission site is dominated by a 'payload non-empty' edge (sender side), or the reader's store of "
    "the received frame into its buffer is dominated by a real (non debug_assert) non-empty edge; (R2) the inbound "
    "queue sender is dropped only by Option::take in the slot-data helper, which is called only from the Finish "
    "reaction or from the slot-closing function that owns a removed slot; (R3) the Finish x Established reaction "
    "removes nothing from the flow table and sets no closed flag (half-close; from the C10 reaction table); (R4) "
    "local shutdown sends Finish at most once (dominated by the old-value-false edge of swap(true)) and every "
    "credit-take function returns the closed result on the true edge of a closed-flag load that dominates the "
    "credit take; data-before-EOF order follows from the single FIFO (S1).")
EXPLANATION_ADDED = '(R5) during teardown the frames still buffered in the source are dispatched before the flow table is drained; R1 accepts only non-empty tests of byte containers (not of the number of slices).'
EXPLANATION_ADDED2 = " (R6) the C03 rule set as a precondition of 'EOF only after all bytes'; R4 also requires poll_shutdown to reach the Finish-sending call. (R7) = C08.R10: a refused write is reported as BrokenPipe by every write entry point."
EXPLANATION = EXPLANATION + " Added while testing against seeded changes: " + EXPLANATION_ADDED + EXPLANATION_ADDED2
EXPLANATION = EXPLANATION + " Rounds 12-13: R5 also requires that a dispatch error does not end the wind-down's loop over the messages still buffered in the source."
EXPLANATION = EXPLANATION + " Rounds 14-15: (R9) the reader's Some(frame) / None decision derives from the inbound queue's receive call alone (no constant None on another condition); (S9) the Finish / Push constructors are exact."
EXPLANATION = EXPLANATION + ' Rounds 16-17: (R10) = C13.R3, end-of-stream through the bridge (only where the bridge is compiled).'
EXPLANATION = EXPLANATION + ' Round 18: (R11) = C06.R3, a stream dropped without shutdown is always signalled with a Reset.'
ASSUMPTIONS = ["tokio mpsc: a receiver sees None only after all senders are dropped and the queue is drained",
               "frames travel in one FIFO (S1, checked under C02)"]
NOT_DECIDED = "the cross-task timing clause 'only after every byte has been returned' (follows from FIFO + R2, trusted)"
THOROUGH_CONFIGS = ["mux-nodefault", "mux-std-only"]
MUX = "penguin_mux::stream::MuxStream"
ESD = "penguin_mux::EstablishedStreamData"


def _bytes_container(path):
    """True when a len()/is_empty() call is about BYTES (not about the number of slices in a vectored write)."""
    if "IoSlice<" in path and ("[std::io::IoSlice" in path or "[IoSlice" in path or "Vec<" in path or "Vec::<" in path):
        return False
    if "[CowBytes" in path or "Vec<CowBytes" in path or "Vec::<CowBytes" in path:
        return False
    return True


def nonempty_vals(g, payload_leaves):
    """edge values on which an expression sharing a provenance root with the payload is non-empty."""
    p = strip_casts(g.pred)
    if g.kind != "bool":
        return None
    if p.kind == "call" and p[6] == "is_empty" and p[3]:
        if leaves(p[3][0]) & payload_leaves and _bytes_container(p[2]):
            return {False}
        return None
    if p.kind == "bin":
        a, c = strip(p[2]), strip(p[3])
        for x, y, flip in ((a, c, False), (c, a, True)):
            if const_eval(y) == 0 and (leaves(x) & payload_leaves) and any(
                    z.kind == "call" and z[6] in ("len", "remaining") and _bytes_container(z[2]) for z in walk(x)):
                op = p[1]
                if flip:
                    op = {"Lt": "Gt", "Gt": "Lt", "Le": "Ge", "Ge": "Le"}.get(op, op)
                return {"Eq": {False}, "Ne": {True}, "Gt": {True}, "Le": {False}}.get(op)
    return None


def check(facts, rep, tier, cfg):
    crate = facts.crate("penguin_mux")
    if crate is None:
        rep.bad("C05.R1", "crate", "", "penguin_mux facts missing")
        return
    inter = Inter(facts)
    rep.rule("C05.R1", "empty Push never mistaken for EOF: (S) every Push emission dominated by payload-non-empty, or (R) reader's buffer store dominated by a real non-empty edge")
    # reader side
    reader_ok = False
    reader_sites = []
    for b, bi, si, s in field_stores(crate, MUX, "buf"):
        tr = Tracer(facts, b)
        v = tr.rvalue(s["rv"])
        if not any(x.kind == "call" and x[6] in ("poll_recv", "recv", "try_recv") for x in walk(v)):
            continue
        reader_sites.append((b, bi, s))
        pl = leaves(v) - {"param:self", "param:cx"}
        vv = strip(v)
        def want(g, vv=vv):
            p = strip_casts(g.pred)
            if g.kind == "bool" and p.kind == "call" and p[6] == "is_empty" and p[3] and strip(p[3][0]) == vv:
                return {False}
            return None
        if edge_literals_dominating(facts, b, tr, bi, want):
            reader_ok = True
    rep.floor("C05.R1", "reader buffer stores from the inbound queue", len(reader_sites), 1)
    sender_bad = []
    n = 0
    for b, bi, t, tr, msg in queue_sends(facts, crate):
        pcs = ctor_calls(msg, {"new_push", "new_push_owned", "new_push_vectored"})
        if not pcs:
            continue
        n += 1
        rep.analysed(b)
        payload = pcs[0][3][1]
        pl = set(l for l in leaves(payload) if l.startswith("param:") or l.startswith("call:")) - {"param:self", "param:cx"}
        where = "%s (%s)" % (loc_str(t["loc"]), b.path)
        doms = edge_literals_dominating(facts, b, tr, bi, lambda g: nonempty_vals(g, pl))
        if doms:
            rep.ok("C05.R1", "%s/nonempty" % b.path, where, "Push emission dominated by payload non-empty")
        else:
            sender_bad.append((b, where))
    rep.floor("C05.R1", "Push emission sites", n, 3 if "std" in crate.features else 1)
    if reader_ok:
        rep.ok("C05.R1", "reader-filters-empty", "", "reader ignores empty frames")
    else:
        for b, where in sender_bad:
            rep.bad("C05.R1", "%s/empty-push" % b.path, where,
                    "an empty payload can be queued as a Push frame (no dominating non-empty test) while the reader treats "
                    "an empty buffer as end-of-stream: a zero-length write makes the peer see EOF and lose everything "
                    "written after it")

    rep.rule("C05.R2", "inbound sender dropped only via Option::take in the slot-data helper; callers = Finish reaction or a function owning a removed FlowSlot")
    n = 0
    helpers = []
    for b in crate.bodies:
        tr = None
        for bi, t in b.calls():
            c = callee(t)
            if c and c["name"] == "take" and "option::Option" in c["def"] and "mpsc::Sender<bytes::Bytes>" in c["path"]:
                tr = tr or Tracer(facts, b)
                helpers.append(b)
                n += 1
    idx = inter.call_index()
    for h in set(helpers):
        rep.analysed(h)
        for cb, cbi, ct in idx.callers.get(h.dp, []):
            ctr = inter.tracer(cb)
            where = "%s (%s)" % (loc_str(ct["loc"]), cb.path)
            fin = edge_literals_dominating(
                facts, cb, ctr, cbi,
                lambda g: {"Finish"} if g.kind == "discr" and g.adt == "penguin_mux::frame::Payload" else None)
            owns = any("FlowSlot" in cb.locals[i]["s"] and not cb.locals[i]["s"].startswith("&") for i in range(1, cb.argc + 1))
            if fin or owns:
                rep.ok("C05.R2", "take-caller/%s" % cb.path, where, "Finish reaction" if fin else "owns a removed FlowSlot")
            else:
                rep.bad("C05.R2", "take-caller/%s" % cb.path, where, "the inbound sender is dropped (reader sees EOF) outside the Finish reaction / slot-closing function")
    # direct writes to the sender field
    for b, bi, si, s in field_stores(crate, ESD, "sender"):
        rep.bad("C05.R2", "sender-store/%s" % b.path, "%s (%s)" % (loc_str(s["loc"]), b.path), "EstablishedStreamData.sender overwritten directly")
    rep.floor("C05.R2", "sender take sites", n, 1)

    rep.rule("C05.R4", "Finish sent at most once (swap(true) old value false); credit-take returns closed on the closed-flag true edge dominating the take")
    n = 0
    for b, bi, t, tr, msg in queue_sends(facts, crate):
        if "new_finish" not in ctors_in(msg):
            continue
        # only the stream's own shutdown (not BindRequest::reply)
        if b.j.get("impl_self", {}).get("adt") != MUX:
            continue
        n += 1
        rep.analysed(b)
        where = "%s (%s)" % (loc_str(t["loc"]), b.path)
        def old_false(g):
            p = strip_casts(g.pred)
            if g.kind == "bool" and p.kind == "call" and p[6] in ("swap", "fetch_or") and "Atomic" in p[1]:
                a = [const_eval(x) for x in p[3][1:2]]
                if a and a[0] == 1:
                    return {False}
            if g.kind == "bool" and p.kind == "call" and p[6] == "compare_exchange":
                return None
            return None
        if edge_literals_dominating(facts, b, tr, bi, old_false):
            rep.ok("C05.R4", "finish-once", where, "Finish dominated by swap(true) == false")
        else:
            rep.bad("C05.R4", "finish-once", where, "Finish can be sent more than once / without marking the stream closed (not dominated by the old-value-false edge of swap(true))")
    rep.floor("C05.R4", "stream Finish emissions", n, 1)
    # AsyncWrite::poll_shutdown actually shuts the write side down (calls the Finish-sending function on every Ready(Ok) path)
    import rules_c13 as _c13
    for b in crate.bodies:
        if b.name == "poll_shutdown" and b.j.get("impl_self", {}).get("adt") == MUX:
            fins = [bi for bi, t in b.calls() if callee(t) and _c13._sends_finish(facts, crate, callee(t))]
            rets = [x for x in range(len(b.blocks)) if b.term(x)["k"] == "Return"]
            wps = "%s (%s)" % (loc_str(b.loc), b.path)
            if fins and all(any(b.dominates(f, r) for f in fins) for r in rets):
                rep.ok("C05.R4", "poll_shutdown-sends-finish", wps, "every return of poll_shutdown is dominated by the Finish-sending call")
            else:
                rep.bad("C05.R4", "poll_shutdown-sends-finish", wps, "AsyncWrite::poll_shutdown can return without sending Finish: the peer never sees end-of-stream "
                                                                    "for a stream that was shut down")
    for b in credit_take_bodies(facts, crate):
        tr = Tracer(facts, b)
        rep.analysed(b)
        for bi, t in b.calls():
            if atomic_call(t) in TAKE_OPS and (field_of_receiver(tr, t["args"][0]) or "").endswith("." + CREDIT_FIELD):
                where = "%s (%s)" % (loc_str(t["loc"]), b.path)
                def closed_false(g):
                    p = strip_casts(g.pred)
                    if g.kind == "bool" and p.kind == "call" and p[6] == "load" and "bool" in p[2]:
                        if any(x.kind == "field" and x[2] == "finish_sent" for x in walk(p)):
                            return {False}
                    return None
                if edge_literals_dominating(facts, b, tr, bi, closed_false):
                    rep.ok("C05.R4", "%s/closed-check" % b.path, where, "credit take dominated by finish_sent == false")
                else:
                    rep.bad("C05.R4", "%s/closed-check" % b.path, where, "credit can be taken (and a Push sent) without checking the closed flag: writes after shutdown/abort are transmitted instead of failing with BrokenPipe")
    # ---- R3 half-close (reaction-table cell)
    rep.rule("C05.R6", "flow control is a precondition of 'EOF only after all bytes': window / queue-capacity / credit rules (= C03.R1..R7); a conforming "
                       "burst that overruns a mis-sized queue is answered by Reset and the reader sees end-of-stream early")
    import rules_c03
    sub6 = type(rep)(rep.prop, rep.tier, rep.config)
    rules_c03.check(facts, sub6, tier, cfg)
    rep.paths += sub6.paths
    for i6 in sub6.instances:
        rep.ok("C05.R6", "%s/%s" % (i6["rule"], i6["key"]), i6["where"], i6["detail"], nontrivial=False)
    for v6 in sub6.violations:
        rep.bad("C05.R6", v6["key"], v6["where"], v6["msg"])
    rep.rule("C05.R5", "teardown EOF comes after the data: frames still buffered in the WebSocket source are dispatched before the flow table is drained")
    wd, res = rules_c08.teardown_outcomes(facts, crate)
    if wd is None:
        rep.bad("C05.R5", "wind-down", "", "no function drains the flow table (teardown anchor missing)")
    else:
        rep.analysed(wd)
        for val, label in ((0, "failure"), (1, "local-drop")):
            okd, detail = rules_c08.source_dispatch_before_eof(res.get(val, []))
            w5 = "%s (%s)" % (loc_str(wd.loc), wd.path)
            if okd and res.get(val):
                rep.ok("C05.R5", "source-before-drain/%s" % label, w5, detail)
            else:
                rep.bad("C05.R5", "source-before-drain/%s" % label, w5, detail if res.get(val) else "no terminating teardown path")
        for okd, wd_, dd in rules_c08.dispatch_not_cut_short(facts, crate):
            (rep.ok if okd else rep.bad)("C05.R5", "dispatch-survives-errors", wd_, dd)
    # ---- R9 the reader's end-of-stream decision is the inbound queue's own end
    rep.rule("C05.R9", "the reader reports end-of-stream only when the flow's inbound queue has ended (its sender was dropped by the Finish / Reset / "
                       "teardown reactions): the Option that decides Some(frame) / None derives from that queue's receive call alone - never from a "
                       "constant None chosen on some other condition (outbound queue closed, a timer, a flag), which would report EOF before the "
                       "frames still on their way")
    k9 = 0
    for b in crate.bodies:
        if "stream" not in b.file or "::tests::" in b.path:
            continue
        recvs = [bi for bi, t in b.calls() if callee(t) and callee(t)["name"] in ("poll_recv", "recv", "try_recv") and "bytes::Bytes" in callee(t)["path"]
                 and "Receiver" in callee(t)["path"]]
        if not recvs:
            continue
        tr9 = Tracer(facts, b)
        for gb in range(len(b.blocks)):
            if b.term(gb)["k"] != "SwitchInt":
                continue
            g = guard_at(facts, b, tr9, gb)
            if g is None or g.kind != "discr" or not (g.adt or "").endswith("option::Option"):
                continue
            if not any(x.kind == "call" and x[6] in ("poll_recv", "recv", "try_recv") and "Bytes" in x[2] for x in walk(g.pred)):
                continue
            k9 += 1
            rep.analysed(b)
            w9 = "%s (%s)" % (loc_str(b.term(gb)["loc"]), b.path)
            p9 = strip(g.pred)
            alts = list(p9[1]) if p9.kind == "phi" else [p9]
            foreign = [a for a in alts if not any(x.kind == "call" and x[6] in ("poll_recv", "recv", "try_recv") for x in walk(a))]
            if foreign:
                rep.bad("C05.R9", "eof-from-queue-end/%s" % b.path.split("::{")[0], w9,
                        "the reader's Some(frame) / None decision can also take the value `%s`, which does not come from the inbound queue: "
                        "end-of-stream is reported on a condition other than the peer's Finish / Reset / the teardown having dropped the sender, "
                        "i.e. possibly before data that is still on its way" % fmt(foreign[0])[:80])
            else:
                rep.ok("C05.R9", "eof-from-queue-end/%s" % b.path.split("::{")[0], w9, "None only from the queue's receive call")
    rep.floor("C05.R9", "end-of-queue decisions in the reader", k9, 1)
    rep.rule("C05.R3", "Finish x Established only drops the inbound sender: no flow-table removal, no closed flag (half-close); EOF sources are the Finish / Reset / teardown cells")
    import rules_c10
    sub = type(rep)(rep.prop, rep.tier, rep.config)
    rules_c10.check(facts, sub, tier, cfg)
    rep.paths += sub.paths
    cells = ("cell/Finish/Established", "cell/Reset/Established", "cell/Push/overrun", "cell/Push/delivered-or-closed")
    for i in sub.instances:
        if i["key"] in cells:
            rep.ok("C05.R3", i["key"], i["where"], i["detail"])
    for v in sub.violations:
        k = v["key"].split("/", 1)[1]
        if k in cells or (k.startswith("unmatched/") and ("op:Finish" in k or "op:Push" in k)):
            rep.bad("C05.R3", k, v["where"], v["msg"])
    # ---- a write on a stream that is closed for writing fails with BrokenPipe in every entry point
    rep.rule("C05.R7", "every io-level write entry point maps the refusal of the credit take (None: closed for writing) to Err(BrokenPipe), never to Ok(n)")
    check_refusal_is_broken_pipe(facts, rep, crate, "C05.R7")
    rep.rule("C05.S1", "S1: every message taken off the outbound queue is handed to the WebSocket sink by the send loop (= C02.R2): the frames this property relies on are not dropped, deduplicated or reordered on the way out")
    import_outbound_queue_rule(facts, rep, tier, cfg, "C05.S1")
    import_constructor_rule(facts, rep, "C05.S9", ['new_finish', 'new_push', 'new_push_owned', 'new_push_vectored'])
    # ---- R10 end-of-stream through the bridge (= C13.R3): the far side is shut down only after the data, and the shutdown is completed
    rep.rule("C05.R10", "end-of-stream travels through the stream-to-socket bridge intact (= C13.R3): a direction that saw EOF stays in its "
                        "shutting-down state until the other side's shutdown has completed, and only then counts as done - the bytes the peer "
                        "wrote before its Finish are flushed to the local side before the bridge resolves")
    import rules_c13
    sub13 = type(rep)(rep.prop, rep.tier, rep.config)
    bb13 = rules_c13.bridge_bodies(crate)
    if bb13:            # the bridge is compiled with the std / tokio feature set only
        rules_c13.check_r3(facts, sub13, crate, bb13)
    for i in sub13.instances:
        rep.ok("C05.R10", i["key"], i["where"], i["detail"], nontrivial=False)
    for v in sub13.violations:
        rep.bad("C05.R10", v["key"].split("/", 1)[1], v["where"], v["msg"])
    # ---- R11 an aborted stream is signalled, so the peer's reader gets its end-of-stream (= C06.R3)
    rep.rule("C05.R11", "a stream dropped without shutdown is always signalled to the peer (= C06.R3): closing an established stream that has "
                        "not sent Finish queues a Reset whatever the state of the other direction - otherwise the peer's reader, which has "
                        "received every byte, never sees end-of-stream")
    import rules_c06
    sub06 = type(rep)(rep.prop, rep.tier, rep.config)
    try:
        rules_c06.check(facts, sub06, tier, cfg)
    except Exception:
        sub06 = None
    if sub06 is not None:
        for i in sub06.instances:
            if i["rule"] == "C06.R3":
                rep.ok("C05.R11", i["key"], i["where"], i["detail"], nontrivial=False)
        for v in sub06.violations:
            if v["rule"] == "C06.R3":
                rep.bad("C05.R11", v["key"].split("/", 1)[1] if v["key"].startswith("C06.") else v["key"], v["where"], v["msg"])
    rep.rule("C05.S7", "who-may: the functions that touch the critical resources behind this property are those of the reference tree (flow table, closed flag, per-stream / datagram / outbound queues, last-pong timestamp, client id maps, shared TLS identity)")
    import whomay
    whomay.check(facts, rep, "C05.S7", "C05")
    whomay.check_new_statics(facts, rep, "C05.S7", "C05")
    whomay.check_new_trait_methods(facts, rep, "C05.S7", "C05")
