"""Fact extraction: runs the pgfacts driver over /repo's current working tree."""
import fcntl, hashlib, json, os, shutil, subprocess, sys, time

VERIF = os.path.dirname(os.path.dirname(os.path.abspath(__file__)))
REPO = os.environ.get("PGCHECK_REPO", "/repo")
CACHE = os.environ.get("PGCHECK_CACHE") or os.path.join(VERIF, ".cache")
DRIVER_DIR = os.environ.get("PGCHECK_DRIVER") or os.path.join(VERIF, "pgfacts")
DRIVER = os.path.join(DRIVER_DIR, "target", "release", "pgfacts")

MEMBERS = ["penguin-mux", "cow-bytes", "penguin-socks", "rusty-penguin", "async-acceptor"]
CRATE_FILES = {
    "penguin-mux": "penguin_mux", "cow-bytes": "cow_bytes", "penguin-socks": "penguin_socks",
    "rusty-penguin": "rusty_penguin_lib", "async-acceptor": "async_acceptor",
}

# configuration name -> (packages, extra cargo args)
CONFIGS = {
    "default": (MEMBERS, []),
    "mux-nodefault": (["penguin-mux"], ["--no-default-features"]),
    "mux-std-only": (["penguin-mux"], ["--no-default-features", "--features", "std"]),
    "mux-nohash": (["penguin-mux"], ["--features", "nohash"]),
    "mux-yawc": (["penguin-mux"], ["--features", "yawc"]),
    "penguin-native-tls": (["rusty-penguin"], ["--no-default-features", "--features", "tls-native,penguin-binary"]),
    "penguin-ring": (["rusty-penguin"], ["--no-default-features", "--features", "tls-rustls,ring,penguin-binary,webpki-roots"]),
    "penguin-client-only": (["rusty-penguin"], ["--no-default-features", "--features", "tls-rustls,aws-lc-rs,client,system-roots"]),
    "penguin-server-only": (["rusty-penguin"], ["--no-default-features", "--features", "tls-rustls,aws-lc-rs,server,system-roots"]),
}
QUICK_CONFIGS = ["default"]
THOROUGH_CONFIGS = list(CONFIGS.keys())


def sysroot():
    return subprocess.check_output(["rustc", "+nightly", "--print", "sysroot"], text=True).strip()


def tree_hash():
    """SHA-256 over the build-relevant files of /repo's working tree (tracked or not)."""
    out = subprocess.check_output(
        ["git", "-C", REPO, "ls-files", "-co", "--exclude-standard"], text=True)
    files = []
    for f in out.splitlines():
        base = os.path.basename(f)
        if f.startswith("target/"):
            continue
        if f.endswith(".rs") or base in ("Cargo.toml", "Cargo.lock", "PROTOCOL.md") or f.endswith(".lua"):
            files.append(f)
    files.sort()
    h = hashlib.sha256()
    for f in files:
        p = os.path.join(REPO, f)
        try:
            with open(p, "rb") as fh:
                data = fh.read()
        except OSError:
            continue
        h.update(f.encode() + b"\0" + hashlib.sha256(data).digest())
    # driver identity
    try:
        with open(os.path.join(DRIVER_DIR, "src", "main.rs"), "rb") as fh:
            h.update(b"driver\0" + hashlib.sha256(fh.read()).digest())
    except OSError:
        pass
    return h.hexdigest()[:24], len(files)


def ensure_driver():
    src = os.path.join(DRIVER_DIR, "src", "main.rs")
    if os.path.exists(DRIVER) and os.path.getmtime(DRIVER) >= os.path.getmtime(src):
        return
    env = dict(os.environ, CARGO_NET_OFFLINE="true")
    r = subprocess.run(["cargo", "+nightly", "build", "--offline", "--release"], cwd=DRIVER_DIR,
                       env=env, capture_output=True, text=True)
    if r.returncode != 0:
        sys.stderr.write(r.stdout + r.stderr)
        raise RuntimeError("pgfacts driver build failed")


class ExtractError(Exception):
    pass


def facts_dir(config, thash=None):
    if thash is None:
        thash, _ = tree_hash()
    return os.path.join(CACHE, "facts", thash, config)


def ensure_facts(config="default", thash=None, verbose=True):
    """Return directory with fact files for `config` at the current tree; extract if missing."""
    if thash is None:
        thash, _ = tree_hash()
    os.makedirs(CACHE, exist_ok=True)
    d = facts_dir(config, thash)
    pkgs, extra = CONFIGS[config]
    expected = [CRATE_FILES[p] + ".json" for p in pkgs]
    lock = open(os.path.join(CACHE, "lock." + config), "w")
    fcntl.flock(lock, fcntl.LOCK_EX)
    try:
        if all(os.path.exists(os.path.join(d, f)) for f in expected) and os.path.exists(os.path.join(d, "OK")):
            try:
                os.utime(os.path.dirname(d))      # most recently *used* trees survive pruning
            except OSError:
                pass
            return d
        ensure_driver()
        t0 = time.time()
        if os.path.isdir(d):
            shutil.rmtree(d)
        os.makedirs(d, exist_ok=True)
        target = os.path.join(CACHE, "target-" + config)
        # cargo's freshness cache would skip the wrapper: drop the members' fingerprints
        fp = os.path.join(target, "debug", ".fingerprint")
        if os.path.isdir(fp):
            for e in os.listdir(fp):
                if any(e.startswith(p + "-") or e.startswith(CRATE_FILES[p] + "-") for p in MEMBERS):
                    shutil.rmtree(os.path.join(fp, e), ignore_errors=True)
        env = dict(os.environ)
        env.update({
            "CARGO_NET_OFFLINE": "true",
            "LD_LIBRARY_PATH": os.path.join(sysroot(), "lib") + ":" + env.get("LD_LIBRARY_PATH", ""),
            "RUSTFLAGS": "-Zmir-opt-level=0 -Awarnings -C debug-assertions=off",
            "RUSTC_WORKSPACE_WRAPPER": DRIVER,
            "CARGO_TARGET_DIR": target,
            "PGFACTS_OUT": d,
            "PGFACTS_TREE_HASH": thash,
        })
        cmd = ["cargo", "+nightly", "check", "--offline", "--lib", "--manifest-path",
               os.path.join(REPO, "Cargo.toml")]
        for p in pkgs:
            cmd += ["-p", p]
        cmd += extra
        r = subprocess.run(cmd, env=env, capture_output=True, text=True, cwd=REPO)
        log = os.path.join(d, "build.log")
        with open(log, "w") as fh:
            fh.write(" ".join(cmd) + "\n" + r.stdout + r.stderr)
        if r.returncode != 0:
            raise ExtractError("cargo check failed for config %s (log: %s)\n%s" % (config, log, r.stderr[-3000:]))
        for f in expected:
            p = os.path.join(d, f)
            if not os.path.exists(p):
                raise ExtractError("fact file %s missing after extraction (driver did not run?)" % p)
            with open(p) as fh:
                head = fh.read(400)
            if thash not in head:
                raise ExtractError("fact file %s is stale (tree hash mismatch)" % p)
        with open(os.path.join(d, "OK"), "w") as fh:
            fh.write("%.1f\n" % (time.time() - t0))
        if verbose:
            sys.stderr.write("[pgcheck] extracted facts for %s in %.1fs -> %s\n" % (config, time.time() - t0, d))
        prune_cache(keep=thash)
        return d
    finally:
        fcntl.flock(lock, fcntl.LOCK_UN)
        lock.close()


def prune_cache(keep, maxkeep=int(os.environ.get("PGCHECK_CACHE_KEEP", "6"))):
    root = os.path.join(CACHE, "facts")
    try:
        ents = [(os.path.getmtime(os.path.join(root, e)), e) for e in os.listdir(root)]
    except OSError:
        return
    ents.sort(reverse=True)
    for _, e in ents[maxkeep:]:
        if e != keep:
            shutil.rmtree(os.path.join(root, e), ignore_errors=True)


if __name__ == "__main__":
    cfgs = sys.argv[1:] or ["default"]
    for c in cfgs:
        print(ensure_facts(c))
