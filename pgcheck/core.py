"""Report / evidence / known-findings plumbing."""
import json, os, re, time

VERIF = os.path.dirname(os.path.dirname(os.path.abspath(__file__)))
EVID = os.environ.get("PGCHECK_EVID", os.path.join(VERIF, "evidence"))
KNOWN = os.path.join(VERIF, "KNOWN_FINDINGS.txt")


def load_known():
    """finding lines: `finding: property=C15 key=<key> <text>`; fixed lines suppress nothing."""
    out = {}
    if not os.path.exists(KNOWN):
        return out
    for line in open(KNOWN):
        line = line.strip()
        m = re.match(r"finding:\s+property=(\S+)\s+key=(\S+)\s*(.*)", line)
        if m:
            out[(m.group(1), m.group(2))] = m.group(3)
    return out


class Report:
    def __init__(self, prop, tier, config):
        self.prop = prop
        self.tier = tier
        self.config = config
        self.instances = []     # obligations that held: dict(rule,key,where,detail)
        self.violations = []    # dict(rule,key,where,msg,witness)
        self.infos = []
        self.bodies = set()
        self.nontrivial = set()
        self.paths = 0
        self.rules_run = []

    def rule(self, rid, text):
        self.rules_run.append({"id": rid, "rule": text})

    def ok(self, rule, key, where="", detail="", nontrivial=True):
        self.instances.append({"rule": rule, "key": key, "where": where, "detail": detail,
                               "config": self.config})
        if nontrivial:
            self.nontrivial.add((rule, key))

    def bad(self, rule, key, where, msg, witness=None):
        self.violations.append({"rule": rule, "key": "%s/%s" % (rule, key), "where": where,
                                "msg": msg, "witness": witness or [], "config": self.config})

    def info(self, msg):
        self.infos.append(msg)

    def analysed(self, body):
        self.bodies.add(body.path)

    def floor(self, rule, what, count, floor):
        """Fail closed when an anchor effect has fewer instances than counted by hand."""
        if count < floor:
            self.bad(rule, "floor/%s" % what, "",
                     "anchor `%s` has %d instance(s), fewer than the floor %d confirmed on the pinned tree "
                     "(mechanism deleted or no longer recognisable)" % (what, count, floor))
        else:
            self.ok(rule, "floor/%s" % what, "", "%d >= %d" % (count, floor), nontrivial=False)


def merge_reports(reports):
    r0 = reports[0]
    out = Report(r0.prop, r0.tier, ",".join(r.config for r in reports))
    seen_v = set()
    for r in reports:
        out.instances += r.instances
        for v in r.violations:
            if v["key"] in seen_v:
                continue
            seen_v.add(v["key"])
            out.violations.append(v)
        out.infos += r.infos
        out.bodies |= r.bodies
        out.nontrivial |= r.nontrivial
        out.paths += r.paths
        for ru in r.rules_run:
            if ru not in out.rules_run:
                out.rules_run.append(ru)
    return out


def finish(rep, meta, wall, facts_hash, configs, explanation, assumptions, not_decided):
    """Print verdict lines, write evidence + replay files. Returns exit code."""
    known = load_known()
    os.makedirs(EVID, exist_ok=True)
    vdir = os.path.join(EVID, "%s.violations" % rep.prop)
    if os.path.isdir(vdir):          # replay files of an earlier run are stale
        for fn in os.listdir(vdir):
            if fn.endswith(".json"):
                os.unlink(os.path.join(vdir, fn))
    real = []
    known_hit = []
    for v in rep.violations:
        if (rep.prop, v["key"]) in known:
            known_hit.append(v)
        else:
            real.append(v)
    for v in known_hit:
        print("KNOWN-FINDING: property=%s %s -- %s" % (rep.prop, v["key"], known[(rep.prop, v["key"])] or v["msg"]))
    if real:
        os.makedirs(vdir, exist_ok=True)
    for v in real:
        fn = re.sub(r"[^A-Za-z0-9_.-]+", "_", v["key"])[:120] + ".json"
        path = os.path.join(vdir, fn)
        with open(path, "w") as fh:
            json.dump({"property": rep.prop, "rule": v["rule"], "key": v["key"], "where": v["where"],
                       "message": v["msg"], "witness": v["witness"], "config": v["config"],
                       "facts_hash": facts_hash,
                       "replay": "./check %s --tier %s" % (rep.prop, rep.tier)}, fh, indent=1)
        print("%s  %s" % (v["key"], v["where"]))
        for line in v["msg"].splitlines():
            print("    " + line)
        for w in v["witness"][:12]:
            print("      | " + str(w))
        print("VIOLATION property=%s replay=%s" % (rep.prop, path))
    for i in rep.infos:
        print("INFO: " + i)
    samples = []
    seen_rules = set()
    for inst in rep.instances:
        if inst["rule"] not in seen_rules or len(samples) < 40:
            seen_rules.add(inst["rule"])
            samples.append({"rule": inst["rule"], "instance": inst["key"], "where": inst["where"],
                            "detail": inst["detail"], "config": inst["config"]})
    samples = samples[:80]
    ev = {
        "property_id": rep.prop,
        "tier": rep.tier,
        "seed": int(os.environ.get("VERIF_SEED", "0") or 0),
        "level": "other",
        "coverage": {
            "explanation": explanation,
            "evaluations": len(rep.instances) + len(rep.violations),
            "distinct_nontrivial": len(rep.nontrivial),
            "rule": "one evaluation = one (rule, instance) obligation decided over the MIR facts of the "
                    "current tree; non-trivial = required a path / dominance / provenance / layout "
                    "computation (floor and presence checks are counted as trivial)",
            "samples": samples if samples else [{"note": "no instance"}],
            "obligations": len(rep.instances) + len(rep.violations),
            "discharged": len(rep.instances),
            "rules": rep.rules_run,
            "bodies_analysed": len(rep.bodies),
            "bodies": sorted(rep.bodies)[:60],
            "configurations": configs,
            "facts_hash": facts_hash,
            "known_findings_matched": [v["key"] for v in known_hit],
            "not_decided": not_decided,
            "exhaustive": False,
        },
        "assumptions": assumptions,
        "wall_s": round(wall, 2),
        "violations": len(real),
    }
    ev["coverage"].update(meta or {})
    with open(os.path.join(EVID, "%s.json" % rep.prop), "w") as fh:
        json.dump(ev, fh, indent=1)
    print("%s: %d obligations held, %d known finding(s), %d violation(s) [%s, %s, %.1fs]" % (
        rep.prop, len(rep.instances), len(known_hit), len(real), rep.tier, rep.config, wall))
    return 1 if real else 0
