"""C06 Abort is clean: peer told, others untouched, ids released, no stale state."""
from an import (Tracer, guard_at, strip, strip_casts, walk, fmt, callee, const_eval, Inter)
from mir import loc_str
from muxcommon import *
import rules_c03, rules_c10, rules_c08
import rules_c07
from effects import EffectEngine

EXPLANATION = (
    "(R1) Drop for MuxStream sends its own flow id on the dropped-flows queue and the consumer closes every "
    "non-zero id with inhibit_rst = false; (R2) closing an established slot = removal from the table + closed "
    "flag + writer wake + inbound sender dropped (cells of the reaction table and the slot-closing function under "
    "both constant contexts); (R3) the Reset emission in the slot-closing function is dominated by "
    "(old finish_sent == false) and (inhibit_rst == false); (R4) Reset is never answered with Reset and frames "
    "for unknown flows are answered with Reset (C10 table rows); (R5) nothing leaks into a reused id: every "
    "field of the per-stream state other than id/host/port/queue handles is freshly constructed in the stream "
    "constructor.")
EXPLANATION_ADDED = 'R3 also decides necessity: with inhibit_rst=false every closing path of an established, not-finished stream queues a Reset.'
EXPLANATION_ADDED2 = " R1 also requires the dropped-flows consumer to close every notified flow irrespective of the slot's state; (R6) locally opened streams never get flow id 0, the value that means 'multiplexor dropped' on the dropped-flows channel (= C07.R1)."
EXPLANATION = EXPLANATION + " Added while testing against seeded changes: " + EXPLANATION_ADDED + EXPLANATION_ADDED2
EXPLANATION = EXPLANATION + ' Round 10: (R7) only the stream handle (own id) and the multiplexor handle (0) report on the dropped-flows queue.'
EXPLANATION = EXPLANATION + ' Rounds 14-15: R7 counts conditional reports too; (R9) the closed flag is set before the writer is woken (= C12.R2); R1 requires the closed id to be the reported id itself; (S9) Frame::new_reset is exact.'
ASSUMPTIONS = ["tokio mpsc unbounded send from Drop is non-blocking"]
NOT_DECIDED = "absence of leaks over arbitrarily long histories (every way a slot leaves the map cleans it; whether every abandoned slot leaves the map depends on peer behaviour)"
THOROUGH_CONFIGS = ["mux-nodefault", "mux-nohash"]
MUX = "penguin_mux::stream::MuxStream"
ESD = "penguin_mux::EstablishedStreamData"


def check(facts, rep, tier, cfg):
    crate = facts.crate("penguin_mux")
    if crate is None:
        rep.bad("C06.R1", "crate", "", "penguin_mux facts missing")
        return
    inter = Inter(facts)
    rep.rule("C06.R1", "Drop for MuxStream sends its own flow_id; consumer closes non-zero ids with inhibit_rst=false")
    ok = False
    for b in crate.bodies:
        if b.name == "drop" and b.j.get("impl_self", {}).get("adt") == MUX:
            tr = Tracer(facts, b)
            rep.analysed(b)
            for bi, t in b.calls():
                c = callee(t)
                if c and c["name"] == "send" and "UnboundedSender::<u32>" in c["path"]:
                    v = strip(tr.operand(t["args"][1]))
                    where = "%s (%s)" % (loc_str(t["loc"]), b.path)
                    rets = [x for x in range(len(b.blocks)) if b.term(x)["k"] == "Return"]
                    uncond = not any(r in b.reachable_from(0, cut={bi}) for r in rets)
                    if v.kind == "field" and v[2] == "flow_id" and v[3] == MUX and uncond:
                        ok = True
                        rep.ok("C06.R1", "drop-sends-own-id", where, "dropped_flows_tx.send(self.flow_id) on every path of Drop")
                    elif v.kind == "field" and v[2] == "flow_id" and v[3] == MUX:
                        ok = True
                        rep.bad("C06.R1", "drop-sends-own-id/conditional", where, "Drop notifies the connection task only on some paths: a stream dropped on the other paths keeps its flow-table slot forever (flow id never released)")
                    else:
                        rep.bad("C06.R1", "drop-sends-own-id", where, "Drop notifies the task with `%s` instead of the stream's own flow id" % fmt(v))
    if not ok:
        rep.bad("C06.R1", "drop-sends-own-id", "", "Drop for MuxStream does not notify the connection task")
    sub = type(rep)(rep.prop, rep.tier, rep.config)
    rules_c08.check(facts, sub, tier, cfg)
    for i in sub.instances:
        if i["key"] == "consumer-zero-returns":
            rep.ok("C06.R1", "consumer-closes-with-reset", i["where"], i["detail"])
    for v in sub.violations:
        if "consumer-zero-returns" in v["key"]:
            rep.bad("C06.R1", "consumer-closes-with-reset", v["where"], v["msg"])
    # every drop notification closes its flow: the close call in the consumer depends on the notified id only (not on the slot's state)
    kc = 0
    for b in crate.bodies:
        if not any(callee(t) and callee(t)["name"] in ("recv", "poll_recv") and "UnboundedReceiver::<u32>" in callee(t)["path"] for _, t in b.calls()):
            continue
        closes = [bi for bi, t in b.calls() if callee(t) and callee(t)["name"] == "close_flow"]
        if not closes:
            continue
        trc = Tracer(facts, b)
        for cbi in closes:
            kc += 1
            wc = "%s (%s)" % (loc_str(b.term(cbi)["loc"]), b.path)
            extra = []
            for gb in range(len(b.blocks)):
                if b.term(gb)["k"] != "SwitchInt" or gb == cbi or not b.dominates(gb, cbi):
                    continue
                g = guard_at(facts, b, trc, gb)
                if g is None:
                    continue
                # a guard matters when one of its edges avoids the close call
                if all(cbi in b.reachable_from(t_, cut={gb}) for t_, _ in g.edges):
                    continue
                names = set(x[6] for x in walk(g.pred) if x.kind == "call")
                if names & {"read", "write", "get", "get_mut", "contains_key", "is_closed", "is_some_and", "is_some", "is_none", "lock"} and \
                        any(x.kind == "field" and x[2] == "flows" for x in walk(g.pred)):
                    extra.append(gb)
            if extra:
                rep.bad("C06.R1", "consumer-closes-every-dropped-flow", "%s (%s)" % (loc_str(b.term(extra[0])["loc"]), b.path),
                        "whether a dropped stream's flow is closed depends on the state of its slot (guard at %s): for some states (e.g. after the "
                        "peer's Finish) the notification is discarded, the peer is never told and the flow id is never released" % loc_str(b.term(extra[0])["loc"]))
            else:
                rep.ok("C06.R1", "consumer-closes-every-dropped-flow", wc, "close_flow(id, false) depends on the id only")
            # the id that is closed is the id that was reported (moves only)
            from an import inexact_steps as _ixc
            idarg = b.term(cbi)["args"][1] if len(b.term(cbi)["args"]) > 1 else None
            if idarg is not None:
                stc = _ixc(trc.operand(idarg), lambda y: y.kind == "call" and y[6] in ("recv", "poll_recv", "try_recv", "poll"), 32,
                           extra_calls=("poll", "into_future", "new_unchecked", "get_context"))
                if stc:
                    rep.bad("C06.R1", "consumer-closes-the-reported-id", wc,
                            "the flow closed for a dropped stream is `%s`, not the id that was reported: another stream is aborted and the dropped "
                            "one keeps its slot" % stc[0])
                else:
                    rep.ok("C06.R1", "consumer-closes-the-reported-id", wc, "close_flow(reported id)", nontrivial=False)
    rep.floor("C06.R1", "close calls in the dropped-flows consumer", kc, 1)
    # ---- R2 / R4 from the reaction table
    rep.rule("C06.R2", "close = remove + closed flag + wake + inbound sender dropped (reaction-table cells)")
    rep.rule("C06.R4", "Reset never answered with Reset; unknown flows answered with Reset (reaction-table cells)")
    sub = type(rep)(rep.prop, rep.tier, rep.config)
    rules_c10.check(facts, sub, tier, cfg)
    rep.paths += sub.paths
    for i in sub.instances:
        k = i["key"]
        if k in ("cell/Reset/Established", "cell/Push/overrun"):
            rep.ok("C06.R2", k, i["where"], i["detail"])
        if k.startswith("cell/Reset/") or k.endswith("/absent") or k == "cell/Push/no-taker":
            rep.ok("C06.R4", k, i["where"], i["detail"])
    # slot life cycle: a slot enters / leaves the flow table exactly in the cells the protocol gives (a slot freed while the
    # local handle is alive lets the id be re-used and the old handle's drop notification abort the new stream; a slot kept
    # after both ends let go is a leak)
    rep.rule("C06.R8", "slot life cycle: the Connect / Acknowledge / Finish reactions insert, establish, keep and remove slots exactly as the reaction table says (reaction-table cells)")
    life = ("cell/Connect/", "cell/Acknowledge/", "cell/Finish/")
    for i in sub.instances:
        if i["key"].startswith(life):
            rep.ok("C06.R8", i["key"], i["where"], i["detail"])
    for v in sub.violations:
        k = v["key"].split("/", 1)[1]
        if k.startswith(life):
            rep.bad("C06.R8", k, v["where"], v["msg"])
    for v in sub.violations:
        k = v["key"].split("/", 1)[1]
        if k in ("cell/Reset/Established", "cell/Push/overrun"):
            rep.bad("C06.R2", k, v["where"], v["msg"])
        if k.startswith("cell/Reset/") or k.endswith("/absent") or k == "cell/Push/no-taker" or k.startswith("unmatched/"):
            rep.bad("C06.R4", k, v["where"], v["msg"])
    # ---- R3 Reset predicate
    rep.rule("C06.R3", "Reset emission in the slot-closing function dominated by old finish_sent == false and inhibit_rst == false")
    n = 0
    for b, bi, t, tr, msg in queue_sends(facts, crate):
        if "new_reset" not in ctors_in(msg):
            continue
        if not any("FlowSlot" in b.locals[i]["s"] and not b.locals[i]["s"].startswith("&") for i in range(1, b.argc + 1)):
            continue
        n += 1
        rep.analysed(b)
        where = "%s (%s)" % (loc_str(t["loc"]), b.path)

        def fs_false(g):
            p = strip(g.pred)
            if g.kind == "bool" and p.kind == "call" and (p[6] == "disallow_write" or (p[6] in ("swap", "load") and any(
                    x.kind == "field" and x[2] == "finish_sent" for x in walk(p)))):
                return {False}
            return None

        def inh_false(g):
            p = strip(g.pred)
            if g.kind == "bool" and p.kind == "param" and p[3] == "bool":
                return {False}
            return None
        a = edge_literals_dominating(facts, b, tr, bi, fs_false)
        c = edge_literals_dominating(facts, b, tr, bi, inh_false)
        if a and c:
            rep.ok("C06.R3", "reset-predicate", where, "Reset iff !finish_sent && !inhibit_rst")
        else:
            rep.bad("C06.R3", "reset-predicate", where, "Reset on close is not guarded by %s" % ("old finish_sent == false" if not a else "inhibit_rst == false (a Reset would be answered with a Reset)"))
    rep.floor("C06.R3", "Reset emissions in the slot-closing function", n, 1)
    # necessity: with inhibit_rst == false an established, not-yet-finished stream is always answered with Reset
    for b in crate.bodies:
        if b.kind == "AssocFn" and any("FlowSlot" in b.locals[i]["s"] and not b.locals[i]["s"].startswith("&") for i in range(1, b.argc + 1)) \
                and any(b.locals[i]["s"] == "bool" for i in range(1, b.argc + 1)) and "task::" in b.path:
            flagp = [i for i in range(1, b.argc + 1) if b.locals[i]["s"] == "bool"]
            eng = EffectEngine(facts)
            outs = eng.outcomes(b, tuple((p, 0) for p in flagp))
            rep.paths += eng.states
            where = "%s (%s)" % (loc_str(b.loc), b.path)
            miss = [(fa, ef) for fa, ef in outs if "slot:Established" in fa and "finish_sent_old:true" not in fa and "send:Reset" not in ef and "diverges" not in ef]
            have = [(fa, ef) for fa, ef in outs if "slot:Established" in fa and "finish_sent_old:false" in fa and "send:Reset" in ef]
            if miss:
                rep.bad("C06.R3", "reset-always-sent-on-abort", where,
                        "closing an established stream that did not send Finish (inhibit_rst == false) can return without queuing a Reset "
                        "(facts %s, effects %s): the peer is never told about the abort and keeps the flow forever" % (sorted(miss[0][0]), sorted(miss[0][1])))
            elif have:
                rep.ok("C06.R3", "reset-always-sent-on-abort", where, "every path that did not establish finish_sent == true (with inhibit_rst == false) queues a Reset")
            else:
                rep.bad("C06.R3", "reset-always-sent-on-abort", where, "no path of the slot-closing function emits a Reset for an aborted stream")
    # ---- R5 fresh state
    rep.rule("C06.R5", "per-stream state is freshly constructed (no leak into a reused id)")
    allowed_self = {"Task.tx_msg_tx", "Task.dropped_flows_tx", "Task.rwnd", "Task.default_rwnd_threshold"}
    fresh_calls = {"channel", "new", "clone", "min", "from", "into"}
    n = 0
    for adt, skip in ((MUX, {"flow_id", "dest_host", "dest_port"}), (ESD, set())):
        for b, bi, s, fields in struct_inits(facts, crate, adt):
            tr = inter.tracer(b)
            rep.analysed(b)
            for f, op in fields.items():
                if f in skip:
                    continue
                n += 1
                v = tr.operand(op)
                where = "%s (%s)" % (loc_str(s["loc"]), b.path)
                reads = rules_c03._flat_fields(v)
                selfreads = set(r for r in reads if not r.startswith("as:") and not r[0].isdigit() and "." in r and not r.split(".")[1].isdigit())
                calls = set(x[6] for x in walk(v) if x.kind == "call")
                params = set(x[2] for x in walk(v) if x.kind == "param") - {"self"}
                if selfreads <= allowed_self and calls <= fresh_calls | {"deref"} and (not params or params <= {"peer_rwnd"}):
                    rep.ok("C06.R5", "%s.%s" % (adt.split("::")[-1], f), where, "fresh: %s" % (sorted(calls) or "const"), nontrivial=False)
                else:
                    rep.bad("C06.R5", "%s.%s" % (adt.split("::")[-1], f), where,
                            "per-stream field is initialised from shared / previous state (reads %s, calls %s, params %s): state can leak into a stream that reuses the id" % (sorted(selfreads), sorted(calls), sorted(params)))
    rep.floor("C06.R5", "per-stream state fields", n, 12)
    # ---- R6 id 0 on the dropped-flows channel means "multiplexor dropped": a stream handle must never carry it
    rep.rule("C06.R6", "locally opened flows take their id from next_available_nonzero_key (= C07.R1): dropping a stream with id 0 would be "
                       "read as 'multiplexor dropped' and tear down every other stream instead of resetting that one")
    sub7 = type(rep)(rep.prop, rep.tier, rep.config)
    rules_c07.check(facts, sub7, tier, cfg)
    k6 = 0
    for i in sub7.instances:
        if i["rule"] == "C07.R1" and i["key"].endswith("/insert"):
            k6 += 1
            rep.ok("C06.R6", i["key"], i["where"], i["detail"])
    for v in sub7.violations:
        if v["rule"] == "C07.R1":
            k6 += 1
            rep.bad("C06.R6", v["key"].split("/", 1)[1], v["where"], v["msg"])
    rep.floor("C06.R6", "local flow-id allocations", k6, 1)
    rep.rule("C06.R7", "only the stream handle (own id) and the multiplexor handle (0) report on the dropped-flows queue: no stale report can abort a flow that re-used an id")
    check_dropped_flow_senders(facts, rep, crate, "C06.R7")
    rep.rule("C06.S1", "S1: every message taken off the outbound queue is handed to the WebSocket sink by the send loop (= C02.R2): the frames this property relies on are not dropped, deduplicated or reordered on the way out")
    import_outbound_queue_rule(facts, rep, tier, cfg, "C06.S1")
    import_constructor_rule(facts, rep, "C06.S9", ['new_reset'])
    rep.rule("C06.R9", "an aborted stream's writer learns of it: the closed flag is set BEFORE the writer is woken on every path of the closing "
                       "helper (= C12.R2) - woken first, a writer polled in the gap sees `open, no credit`, parks again and never fails")
    from shared import s3b_wake_after_write as _s3b
    n9 = 0
    for b9 in crate.bodies:
        ok9, bad9 = _s3b(facts, b9)
        for bi, f, a in ok9:
            if f.endswith(".finish_sent"):
                n9 += 1
                rep.ok("C06.R9", "%s/%s" % (b9.path, a), "%s (%s)" % (loc_str(b9.term(bi)["loc"]), b9.path), "%s on %s then wake" % (a, f))
        for bi, f, a in bad9:
            if f.endswith(".finish_sent"):
                n9 += 1
                rep.bad("C06.R9", "%s/%s" % (b9.path, a), "%s (%s)" % (loc_str(b9.term(bi)["loc"]), b9.path),
                        "%s on %s is not followed by AtomicWaker::wake on every path: a writer parked on the aborted stream is woken before the "
                        "flag is set (or not at all) and stays parked instead of failing" % (a, f))
    rep.floor("C06.R9", "closed-flag writes followed by wake", n9, 1)
    rep.rule("C06.S7", "who-may: the functions that touch the critical resources behind this property are those of the reference tree (flow table, closed flag, per-stream / datagram / outbound queues, last-pong timestamp, client id maps, shared TLS identity)")
    import whomay
    whomay.check(facts, rep, "C06.S7", "C06")
    whomay.check_new_statics(facts, rep, "C06.S7", "C06")
    whomay.check_new_trait_methods(facts, rep, "C06.S7", "C06")
