"""C12 No lost wake-ups or credit races: the AtomicWaker protocol and RMW-only credit."""
from an import Tracer, callee, walk, strip, fmt, strip_casts, const_eval
from mir import loc_str
from shared import (s3_register_recheck, s3b_wake_after_write, atomic_call, field_of_receiver,
                    is_waker_register)
from muxcommon import credit_take_bodies, CREDIT_FIELD, edge_literals_dominating
import rules_c03

EXPLANATION = (
    "Decides the waker protocol, not the interleavings: (R1) in every credit-take function, on every CFG path "
    "from AtomicWaker::register to a `Poll::Pending` return each atomic whose load decides readiness (closed "
    "flag, credit) is loaded again after the registration (register-then-recheck); (R2) every task-side atomic "
    "write on the shared stream state (credit fetch_add, closed-flag swap) is followed on all paths by "
    "AtomicWaker::wake; (R3) the credit counter is only changed by atomic read-modify-write (no store; "
    "decrement only by the CAS idiom; increment only by fetch_add) and the fields are not public; (R4) no Push "
    "without a unit of credit (= C03.R1). Given the documented AtomicWaker contract, R1-R3 are the standard "
    "sufficient condition for 'no lost wake-up', so the memory-model quantifier is discharged by that contract.")
EXPLANATION_ADDED = '(R4) the credit take succeeds only through the CAS decrement, including the re-check after register (=C03.R2).'
EXPLANATION_ADDED2 = ' (R5) the stream-closing cells of the reaction table set the closed flag and wake; R1 also decides the polarity of the re-check after register.'
EXPLANATION = EXPLANATION + " Added while testing against seeded changes: " + EXPLANATION_ADDED + EXPLANATION_ADDED2
EXPLANATION = EXPLANATION + ' Round 19: (R6) = C03.R7, after a successful credit take every path queues a Push before returning.'
ASSUMPTIONS = [
    "futures AtomicWaker contract: a wake() that happens after register() wakes the registered task, and loads "
    "performed after register() observe writes made before a concurrent wake()",
    "atomic RMW operations on AtomicU32/AtomicBool are atomic under the C11 model",
]
NOT_DECIDED = "exploration of interleavings under the C11 model (replaced by the AtomicWaker contract); timing"
THOROUGH_CONFIGS = ["mux-nodefault", "mux-std-only"]


def check(facts, rep, tier, cfg):
    crate = facts.crate("penguin_mux")
    if crate is None:
        rep.bad("C12.R1", "crate", "", "penguin_mux facts missing")
        return
    takes = credit_take_bodies(facts, crate)
    rep.rule("C12.R1", "register-then-recheck on every path from AtomicWaker::register to a Pending return (credit-take functions)")
    n = 0
    for b in takes:
        rep.analysed(b)
        inst, viol, regs = s3_register_recheck(facts, b)
        for r, fields in inst:
            n += 1
            rep.ok("C12.R1", "%s/register" % b.path, "%s (%s)" % (loc_str(b.term(r)["loc"]), b.path),
                   "re-loads %s after registering" % fields)
        for r, missing, wit in viol:
            n += 1
            rep.bad("C12.R1", "%s/register" % b.path, "%s (%s)" % (loc_str(b.term(r)["loc"]), b.path),
                    "after AtomicWaker::register the function returns Poll::Pending without loading %s again: a credit "
                    "grant or close (fetch_add/swap + wake) that lands between the check and the registration is lost "
                    "and the writer sleeps although it could proceed or should fail" % ", ".join(missing),
                    witness=["bb%d %s" % (x, loc_str(b.term(x)["loc"])) for x in wit[-14:]])
        # polarity of the re-check: Pending is returned only on the edges "credit re-loaded == 0" and "closed flag re-loaded == false"
        trp = Tracer(facts, b)
        for r in regs:
            pend = [bi for bi in b.reachable_from(b.succ[r][0]) if not b.blocks[bi]["cleanup"] and b.dominates(r, bi) and any(
                st["k"] == "Assign" and st["lhs"]["l"] == 0 and not st["lhs"].get("p") and st["rv"]["k"] == "Aggregate" and
                st["rv"]["agg"].get("variant") == "Pending" for st in b.blocks[bi]["stmts"])]
            for pb in pend:
                def want_credit(g):
                    p0 = strip_casts(g.pred)
                    if g.kind != "bool" or p0.kind != "bin":
                        return None
                    for x, y, flip in ((strip(p0[2]), p0[3], False), (strip(p0[3]), p0[2], True)):
                        if x.kind == "call" and x[6] == "load" and const_eval(y) == 0 and b.dominates(r, x[4]) and \
                                any(z.kind == "field" and z[2] == CREDIT_FIELD for z in walk(x[3][0])):
                            return {"Eq": {True}, "Ne": {False}, "Gt": {False}, "Le": {True}, "Lt": {False} if flip else None, "Ge": None}.get(p0[1]) if not flip else \
                                {"Eq": {True}, "Ne": {False}, "Lt": {False}, "Ge": {True}}.get(p0[1])
                    return None

                def want_flag(g):
                    p0 = strip(strip_casts(g.pred))
                    if g.kind == "bool" and p0.kind == "call" and p0[6] == "load" and b.dominates(r, p0[4]) and \
                            any(z.kind == "field" and z[2] == "finish_sent" for z in walk(p0[3][0])):
                        return {False}
                    return None
                n += 1
                wp = "%s (%s)" % (loc_str(b.term(pb)["loc"]), b.path)
                okc = edge_literals_dominating(facts, b, trp, pb, want_credit)
                okf = edge_literals_dominating(facts, b, trp, pb, want_flag)
                if okc and okf:
                    rep.ok("C12.R1", "%s/recheck-polarity" % b.path, wp, "Pending only when the re-loaded credit is 0 and the re-loaded closed flag is false")
                else:
                    rep.bad("C12.R1", "%s/recheck-polarity" % b.path, wp,
                            "the Pending return after AtomicWaker::register is not taken on the edges `re-loaded credit == 0` and `re-loaded closed flag "
                            "== false` (%s): the writer can park although credit is available / the stream is closed (the wake-up already happened), "
                            "or spin instead of parking" % ("credit test wrong or missing" if not okc else "closed-flag test wrong or missing"))
        if not regs:
            rep.bad("C12.R1", "%s/no-register" % b.path, "%s (%s)" % (loc_str(b.loc), b.path),
                    "credit-take function never registers a waker before returning Pending")
    rep.floor("C12.R1", "waker registrations in credit-take functions", n, 1)
    # workspace-wide lint (INFO only outside anchors)
    if tier == "thorough":
        for b in facts.all_bodies():
            if b in takes:
                continue
            if any(is_waker_register(t) for _, t in b.calls()):
                inst, viol, regs = s3_register_recheck(facts, b)
                for r, missing, wit in viol:
                    rep.info("S3 outside anchors: %s registers a waker and returns Pending without re-checking %s" % (b.path, missing))
    rep.rule("C12.R2", "task-side credit grant / close is followed by AtomicWaker::wake on every path")
    n = 0
    for b in crate.bodies:
        ok, bad = s3b_wake_after_write(facts, b)
        for bi, f, a in ok:
            n += 1
            rep.analysed(b)
            rep.ok("C12.R2", "%s/%s" % (b.path, a), "%s (%s)" % (loc_str(b.term(bi)["loc"]), b.path), "%s on %s then wake" % (a, f))
        for bi, f, a in bad:
            n += 1
            rep.bad("C12.R2", "%s/%s" % (b.path, a), "%s (%s)" % (loc_str(b.term(bi)["loc"]), b.path),
                    "%s on %s can return without AtomicWaker::wake: a writer parked on this stream is never woken" % (a, f))
    rep.floor("C12.R2", "task-side writes followed by wake", n, 2)
    rep.rule("C12.R3", "credit changes are atomic RMW only; shared atomics are not public")
    n = 0
    for b in crate.bodies:
        tr = None
        for bi, t in b.calls():
            a = atomic_call(t)
            if not a or not t["args"]:
                continue
            tr = tr or Tracer(facts, b)
            f = field_of_receiver(tr, t["args"][0])
            if not f or not f.endswith("." + CREDIT_FIELD):
                continue
            n += 1
            where = "%s (%s)" % (loc_str(t["loc"]), b.path)
            if a in ("load", "fetch_add", "compare_exchange", "compare_exchange_weak", "fetch_update"):
                rep.ok("C12.R3", "%s/%s" % (b.path, a), where, "%s on %s" % (a, f), nontrivial=False)
            else:
                rep.bad("C12.R3", "%s/%s" % (b.path, a), where, "credit modified by `%s` (not an atomic read-modify-write of the accepted idioms)" % a)
    rep.floor("C12.R3", "atomic operations on the credit", n, 3)
    for adt in ("penguin_mux::stream::MuxStream", "penguin_mux::EstablishedStreamData"):
        a = facts.adts.get(adt)
        if not a:
            rep.bad("C12.R3", "adt/%s" % adt, "", "ADT missing")
            continue
        for fld in a["variants"][0]["fields"]:
            if fld["name"] in (CREDIT_FIELD, "finish_sent", "writer_waker"):
                if fld["pub"]:
                    rep.bad("C12.R3", "pub/%s.%s" % (adt.split("::")[-1], fld["name"]), adt, "shared atomic field is `pub`: writers outside the crate are not visible to the analysis")
                else:
                    rep.ok("C12.R3", "private/%s.%s" % (adt.split("::")[-1], fld["name"]), adt, "not pub", nontrivial=False)
    rules_c03.check_r1(facts, rep, crate, takes)
    rep.rule("C12.R4", "credit = grants - frames: the take succeeds only through the CAS decrement (= C03.R2): no Ready(Some) exit of the "
                       "credit-take function bypasses it, including the re-check after AtomicWaker::register")
    sub = type(rep)(rep.prop, rep.tier, rep.config)
    rules_c03.check_r2(facts, sub, crate, takes)
    for i in sub.instances:
        rep.ok("C12.R4", i["key"], i["where"], i["detail"], nontrivial=False)
    for v in sub.violations:
        rep.bad("C12.R4", v["key"].split("/", 1)[1], v["where"], v["msg"])
    # ---- R5 every reaction that closes a stream's write side sets the closed flag and wakes the parked writer (C10 table cells)
    rep.rule("C12.R5", "a writer waiting for credit is woken whenever the stream is closed: the Reset / overrun cells of the reaction table contain "
                       "`flag:set` + `wake` (= C05.R3 / C06.R2), and the slot-closing function sets the flag unconditionally")
    import rules_c10
    sub = type(rep)(rep.prop, rep.tier, rep.config)
    rules_c10.check(facts, sub, tier, cfg)
    rep.paths += sub.paths
    pick = ("cell/Reset/Established", "cell/Push/overrun")
    k5 = 0
    for i in sub.instances:
        if i["key"] in pick:
            k5 += 1
            rep.ok("C12.R5", i["key"], i["where"], i["detail"], nontrivial=False)
    for v in sub.violations:
        if v["key"].split("/", 1)[1] in pick:
            k5 += 1
            rep.bad("C12.R5", v["key"].split("/", 1)[1], v["where"], v["msg"])
    rep.floor("C12.R5", "stream-closing cells", k5, 2)
    # ---- R6 credit taken = frame sent (= C03.R7): credit available stays grants minus frames
    rep.rule("C12.R6", "credit available = grants - frames sent (= C03.R7): after a successful credit take every path queues a Push before "
                       "returning - a take that can be followed by a return without a frame (an empty write, an early exit) leaks a unit the "
                       "peer never grants back, and the writer eventually sleeps although it could proceed")
    import rules_c03 as _c03r7
    sub37 = type(rep)(rep.prop, rep.tier, rep.config)
    _c03r7.check_r7(facts, sub37, crate, _c03r7.credit_take_bodies(facts, crate))
    for i in sub37.instances:
        rep.ok("C12.R6", i["key"], i["where"], i["detail"], nontrivial=False)
    for v in sub37.violations:
        rep.bad("C12.R6", v["key"].split("/", 1)[1] if v["key"].startswith("C03.") else v["key"], v["where"], v["msg"])
    rep.rule("C12.S7", "who-may: the functions that touch the critical resources behind this property are those of the reference tree (flow table, closed flag, per-stream / datagram / outbound queues, last-pong timestamp, client id maps, shared TLS identity)")
    import whomay
    whomay.check(facts, rep, "C12.S7", "C12")
    whomay.check_new_statics(facts, rep, "C12.S7", "C12")
    whomay.check_new_trait_methods(facts, rep, "C12.S7", "C12")
